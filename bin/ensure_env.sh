#!/bin/bash
# Idempotent, offline: overlay venv on /venv (python 3.12 + numpy/astropy/toasty[editable -> /repo])
# plus crosshair-tool, z3-solver, cvc5 from the local wheelhouse.
set -e
V=/verif/.venv
WH=/opt/veriftools/wheels
ok() { "$V/bin/python" - <<'PY' >/dev/null 2>&1
import crosshair, z3, numpy, astropy, toasty, filelock
PY
}
if [ -x "$V/bin/python" ] && ok; then exit 0; fi
(
  flock 9
  if [ -x "$V/bin/python" ] && ok; then exit 0; fi
  rm -rf "$V"
  /venv/bin/python -m venv "$V"
  SP=$("$V/bin/python" -c "import sysconfig; print(sysconfig.get_paths()['purelib'])")
  echo "import site; site.addsitedir('/venv/lib/python3.12/site-packages')" > "$SP/_verif_overlay.pth"
  PIP_NO_INDEX=1 "$V/bin/python" -m pip install -q --no-index --find-links "$WH" crosshair-tool z3-solver cvc5 >/dev/null 2>&1 \
    || PIP_NO_INDEX=1 "$V/bin/python" -m pip install -q --no-index --find-links "$WH" crosshair-tool z3-solver
  ok || { echo "ensure_env: overlay venv broken" >&2; exit 2; }
) 9>/verif/.venv.lock
