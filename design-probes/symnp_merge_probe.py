import time, z3
import symnp_proto as sp
from symnp_proto import SArr, FElem, shim
import toasty.image as timg, toasty.merge as tmerge
from toasty.image import Image, ImageMode
from toasty.pyramid import Pos, pos_children
import numpy as np

# patch numpy in the real modules
timg.np = shim; tmerge.np = shim
timg.os = type('o', (), {'name': 'posix'})

class FakePio:
    def __init__(self, fmt, kids):
        self.fmt = fmt; self.kids = kids; self.written = {}
    def get_default_vertical_parity_sign(self): return 1 if self.fmt == 'fits' else -1
    def get_default_format(self): return self.fmt
    def read_image(self, pos, default='none'):
        return self.kids.get(pos)
    def write_image(self, pos, image, min_value=None, max_value=None):
        self.written[pos] = image

def run(fmt, present):
    P = Pos(1, 0, 1)
    kids = {}
    arrs = {}
    for k, c in enumerate(pos_children(P)):
        if present[k]:
            a = SArr.fresh("child%d" % k, (256, 256), np.float32)
            arrs[k] = a
            kids[c] = Image.from_array(a)
    pio = FakePio(fmt, kids)
    m = tmerge.TileMerger(pio, tmerge.averaging_merger)
    t0 = time.time()
    m.walk_callback(P)
    out = pio.written[P].asarray()
    r, c = z3.Ints('r c')
    e = out.get((r, c))
    # reference: display-orientation mosaic
    def disp_child(k, i, j):  # display pixel (i,j) of child k
        if k not in arrs: return FElem(z3.BoolVal(True), z3.RealVal(0))
        a = arrs[k]
        return a.get((255 - i, j)) if fmt == 'fits' else a.get((i, j))
    def mosaic(I, J):
        # child index 2*qy+qx
        res = None
        for qy in (1, 0):
            for qx in (1, 0):
                k = 2 * qy + qx
                el = disp_child(k, I - 256 * qy, J - 256 * qx)
                cond = z3.And(I >= 256 * qy, I < 256 * (qy + 1), J >= 256 * qx, J < 256 * (qx + 1))
                res = el if res is None else sp.ite(cond, el, res)
        return res
    # parent display pixel (i,j) = stored (255-i, j) for fits
    i, j = z3.Ints('i j')
    stored = out.get((255 - i, j)) if fmt == 'fits' else out.get((i, j))
    tot = z3.RealVal(0); cnt = z3.IntVal(0)
    for b in (0, 1):
        for d in (0, 1):
            el = mosaic(2 * i + b, 2 * j + d)
            tot = tot + z3.If(el.nan, 0, el.val); cnt = cnt + z3.If(el.nan, 0, 1)
    s = z3.Solver()
    s.add(i >= 0, i < 256, j >= 0, j < 256)
    claim = z3.And(stored.nan == (cnt == 0), z3.Implies(cnt > 0, stored.val == tot / z3.ToReal(cnt)))
    s.add(z3.Not(claim))
    res = s.check()
    print(fmt, present, res, "%.2fs" % (time.time() - t0))
    if res == z3.sat:
        print(s.model().eval(i), s.model().eval(j))

for fmt in ('npy', 'fits'):
    run(fmt, [True, True, True, True])
    run(fmt, [True, False, False, True])
# mutation: swap slices
tmerge.SLICES_OPPOSITE_PARITY[0], tmerge.SLICES_OPPOSITE_PARITY[1] = tmerge.SLICES_OPPOSITE_PARITY[1], tmerge.SLICES_OPPOSITE_PARITY[0]
run('fits', [True, True, False, True])
