"""Probe: one level of the real recursive generators with the recursive call stubbed by its hypothesis."""
from toasty.pyramid import Pos, pos_children
import toasty.pyramid as tp
import toasty.toast as tt
from toasty.toast import Tile

_orig_pp = tp._postfix_pos
_orig_pc = tt._postfix_corner

def chk_postfix_pos_level(n: int, x: int, y: int, depth: int) -> bool:
    """
    pre: 0 <= n <= 30 and 0 <= depth <= 31
    pre: 0 <= x < 4 and 0 <= y < 4
    post: _
    """
    pos = Pos(n, x, y)
    def stub(p, d):
        yield ('SUB', p, d)
    tp._postfix_pos = stub
    try:
        out = list(_orig_pp(pos, depth))
    finally:
        tp._postfix_pos = _orig_pp
    if n > depth:
        return out == []
    kids = pos_children(pos)
    return out == [('SUB', k, depth) for k in kids] + [pos]

def chk_postfix_corner_level(n: int, x: int, y: int, depth: int, accept: bool, bottom_only: bool, inc: bool) -> bool:
    """
    pre: 1 <= n <= 30 and 0 <= depth <= 31
    pre: 0 <= x < 4 and 0 <= y < 4
    post: _
    """
    corners = ((0.1, 0.2), (0.3, 0.2), (0.3, 0.0), (0.1, 0.0))
    tile = Tile(Pos(n, x, y), corners, inc)
    calls = []
    def filt(t):
        calls.append(t); return accept
    def stub(t, d, f, b):
        yield ('SUB', t.pos, d, f is filt, b)
    tt._postfix_corner = stub
    try:
        out = list(_orig_pc(tile, depth, filt, bottom_only))
    finally:
        tt._postfix_corner = _orig_pc
    if n > depth:
        return out == [] and calls == []
    if n > 1:
        if len(calls) != 1 or calls[0] is not tile: return False
        if not accept: return out == []
    else:
        if calls != []: return False
    kids = pos_children(Pos(n, x, y))
    want = [('SUB', k, depth, True, bottom_only) for k in kids]
    if n == depth or not bottom_only:
        want.append(tile)
    return out == want
