from toasty.pyramid import Pos, pos_parent, pos_children, is_subtile, generate_pos, depth2tiles

def chk_parent_child(n: int, x: int, y: int) -> bool:
    """
    pre: 0 <= n <= 30
    pre: 0 <= x < 2**n
    pre: 0 <= y < 2**n
    post: _
    """
    p = Pos(n, x, y)
    ok = True
    kids = pos_children(p)
    for i, c in enumerate(kids):
        pp, ix, iy = pos_parent(c)
        ok = ok and pp == p and ix == i % 2 and iy == i // 2
    return ok

def chk_subtile(n: int, x: int, y: int, m: int, u: int, v: int) -> bool:
    """
    pre: 0 <= m <= n <= 4
    pre: 0 <= x < 2**n and 0 <= y < 2**n
    pre: 0 <= u < 2**m and 0 <= v < 2**m
    post: _ == ((x >> (n-m)) == u and (y >> (n-m)) == v)
    """
    return is_subtile(Pos(n,x,y), Pos(m,u,v))
