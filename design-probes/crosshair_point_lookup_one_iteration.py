from typing import List
import toasty.toast as tt
from toasty.toast import toast_tile_for_point
from toasty.pyramid import pos_parent, Pos

def chk_one_iteration(q1: int, s0: float, s1: float, s2: float, s3: float) -> bool:
    """
    pre: 0 <= q1 < 4
    pre: s0 <= 0 and s1 <= 0 and s2 <= 0 and s3 <= 0
    pre: s0 > -1000 and s1 > -1000 and s2 > -1000 and s3 > -1000
    post: _
    """
    sc = [s0, s1, s2, s3]
    def score(tile, lat, lon):
        idx = (tile.pos.y % 2) * 2 + (tile.pos.x % 2)
        if tile.pos.n == 1:
            return 0.0 if idx == q1 else -100
        return sc[idx]
    saved = tt._toast_tile_containment_score
    tt._toast_tile_containment_score = score
    try:
        t1 = toast_tile_for_point(1, 0.3, 0.4)
        t2 = toast_tile_for_point(2, 0.3, 0.4)
    finally:
        tt._toast_tile_containment_score = saved
    ok = pos_parent(t2.pos)[0] == t1.pos
    # and it is the first child with score 0, else a child with maximal score
    idx2 = (t2.pos.y % 2) * 2 + (t2.pos.x % 2)
    zeros = [i for i in range(4) if sc[i] == 0.0]
    if zeros:
        ok = ok and idx2 == zeros[0]
    else:
        ok = ok and sc[idx2] == max(sc)
    return ok
