import z3, time, sys
def bmc(I, W, script, M):
    """script: list of ops for producer: ('start',w) ('put',) ('close',) ('join_thread',) ('set',) ('join',w)"""
    Lp = len(script)
    K = Lp + I + 2*I + W
    s = z3.SolverFor('QF_BV')
    def mk(t):
        st = dict(pc=z3.BitVec(f'pc_{t}', 6), put=z3.BitVec(f'put_{t}', 6), fl=z3.BitVec(f'fl_{t}', 6), got=z3.BitVec(f'got_{t}', 6),
                  closed=z3.Bool(f'closed_{t}'), done=z3.Bool(f'done_{t}'))
        for w in range(W):
            st[f'ws{w}'] = z3.BitVec(f'ws{w}_{t}', 6)   # 0 notstarted 1 idle 2 have 3 exited
            st[f'wi{w}'] = z3.BitVec(f'wi{w}_{t}', 6)
        for i in range(I):
            st[f'pr{i}'] = z3.BitVec(f'pr{i}_{t}', 6)
        return st
    S = [mk(t) for t in range(K+1)]
    s0 = S[0]
    s.add(s0['pc']==0, s0['put']==0, s0['fl']==0, s0['got']==0, z3.Not(s0['closed']), z3.Not(s0['done']))
    for w in range(W): s.add(s0[f'ws{w}']==0, s0[f'wi{w}']==63)
    for i in range(I): s.add(s0[f'pr{i}']==0)
    def frame(a, b, except_=()):
        return z3.And(*[b[k]==a[k] for k in a if k not in except_])
    for t in range(K):
        a, b = S[t], S[t+1]
        act = z3.BitVec(f'act_{t}', 6)  # 0 producer, 1 feeder, 2+w worker w, -1 stutter
        trans = []
        # producer
        pcs = []
        for pc, op in enumerate(script):
            if op[0]=='start':
                w = op[1]; en = z3.BoolVal(True); eff = z3.And(b[f'ws{w}']==1, frame(a,b,('pc',f'ws{w}')))
            elif op[0]=='put':
                en = z3.ULT(a['put'] - a['got'], M); eff = z3.And(b['put']==a['put']+1, frame(a,b,('pc','put')))
            elif op[0]=='close':
                en = z3.BoolVal(True); eff = z3.And(b['closed'], frame(a,b,('pc','closed')))
            elif op[0]=='join_thread':
                en = a['fl']==a['put']; eff = frame(a,b,('pc',))
            elif op[0]=='set':
                en = z3.BoolVal(True); eff = z3.And(b['done'], frame(a,b,('pc','done')))
            elif op[0]=='join':
                w = op[1]; en = a[f'ws{w}']==3; eff = frame(a,b,('pc',))
            pcs.append((z3.And(a['pc']==pc, en), z3.And(eff, b['pc']==pc+1)))
        prod_en = z3.Or(*[c for c,_ in pcs])
        prod_tr = z3.Or(*[z3.And(c,e) for c,e in pcs])
        # feeder
        feed_en = z3.ULT(a['fl'], a['put'])
        feed_tr = z3.And(feed_en, b['fl']==a['fl']+1, frame(a,b,('fl',)))
        ens = [prod_en, feed_en]; trs = [prod_tr, feed_tr]
        for w in range(W):
            ws, wi = a[f'ws{w}'], a[f'wi{w}']
            get_en = z3.And(ws==1, z3.ULT(a['got'], a['fl']))
            get_tr = z3.And(get_en, b[f'ws{w}']==2, b[f'wi{w}']==a['got'], b['got']==a['got']+1, frame(a,b,(f'ws{w}',f'wi{w}','got')))
            exit_en = z3.And(ws==1, a['got'] == a['fl'], a['done'])
            exit_tr = z3.And(exit_en, b[f'ws{w}']==3, frame(a,b,(f'ws{w}',)))
            cb_en = ws==2
            cb_tr = z3.And(cb_en, b[f'ws{w}']==1, b[f'wi{w}']==63,
                           *[b[f'pr{i}']==z3.If(wi==i, a[f'pr{i}']+1, a[f'pr{i}']) for i in range(I)],
                           frame(a,b,tuple([f'ws{w}',f'wi{w}']+[f'pr{i}' for i in range(I)])))
            ens.append(z3.Or(get_en, exit_en, cb_en)); trs.append(z3.Or(get_tr, exit_tr, cb_tr))
        anyen = z3.Or(*ens)
        s.add(z3.Or(*[z3.And(act==k, trs[k]) for k in range(len(trs))], z3.And(act==63, z3.Not(anyen), frame(a,b))))
    fin = S[K]
    good = z3.And(fin['pc']==Lp, *[fin[f'pr{i}']==1 for i in range(I)], *[fin[f'ws{w}']==3 for w in range(W)])
    # also: at the moment the producer finishes, everything must already be processed
    early = z3.Or(*[z3.And(S[t]['pc']==Lp, z3.Not(z3.And(*[S[t][f'pr{i}']==1 for i in range(I)], *[S[t][f'ws{w}']==3 for w in range(W)]))) for t in range(K+1)])
    s.add(z3.Or(z3.Not(good), early))
    t0=time.time(); r = s.check(); dt=time.time()-t0
    tr = None
    if r == z3.sat:
        m = s.model(); tr = [m.eval(z3.BitVec(f'act_{t}', 6)).as_long() for t in range(K)]
    return r, dt, K, tr
I, W = int(sys.argv[1]), int(sys.argv[2])
good_script = [('start',w) for w in range(W)] + [('put',)]*I + [('close',),('join_thread',),('set',)] + [('join',w) for w in range(W)]
print('good', bmc(I, W, good_script, 2*W)[:3])
bad_script = [('start',w) for w in range(W)] + [('put',)]*I + [('close',),('set',),('join_thread',)] + [('join',w) for w in range(W)]
print('bad(set before join_thread)', bmc(I, W, bad_script, 2*W))
bad2 = [('start',w) for w in range(W)] + [('put',)]*I + [('close',),('join_thread',),('set',)] + [('join',w) for w in range(W-1)]
print('bad(missing join)', bmc(I, W, bad2, 2*W))
