"""Probe: real Image.fill/update_into_maskable_buffer for every mode under the symnp prototype."""
import z3, time
import numpy as np
import symnp_proto as sp
from symnp_proto import SArr, FElem, shim
import toasty.image as timg
from toasty.image import Image, ImageMode

def np_any(a, axis):
    a = a.frozen(); keep = [i for i in range(a.ndim) if i != axis]
    shape = tuple(a.shape[i] for i in keep)
    def get(idx):
        terms = []
        for r in range(a.shape[axis]):
            full = list(idx); full.insert(axis, r); terms.append(a.get(tuple(full)))
        return z3.Or(*terms)
    return SArr(shape, bool, get)
shim.any = np_any
timg.np = shim; timg.os = type('o', (), {'name': 'posix'})

MODES = {
    'RGB': ((3,), np.uint8), 'RGBA': ((4,), np.uint8), 'F32': ((), np.float32), 'F64': ((), np.float64),
    'F16x3': ((3,), np.float16), 'U8': ((), np.uint8), 'I16': ((), np.int16), 'I32': ((), np.int32),
}
def elem_eq(a, b):
    if isinstance(a, FElem) or isinstance(b, FElem):
        a = sp.lift(a, True); b = sp.lift(b, True)
        return z3.And(a.nan == b.nan, z3.Implies(z3.Not(a.nan), a.val == b.val))
    return a == sp.lift(b, False)
def run(mode, op):
    tail, dt = MODES[mode]
    src = SArr.fresh('src', (300, 400) + tail, dt)
    img = Image.from_array(src)
    buf = img.mode.make_maskable_buffer(256, 256)
    old = buf.asarray().frozen()
    iy, ix, by, bx = slice(10, 110), slice(20, 90), slice(100, 200), slice(5, 75)
    t0 = time.time()
    getattr(img, op + '_into_maskable_buffer')(buf, iy, ix, by, bx)
    out = buf.asarray()
    r, c, ch = z3.Ints('r c ch')
    nch = out.shape[2] if out.ndim == 3 else None
    s = z3.Solver(); s.add(r >= 0, r < 256, c >= 0, c < 256)
    if nch: s.add(ch >= 0, ch < nch)
    idx = (r, c, ch) if nch else (r, c)
    inside = z3.And(r >= 100, r < 200, c >= 5, c < 75)
    sr, sc = r - 100 + 10, c - 5 + 20
    isf = np.dtype(dt).kind == 'f'
    got = out.get(idx); prev = old.get(idx)
    # reference semantics from the property text
    if mode == 'RGB':
        srcv = z3.If(ch < 3, src.get((sr, sc, ch)), z3.IntVal(255)); defined = z3.BoolVal(True)
    elif mode == 'RGBA':
        srcv = src.get((sr, sc, ch)); defined = src.get((sr, sc, 3)) != 0
    elif mode == 'F16x3':
        srcv = src.get((sr, sc, ch)); defined = z3.Not(z3.Or(*[src.get((sr, sc, q)).nan for q in range(3)]))
    elif isf:
        srcv = src.get((sr, sc)); defined = z3.Not(srcv.nan)
    else:
        srcv = src.get((sr, sc)); defined = None
    undef = FElem(z3.BoolVal(True), z3.RealVal(0)) if isf else z3.IntVal(0)
    if op == 'fill':
        want_in = srcv; want_out = undef
        claim = z3.If(inside, elem_eq(got, want_in), elem_eq(got, want_out))
    else:
        if defined is None:   # integer modes: max(old, src)
            claim = z3.If(inside, got == z3.If(prev >= srcv, prev, srcv), got == prev)
        else:
            claim = z3.If(z3.And(inside, defined), elem_eq(got, srcv), elem_eq(got, prev))
    s.add(z3.Not(claim))
    res = s.check()
    return str(res), round(time.time() - t0, 2)
for mode in MODES:
    print(mode, 'fill', run(mode, 'fill'), 'update', run(mode, 'update'))
