from typing import List
from toasty.pyramid import Pyramid, Pos, pos_children, pos_parent, PyramidReductionIterator

class FakePyr:
    def __init__(self, depth, apex, seq):
        self.depth = depth; self._apex = apex; self._seq = seq
    def _generator(self):
        for p in self._seq:
            yield p, None

def chk_reducer_step(k: int, px: int, py: int, slots: List[int], qkind: int, dx: int, dy: int, down: int, v: int) -> bool:
    """
    pre: 1 <= k <= 3
    pre: 0 <= px < 2**k and 0 <= py < 2**k
    pre: len(slots) == 4 * k
    pre: 0 <= qkind <= 1
    pre: 0 <= dx <= 1 and 0 <= dy <= 1 and 0 <= down <= 2
    post: _
    """
    depth = 6
    P = Pos(k, px, py)
    # choose Q: parent(P) (qkind 0) or a descendant (down levels, first-child chain) of a later sibling of P
    ppos, ix, iy = pos_parent(P)
    if qkind == 0:
        Q = ppos
    else:
        if 2 * dy + dx <= 2 * iy + ix:
            return True  # not a later sibling: outside generator contract
        S = Pos(k, ppos.x * 2 + dx, ppos.y * 2 + dy)
        Q = S
        for _ in range(down):
            Q = pos_children(Q)[0]
    r = PyramidReductionIterator(FakePyr(depth, Pos(0, 0, 0), [Q]), default_value=-1)
    # inject state "just finished P"
    chain = []
    a = P
    while a.n > 0:
        a = pos_parent(a)[0]
        chain.append(a)
    chain = chain[::-1]   # levels 0..k-1
    r._levels = [[chain[j].x, chain[j].y] + list(slots[4 * j:4 * j + 4]) for j in range(k)]
    r._most_recent_pos = P
    r._got_data = True
    before = [list(e) for e in r._levels]
    pos, info, is_leaf, data = next(r)
    ok = pos == Q and is_leaf == (Q.n == depth)
    if qkind == 0:
        ok = ok and data == before[k - 1][2:] and len(r._levels) == k - 1
    else:
        ok = ok and data == [-1, -1, -1, -1] and len(r._levels) == Q.n
        ok = ok and r._levels[:k] == before
    r.set_data(v)
    if Q.n > 0:
        qp, qx, qy = pos_parent(Q)
        e = r._levels[qp.n]
        ok = ok and e[0] == qp.x and e[1] == qp.y and e[2 + 2 * qy + qx] == v
        # frame: other slots of that entry unchanged (vs. before if existed, else default)
        for s in range(4):
            if s != 2 * qy + qx:
                want = before[qp.n][2 + s] if qp.n < k else -1
                ok = ok and e[2 + s] == want
    return ok
