import time, z3, sys
import numpy as np
import symnp_proto as sp
from symnp_proto import SArr, FElem, shim
from symx_proto import explore, CUR, SB
from symint_proto import SI, I, sym_int, SymRange, slice_indices
import toasty.image as timg, toasty.study as _orig_study
import types, os
_src = open(_orig_study.__file__).read()
MUT = os.environ.get('MUT')
if MUT == 'a': _src = _src.replace("self._img_gx0 = (self._p2n - self._width) // 2", "self._img_gx0 = (self._p2n - self._width) // 2 + 1"); 
if MUT == 'b': _src = _src.replace("flip_tile_y0 = None  # with a slice, -1 does the wrong thing", "pass")
if MUT == 'c': _src = _src.replace("tile_gx1 = tile_gx0 + 255", "tile_gx1 = tile_gx0 + 256")
tstudy = types.ModuleType('toasty.study'); tstudy.__package__ = 'toasty'; tstudy.__file__ = _orig_study.__file__
exec(compile(_src, _orig_study.__file__, 'exec'), tstudy.__dict__)
from toasty.image import Image
from toasty.pyramid import Pos
from contextlib import contextmanager

OBLIG = []
def is_sym(x): return isinstance(x, (SI, z3.ExprRef))
def T(x): return x.t if isinstance(x, SI) else x

# --- symbolic-slice aware __getitem__
def getitem(self, key):
    key = self._norm_key(key)
    vshape = []; plan = []; bdim = 0
    for k in key:
        if k is None:
            plan.append(('n', len(vshape))); vshape.append(1)
        elif isinstance(k, slice):
            if any(is_sym(f) for f in (k.start, k.stop)) or is_sym(self.shape[bdim]):
                s, step, ln = slice_indices(k, self.shape[bdim]); ln = SI(ln)
            else:
                s, e, step = k.indices(self.shape[bdim]); ln = len(range(s, e, step))
            plan.append(('s', bdim, s, step, len(vshape))); vshape.append(ln); bdim += 1
        else:
            plan.append(('i', bdim, k if is_sym(k) else int(k))); bdim += 1
    nb = self.ndim
    def fwd(vidx):
        b = [None] * nb
        for p in plan:
            if p[0] == 's': b[p[1]] = p[2] + p[3] * vidx[p[4]]
            elif p[0] == 'i': b[p[1]] = T(p[2])
        return tuple(b)
    def inv(bidx):
        conds = []; v = [0] * len(vshape)
        for p in plan:
            if p[0] == 's':
                _, bd, start, step, vd = p
                vi = (bidx[bd] - start) * step
                conds.append(z3.And(vi >= 0, vi < T(vshape[vd]))); v[vd] = vi
            elif p[0] == 'i':
                conds.append(bidx[p[1]] == T(p[2]))
        return (z3.And(*conds) if conds else z3.BoolVal(True)), tuple(v)
    parent = self
    def get(vidx): return parent.get(fwd(vidx))
    def setreg(cond, val):
        parent._setreg(lambda b: z3.And(inv(b)[0], cond(inv(b)[1])), lambda b: val(inv(b)[1]))
    def frz():
        pg = parent._frz(); return lambda vidx: pg(fwd(vidx))
    return SArr(vshape, self.dtype, get, setreg, frz=frz)
SArr.__getitem__ = getitem

def _bc(self, value):
    isf = self.isfloat
    if isinstance(value, SArr):
        value = value.frozen(); vs = value.shape; off = self.ndim - len(vs)
        for i in range(len(vs)):
            a, b = vs[i], self.shape[i + off]
            if is_sym(a) or is_sym(b):
                OBLIG.append(T(a) == T(b))
        def f(idx):
            sub = tuple((0 if (not is_sym(vs[i]) and vs[i] == 1 and not (not is_sym(self.shape[i+off]) and self.shape[i + off] == 1)) else idx[i + off]) for i in range(len(vs)))
            return sp.lift(value.get(sub), isf)
        return f
    return lambda idx: sp.lift(value, isf)
SArr._bc = _bc

# --- patch the real modules
timg.np = shim; timg.os = type('o', (), {'name': 'posix'})
tstudy.int = sym_int; tstudy.range = SymRange
class _NP: update = lambda self, n: None
@contextmanager
def _pb(total=None, show=None): yield _NP()
tstudy.progress_bar = _pb

class FakePio:
    def __init__(self, sign): self.sign = sign; self.written = []
    def get_default_vertical_parity_sign(self): return self.sign
    def write_image(self, pos, image): self.written.append((pos, image.asarray().frozen()))

stats = dict(paths=0, proved=0, failed=0, oblig=0)
def harness(ctx):
    SymRange.log.clear(); SymRange.witness.clear(); OBLIG.clear()
    sign = SIGN
    W, H = SI(z3.Int('W')), SI(z3.Int('H'))
    ctx.assume(z3.And(W.t >= 1, H.t >= 1, W.t <= 2**MAXP, H.t <= 2**MAXP))
    tiling = tstudy.StudyTiling(W, H)
    img_arr = SArr.fresh('img', (H, W), np.float32)
    image = Image.from_array(img_arr)
    pio = FakePio(sign)
    # image pixel of interest and its witness tile
    px, py = z3.Ints('px py')
    ctx.assume(z3.And(px >= 0, px < W.t, py >= 0, py < H.t))
    gx = px + I(tiling._img_gx0); gy = py + I(tiling._img_gy0)
    SymRange.witness[0] = SI(gy / 256); SymRange.witness[1] = SI(gx / 256)   # ity first, then itx
    tiling.tile_image(image, pio)
    (pos, buf), = pio.written
    stats['paths'] += 1
    s = ctx.solver
    # obligation: shapes agree
    for ob in OBLIG:
        s.push(); s.add(z3.Not(ob)); r = s.check(); s.pop(); stats['oblig'] += 1
        if r != z3.unsat: stats['failed'] += 1; return ('SHAPE', r)
    # claim: display pixel (gy%256, gx%256) of tile == image[py,px]; any other slot (r,c) either maps to an image pixel or is NaN
    r_, c_ = z3.Ints('r c')
    s.push(); s.add(r_ >= 0, r_ < 256, c_ >= 0, c_ < 256)
    stored = buf.get((255 - r_, c_)) if sign == 1 else buf.get((r_, c_))
    ggx = I(pos.x) * 256 + c_ - I(tiling._img_gx0); ggy = I(pos.y) * 256 + r_ - I(tiling._img_gy0)
    inimg = z3.And(ggx >= 0, ggx < W.t, ggy >= 0, ggy < H.t)
    want = img_arr.get((ggy, ggx))
    claim = z3.If(inimg, z3.And(stored.nan == want.nan, stored.val == want.val), stored.nan)
    wit = z3.And(I(pos.x) == gx / 256, I(pos.y) == gy / 256)
    s.add(z3.Not(z3.And(claim, wit)))
    res = s.check(); s.pop()
    if res == z3.unsat: stats['proved'] += 1; return 'ok'
    stats['failed'] += 1
    return ('FAIL', res)

MAXP = int(sys.argv[1]) if len(sys.argv) > 1 else 12
for SIGN in (-1, 1):
    for k in stats: stats[k] = 0
    n, nq, dt, res = explore(harness)
    print('parity', SIGN, 'paths', n, 'queries', nq, 'time %.1f' % dt, stats, [r for r in res if r != 'ok'][:3])
