import z3, time
def vec(n): return [z3.Real(f'{n}{k}') for k in 'xyz']
def add(a,b): return [x+y for x,y in zip(a,b)]
def cross(a,b): return [a[1]*b[2]-a[2]*b[1], a[2]*b[0]-a[0]*b[2], a[0]*b[1]-a[1]*b[0]]
def dot(a,b): return sum(x*y for x,y in zip(a,b))
def det(a,b,p): return dot(cross(a,b),p)
ul,ur,lr,ll,p = vec('ul'),vec('ur'),vec('lr'),vec('ll'),vec('p')
to,ri,bo,le = add(ul,ur),add(ur,lr),add(lr,ll),add(ll,ul)
for inc in (True, False):
    ce = add(ll,ur) if inc else add(ul,lr)
    s = z3.Solver(); s.set('timeout', 120000)
    # p in parent (left of all four edges), quad convex & small: each corner is left of the opposite edges
    s.add(det(ul,ur,p)>=0, det(ur,lr,p)>=0, det(lr,ll,p)>=0, det(ll,ul,p)>=0)
    s.add(det(ul,ur,lr)>0, det(ul,ur,ll)>0, det(ur,lr,ll)>0, det(ur,lr,ul)>0, det(lr,ll,ul)>0, det(lr,ll,ur)>0, det(ll,ul,ur)>0, det(ll,ul,lr)>0)
    # all in one open hemisphere: positive dot with sum
    for v in (ul,ur,lr,ll): s.add(dot(v,v)==1)
    c = add(add(ul,ur),add(lr,ll))
    for v in (ul,ur,lr,ll,p): s.add(dot(v,c)>0)
    kids = [(ul,to,ce,le),(to,ur,ri,ce),(le,ce,bo,ll),(ce,ri,lr,bo)]
    def inside(k): 
        a,b,c_,d = k
        return z3.And(det(a,b,p)>=0, det(b,c_,p)>=0, det(c_,d,p)>=0, det(d,a,p)>=0)
    s.add(z3.Not(z3.Or(*[inside(k) for k in kids])))
    t0=time.time(); r = s.check(); print(inc, r, time.time()-t0)
    if str(r)=='sat':
        m = s.model(); print({str(d): m[d] for d in m.decls()})
