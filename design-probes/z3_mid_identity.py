import z3, time
# angles as (sin, cos) pairs
R = z3.Real
sla, cla, slb, clb, sa, ca, sb, cb = z3.Reals('sla cla slb clb sa ca sb cb')
cons = [sla*sla+cla*cla==1, slb*slb+clb*clb==1, sa*sa+ca*ca==1, sb*sb+cb*cb==1, ca>=0, cb>=0]
# dl = lb - la
sdl = slb*cla - clb*sla
cdl = clb*cla + slb*sla
bx = cb*cdl
by = cb*sdl
# hyp = hypot(ca+bx, by)
hyp = R('hyp'); cons += [hyp>=0, hyp*hyp == (ca+bx)*(ca+bx) + by*by]
# outb = atan2(sa+sb, hyp): angle with sin= (sa+sb)/r, cos = hyp/r, r = sqrt((sa+sb)^2+hyp^2)
r = R('r'); cons += [r>0, r*r == (sa+sb)*(sa+sb) + hyp*hyp]
s_ob, c_ob = R('s_ob'), R('c_ob'); cons += [s_ob*r == sa+sb, c_ob*r == hyp]
# t = atan2(by, ca+bx): r2 = hyp (>0 assumed)
cons += [hyp > 0]
s_t, c_t = R('s_t'), R('c_t'); cons += [s_t*hyp == by, c_t*hyp == ca+bx]
# outl = la + t
s_ol = sla*c_t + cla*s_t
c_ol = cla*c_t - sla*s_t
# vectors
A = (ca*cla, ca*sla, sa); B = (cb*clb, cb*slb, sb)
M = (c_ob*c_ol, c_ob*s_ol, s_ob)
S = tuple(a+b for a,b in zip(A,B))
# claim: M * r == S componentwise
claim = z3.And(*[m*r == s for m,s in zip(M,S)])
s = z3.Solver(); s.add(cons); s.add(z3.Not(claim))
t0=time.time(); print(s.check(), time.time()-t0)
