"""Probe: deterministic-schedule replay of the REAL visit_leaves(parallel=2) / _mp_visit_worker
through thread-based fake multiprocessing primitives.  A schedule is a list of actor names; each
fake primitive operation is a rendezvous: the calling thread announces the operation it wants to
perform and blocks until the scheduler grants that actor the next turn."""
import threading, sys, types, time
from queue import Empty
from contextlib import contextmanager
import multiprocessing as real_mp
import toasty.pyramid as tp
from toasty.pyramid import Pyramid, Pos

class _NP:
    def update(self, n): pass
@contextmanager
def _pb(total=None, show=None): yield _NP()
tp.progress_bar = _pb
tp.print = lambda *a, **k: None

class Killed(BaseException): pass

class Sched:
    def __init__(self, schedule):
        self.schedule = list(schedule); self.cv = threading.Condition(); self.turn = None
        self.waiting = {}      # actor -> (opname, enabled_fn, timeout_ok)
        self.log = []; self.dead = False
        self.local = threading.local()
    def me(self): return getattr(self.local, 'name', 'main')
    def op(self, name, enabled=lambda: True):
        """block until scheduler grants this actor a turn while enabled(); returns True (do it)"""
        a = self.me()
        with self.cv:
            self.waiting[a] = (name, enabled)
            self.cv.notify_all()
            while self.turn != a:
                if self.dead: raise Killed()
                self.cv.wait(0.05)
            self.turn = None
            del self.waiting[a]
            self.log.append((a, name))
            self.cv.notify_all()
    def run(self, nactors_hint=1, settle=0.02):
        """driver: for each step wait until the scheduled actor is waiting & enabled, then grant."""
        for step, a in enumerate(self.schedule):
            t0 = time.time()
            with self.cv:
                while True:
                    w = self.waiting.get(a)
                    if w is not None and w[1]() and self.turn is None:
                        self.turn = a; self.cv.notify_all(); break
                    if time.time() - t0 > 2.0:
                        self.dead = True; self.cv.notify_all()
                        return ('stuck', step, a, dict((k, v[0]) for k, v in self.waiting.items()))
                    self.cv.wait(0.01)
            # wait until the granted op has been consumed
            with self.cv:
                while self.turn is not None: self.cv.wait(0.01)
        time.sleep(settle)
        with self.cv:
            self.dead = True; self.cv.notify_all()
        return ('end', dict((k, v[0]) for k, v in self.waiting.items()))

def make_fake_mp(S):
    class Q:
        def __init__(self, maxsize=0):
            self.maxsize = maxsize; self.buf = []; self.pipe = []; self.outstanding = 0; self.closed = False
            # feeder actor
            def feeder():
                S.local.name = 'feeder'
                try:
                    while True:
                        S.op('flush', lambda: len(self.buf) > 0)
                        self.pipe.append(self.buf.pop(0))
                except Killed: pass
            threading.Thread(target=feeder, daemon=True).start()
        def put(self, item):
            S.op('put', lambda: self.maxsize <= 0 or self.outstanding < self.maxsize)
            self.outstanding += 1; self.buf.append(item)
        def get(self, block=True, timeout=None):
            # the scheduler decides: if pipe empty when granted => Empty (time-out)
            S.op('get')
            if self.pipe:
                self.outstanding -= 1
                return self.pipe.pop(0)
            raise Empty()
        def close(self): S.op('close'); self.closed = True
        def join_thread(self): S.op('join_thread', lambda: not self.buf)
    class E:
        def __init__(self): self.f = False
        def set(self): S.op('set'); self.f = True
        def is_set(self): return self.f
    class P:
        n = 0
        def __init__(self, target=None, args=()):
            self.target, self.args = target, args; self.daemon = False; self.exited = False
            self.name = 'w%d' % P.n; P.n += 1
        def start(self):
            S.op('start')
            def body():
                S.local.name = self.name
                try: self.target(*self.args)
                except Killed: return
                finally: self.exited = True
            threading.Thread(target=body, daemon=True).start()
        def join(self): S.op('join', lambda: self.exited)
    m = types.SimpleNamespace(Queue=Q, Event=E, Process=P, get_start_method=lambda: 'fork')
    return m

def replay(schedule, mutate=None):
    S = Sched(schedule)
    fake = make_fake_mp(S)
    saved = (real_mp.Queue, real_mp.Event, real_mp.Process, real_mp.get_start_method)
    real_mp.Queue, real_mp.Event, real_mp.Process, real_mp.get_start_method = fake.Queue, fake.Event, fake.Process, fake.get_start_method
    calls = []; result = {}
    def cb(pos, tile):
        calls.append((S.me(), pos))
    def main():
        S.local.name = 'main'
        try:
            p = Pyramid.new_generic(1)
            p.visit_leaves(cb, parallel=2)
            result['returned_with'] = list(calls)
        except Killed: pass
    t = threading.Thread(target=main, daemon=True); t.start()
    out = S.run()
    real_mp.Queue, real_mp.Event, real_mp.Process, real_mp.get_start_method = saved
    return out, calls, result, S.log

if __name__ == '__main__':
    # 4 leaves, 2 workers.  A fair schedule that completes:
    good = ['main', 'main'] + ['main'] * 4 + ['feeder'] * 4 + ['w0', 'w1', 'w0', 'w1'] + ['main', 'main', 'main'] + ['w0', 'w1'] + ['main', 'main']
    out, calls, result, log = replay(good)
    print('good:', out[0], 'callbacks', len(calls), 'returned_with', len(result.get('returned_with', [])) if result else None)
    print(log)
