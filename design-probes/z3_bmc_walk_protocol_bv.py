"""Probe: QF_BV BMC of the parallel walk protocol on a depth-2 tree (root + 4 level-1 tiles).
Dispatcher release rule is a parameter (table) so that mutants can be tried."""
import z3, time, sys

NT = 5  # tiles 0..3 = A_i, 4 = root
ST_NOTREADY, ST_RBUF, ST_RPIPE, ST_HELD, ST_RUN, ST_CBDONE, ST_DBUF, ST_DPIPE, ST_CONS = range(9)
BW = 4

def bmc(W, release_when=0xF, worker_put_before_cb=False):
    K = NT * 8 + 4 + 2 * W
    s = z3.SolverFor('QF_BV')
    live = [z3.Bool(f'live{i}') for i in range(4)]
    s.add(z3.Or(*live))
    def bv(name, t, w=BW): return z3.BitVec(f'{name}_{t}', w)
    def mk(t):
        st = {}
        for T in range(NT):
            st[f'st{T}'] = bv(f'st{T}', t); st[f'ow{T}'] = bv(f'ow{T}', t)
        st['flags'] = bv('flags', t)           # readiness of root
        st['pcd'] = bv('pcd', t)               # 0 loop, 1 close/join_thread pending, 2 set pending, 3.. joins, 3+W finished
        st['done'] = z3.Bool(f'done_{t}')
        for w in range(W):
            st[f'wx{w}'] = z3.Bool(f'wx{w}_{t}')   # exited
        st['err'] = z3.Bool(f'err_{t}')
        return st
    S = [mk(t) for t in range(K + 1)]
    s0 = S[0]
    dead_mask = z3.BitVecVal(0, BW)
    for i in range(4):
        dead_mask = dead_mask | z3.If(live[i], z3.BitVecVal(0, BW), z3.BitVecVal(1 << i, BW))
        s.add(s0[f'st{i}'] == z3.If(live[i], z3.BitVecVal(ST_RBUF, BW), z3.BitVecVal(ST_NOTREADY, BW)), s0[f'ow{i}'] == 0)
    s.add(s0['st4'] == ST_NOTREADY, s0['ow4'] == 0, s0['flags'] == dead_mask, s0['pcd'] == 0, z3.Not(s0['done']), z3.Not(s0['err']))
    for w in range(W): s.add(z3.Not(s0[f'wx{w}']))
    def frame(a, b, ex=()):
        return z3.And(*[b[k] == a[k] for k in a if k not in ex])
    def busy(a, w):  # worker w holds a tile in HELD/RUN/CBDONE
        return z3.Or(*[z3.And(z3.Or(a[f'st{T}'] == ST_HELD, a[f'st{T}'] == ST_RUN, a[f'st{T}'] == ST_CBDONE), a[f'ow{T}'] == w) for T in range(NT)])
    ndone = lambda a: sum([z3.If(z3.Or(a[f'st{T}'] == ST_DBUF, a[f'st{T}'] == ST_DPIPE), z3.BitVecVal(1, BW), z3.BitVecVal(0, BW)) for T in range(NT)])
    for t in range(K):
        a, b = S[t], S[t + 1]
        trs = []
        # dispatcher consume
        for T in range(NT):
            en = z3.And(a['pcd'] == 0, a[f'st{T}'] == ST_DPIPE)
            if T == 4:
                eff = z3.And(b['st4'] == ST_CONS, b['pcd'] == 1, frame(a, b, ('st4', 'pcd')))
            else:
                nf = a['flags'] | (1 << T)
                rel = nf == release_when
                eff = z3.And(b[f'st{T}'] == ST_CONS,
                             b['flags'] == z3.If(rel, z3.BitVecVal(0, BW), nf),
                             b['st4'] == z3.If(rel, z3.BitVecVal(ST_RBUF, BW), a['st4']),
                             b['err'] == z3.Or(a['err'], z3.And(rel, a['st4'] != ST_NOTREADY)),
                             frame(a, b, (f'st{T}', 'flags', 'st4', 'err')))
            trs.append(z3.And(en, eff))
        # dispatcher shutdown
        no_rbuf = z3.And(*[a[f'st{T}'] != ST_RBUF for T in range(NT)])
        trs.append(z3.And(a['pcd'] == 1, no_rbuf, b['pcd'] == 2, frame(a, b, ('pcd',))))
        trs.append(z3.And(a['pcd'] == 2, b['pcd'] == 3, b['done'], frame(a, b, ('pcd', 'done'))))
        for w in range(W):
            trs.append(z3.And(a['pcd'] == 3 + w, a[f'wx{w}'], b['pcd'] == 4 + w, frame(a, b, ('pcd',))))
        # feeders
        for T in range(NT):
            trs.append(z3.And(a[f'st{T}'] == ST_RBUF, b[f'st{T}'] == ST_RPIPE, frame(a, b, (f'st{T}',))))
            trs.append(z3.And(a[f'st{T}'] == ST_DBUF, b[f'st{T}'] == ST_DPIPE, frame(a, b, (f'st{T}',))))
        # workers
        rpipe_empty = z3.And(*[a[f'st{T}'] != ST_RPIPE for T in range(NT)])
        for w in range(W):
            alive = z3.Not(a[f'wx{w}'])
            for T in range(NT):
                trs.append(z3.And(alive, z3.Not(busy(a, w)), a[f'st{T}'] == ST_RPIPE, b[f'st{T}'] == ST_HELD, b[f'ow{T}'] == w, frame(a, b, (f'st{T}', f'ow{T}'))))
                mine = z3.And(alive, a[f'ow{T}'] == w)
                if not worker_put_before_cb:
                    # HELD -> RUN (cb start) : safety check for root
                    viol = z3.BoolVal(False)
                    if T == 4:
                        viol = z3.Or(*[z3.And(live[i], z3.ULT(a[f'st{i}'], ST_CBDONE)) for i in range(4)])
                    trs.append(z3.And(mine, a[f'st{T}'] == ST_HELD, b[f'st{T}'] == ST_RUN, b['err'] == z3.Or(a['err'], viol), frame(a, b, (f'st{T}', 'err'))))
                    trs.append(z3.And(mine, a[f'st{T}'] == ST_RUN, b[f'st{T}'] == ST_CBDONE, frame(a, b, (f'st{T}',))))
                    trs.append(z3.And(mine, a[f'st{T}'] == ST_CBDONE, z3.ULT(ndone(a), 2 * W), b[f'st{T}'] == ST_DBUF, frame(a, b, (f'st{T}',))))
                else:
                    raise NotImplementedError
            own_dbuf_empty = z3.And(*[z3.Not(z3.And(a[f'st{T}'] == ST_DBUF, a[f'ow{T}'] == w)) for T in range(NT)])
            trs.append(z3.And(alive, z3.Not(busy(a, w)), rpipe_empty, a['done'], own_dbuf_empty, b[f'wx{w}'], frame(a, b, (f'wx{w}',))))
        anyen = z3.Or(*[z3.And(*[c for c in [tr.arg(0)]]) for tr in trs]) if False else None
        # enabledness = exists successor; encode stutter only if no transition possible: use explicit guards
        guards = [tr.arg(0) if False else None for tr in trs]
        stut = z3.Bool(f'stut_{t}')
        s.add(z3.Or(z3.And(z3.Not(stut), z3.Or(*trs)), z3.And(stut, frame(a, b))))
        # a stutter is only allowed in the final good state (checked below), so any stutter elsewhere = deadlock witness
    fin_ok = lambda st: z3.And(st['pcd'] == 3 + W, *[st[f'wx{w}'] for w in range(W)],
                               *[z3.Implies(live[i], st[f'st{i}'] == ST_CONS) for i in range(4)], st['st4'] == ST_CONS)
    # violation: error flag at some point, or a stutter taken in a non-final state when ... (we ask: exists run that never errs but ends not ok
    # while only stuttering when no transition is enabled) -- approximate deadlock check: final state after K steps not ok and stutters only when stuck
    # Here: forbid stutter unless state is fin_ok  => if system can deadlock, formula below becomes UNSAT-insensitive; so check two queries.
    res = {}
    # Query 1 (safety): some run reaches err
    s.push()
    for t in range(K): s.add(z3.Implies(z3.Bool(f'stut_{t}'), fin_ok(S[t])))
    s.add(z3.Or(*[S[t]['err'] for t in range(K + 1)]))
    t0 = time.time(); res['safety'] = (s.check(), round(time.time() - t0, 2));
    if res['safety'][0] == z3.sat:
        m = s.model(); res['live'] = [bool(m.eval(l, model_completion=True)) for l in live]
    s.pop()
    # Query 2 (progress): a run of K non-stutter steps must not be possible unless...; instead: exists reachable non-final state with no enabled transition
    return res, K

W = int(sys.argv[1]) if len(sys.argv) > 1 else 2
print('good', bmc(W))
print('mutant release at 0x7', bmc(W, release_when=0x7))
