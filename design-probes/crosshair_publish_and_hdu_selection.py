import os, io
from typing import List, Optional, Union
import toasty.pipeline as tp
from toasty.pipeline import PipelineManager
from toasty.collection import SimpleFitsCollection
import astropy.io.fits as afits

class _Crash(BaseException):
    pass

class FakeStore:
    def __init__(self, crash_at):
        self.items = []; self.crash_at = crash_at; self.n = 0
    def put_item(self, *path, source=None):
        if self.n == self.crash_at:
            raise _Crash()
        self.n += 1
        self.items.append(path)

def chk_publish(nfiles: int, idx: int, crash_at: int) -> bool:
    """
    pre: 1 <= nfiles <= 5
    pre: -1 <= idx < nfiles
    pre: 0 <= crash_at <= nfiles
    post: _
    """
    names = ['f%d.png' % i for i in range(nfiles)]
    if idx >= 0:
        names[idx] = 'index.wtml'
    mgr = PipelineManager.__new__(PipelineManager)
    mgr._workdir = '/w'
    store = FakeStore(crash_at)
    mgr._pipeio = store
    renames = []
    class FakeOS:
        path = os.path
        @staticmethod
        def listdir(p):
            if p == '/w/approved': return ['img1']
            return list(names)
        @staticmethod
        def rename(a, b): renames.append((a, b))
        @staticmethod
        def makedirs(p, exist_ok=False): pass
    saved_os, saved_open = tp.os, tp.__dict__.get('open')
    tp.os = FakeOS
    tp.open = lambda p, mode='r': io.BytesIO(b'x')
    tp.print = lambda *a, **k: None
    crashed = False
    try:
        try:
            mgr.publish()
        except _Crash:
            crashed = True
    finally:
        tp.os = saved_os
        del tp.open
    put = [p[-1] for p in store.items]
    ok = True
    if 'index.wtml' in put:
        ok = ok and sorted(put) == sorted(names)   # everything else already there
        ok = ok and put[-1] == 'index.wtml'
    if renames:
        ok = ok and (not crashed) and sorted(put) == sorted(names)
    if not crashed:
        ok = ok and len(renames) == 1
    return ok

class FakeHDU:
    def __init__(self, i): self.i = i; self.shape = (4, 4)
class FakeHDUL:
    def __init__(self, n): self.h = [FakeHDU(i) for i in range(n)]
    def __enter__(self): return self
    def __exit__(self, *a): return False
    def __getitem__(self, k):
        if not isinstance(k, int): raise TypeError('bad index %r' % (k,))
        return self.h[k]
    def __iter__(self): return iter(self.h)

def chk_scan(idxs: List[int], scalar: bool, s: int) -> bool:
    """
    pre: 1 <= len(idxs) <= 3
    pre: all(0 <= i < 3 for i in idxs)
    pre: 0 <= s < 3
    post: _
    """
    paths = ['p%d.fits' % i for i in range(len(idxs))]
    coll = SimpleFitsCollection(paths, hdu_index=(s if scalar else list(idxs)))
    saved = afits.open
    afits.open = lambda p: FakeHDUL(3)
    try:
        out = list(coll._scan_hdus())
    finally:
        afits.open = saved
    ok = len(out) == len(paths)
    for k, (p, hi, hdu, key) in enumerate(out):
        want = s if scalar else idxs[k]
        ok = ok and p == paths[k] and hi == want and hdu.i == want
    return ok
