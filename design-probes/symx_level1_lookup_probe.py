"""Probe: real toast_tile_for_point(1, lat, lon, coordsys) on a symbolic real longitude (symx proxies)."""
import z3, math, sys
import numpy as np
from symx_proto import explore, CUR, SB, SR, R
import toasty.toast as tt
from toasty.toast import ToastCoordinateSystem, toast_tile_for_point

# SymReal needs % for `lon % TWOPI`
def _mod(s, o):
    m = R(o); q = z3.ToInt(s.t / m)
    return SR(s.t - z3.ToReal(q) * m)
SR.__mod__ = _mod
def _eq(s, o): return SB(s.t == R(o))
SR.__eq__ = _eq; SR.__hash__ = None

TWOPI = R(2 * math.pi)
def harness(ctx):
    lon = SR(z3.Real('lon')); lat = SR(z3.Real('lat'))
    ctx.assume(z3.And(lon.t >= -40, lon.t <= 40, lat.t >= R(-math.pi / 2), lat.t <= R(math.pi / 2)))
    tile = toast_tile_for_point(1, lat, lon, coordsys=CS)
    # spec: the point's longitude (mod 2pi) lies in the tile's corner-longitude span.
    # level-1 spans are quarter turns: take equator corners (lat == 0) of the returned tile.
    c = np.asarray(tile.corners)
    eq = sorted(float(l) for l, b in c if abs(b) < 1e-12)
    lo, hi = eq[0], eq[-1]
    if hi - lo > math.pi: lo, hi = hi, lo + 2 * math.pi      # span crossing 0
    k = z3.Int('k')
    s = ctx.solver
    s.push()
    l0 = lon.t + TWOPI * z3.ToReal(k)
    eps = z3.Q(1, 10**9)
    # negation of: exists k with lo-eps <= lon+2pi k <= hi+eps  -> forall k not in; restrict k to the only candidates
    s.add(z3.And(*[z3.Not(z3.And(lon.t + TWOPI * kk >= R(lo) - eps, lon.t + TWOPI * kk <= R(hi) + eps)) for kk in range(-8, 9)]))
    r = s.check()
    m = s.model() if r == z3.sat else None
    s.pop()
    return (tile.pos, (lo, hi), str(r), None if m is None else float(m.eval(lon.t, model_completion=True).as_fraction()))
for CS in (ToastCoordinateSystem.ASTRONOMICAL, ToastCoordinateSystem.PLANETARY):
    n, nq, dt, res = explore(harness)
    print(CS.name, 'paths', n, 'time %.2f' % dt)
    for r in res: print('   ', r)
