import os, tempfile, shutil, glob, warnings
import numpy as np
from astropy.io import fits
from astropy.wcs import WCS
from toasty import collection, multi_tan, builder, pyramid
from toasty.pyramid import PyramidIO, Pos
warnings.simplefilter('ignore')
rng = np.random.default_rng(5)
H, W = 500, 700
mos = rng.normal(size=(H, W)).astype(np.float32)
mos[rng.random((H, W)) < 0.1] = np.nan
def hdr(crpix1, crpix2, parity):
    h = fits.Header()
    h['CTYPE1'] = 'RA---TAN'; h['CTYPE2'] = 'DEC--TAN'; h['CRVAL1'] = 30.0; h['CRVAL2'] = 40.0
    h['CDELT1'] = -0.001; h['CDELT2'] = 0.001 * parity
    h['CRPIX1'] = crpix1; h['CRPIX2'] = crpix2
    return h
def write(path, arr_bottom_up, x0, y0, parity=1):
    # arr given in FITS (bottom-up) row order covering mosaic columns x0.., rows y0.. (bottom-up index)
    h = hdr(350.0 - x0, 250.0 - y0, parity)
    fits.writeto(path, arr_bottom_up, h, overwrite=True)
def run(paths, outdir, parallel=1):
    coll = collection.load(paths)
    pio = PyramidIO(outdir, default_format='fits')
    b = builder.Builder(pio)
    p = multi_tan.MultiTanProcessor(coll); p.compute_global_pixelization(b); p.tile(pio, parallel=parallel)
    return b, p
def tiles(outdir):
    out = {}
    for f in glob.glob(outdir + '/*/*/*.fits'):
        rel = os.path.relpath(f, outdir); out[rel] = fits.getdata(f)
    return out
d = tempfile.mkdtemp()
bu = mos[::-1]   # bottom-up version of the mosaic (FITS row 0 = bottom)
write(d + '/full.fits', bu, 0, 0)
# two overlapping pieces: columns 0..400 and 300..700, rows (bottom-up) 0..500 / 100..450
write(d + '/a.fits', bu[:, :400], 0, 0)
write(d + '/b.fits', bu[100:450, 300:], 300, 100)
# piece c: NaN border
c = bu[50:300, 200:500].copy(); c[:20] = np.nan; c[:, -30:] = np.nan
write(d + '/c.fits', c, 200, 50)
b0, p0 = run([d + '/full.fits'], d + '/t_full')
ref = tiles(d + '/t_full')
for name, paths, par in (('a+b', ['a.fits', 'b.fits'], 1), ('b+a', ['b.fits', 'a.fits'], 1), ('a+b+c', ['a.fits', 'b.fits', 'c.fits'], 1), ('a+b par2', ['a.fits', 'b.fits'], 2)):
    out = d + '/t_' + name.replace('+', '_').replace(' ', '_')
    bb, pp = run([d + '/' + p for p in paths], out, parallel=par)
    got = tiles(out)
    # the union of a and b does not cover all of the mosaic: compare on the covered region only
    cover = np.zeros((H, W), bool); cover_bu = cover[::-1]
    cover_bu[:, :400] = True; cover_bu[100:450, 300:] = True
    exp_mos = np.where(cover, mos, np.nan)
    locks = glob.glob(out + '/**/*.lock', recursive=True)
    same_meta = (bb.imgset.tile_levels, round(bb.imgset.center_x, 9), round(bb.imgset.center_y, 9), round(bb.imgset.offset_x, 6), round(bb.imgset.offset_y, 6), bb.imgset.base_degrees_per_tile) == \
                (b0.imgset.tile_levels, round(b0.imgset.center_x, 9), round(b0.imgset.center_y, 9), round(b0.imgset.offset_x, 6), round(b0.imgset.offset_y, 6), b0.imgset.base_degrees_per_tile)
    # compare tiles with reference tiling of the masked mosaic
    write(d + '/exp.fits', exp_mos[::-1], 0, 0)
    be, pe = run([d + '/exp.fits'], d + '/t_exp'); exp = tiles(d + '/t_exp'); shutil.rmtree(d + '/t_exp')
    bad = [k for k in set(exp) | set(got) if k not in exp or k not in got or not np.array_equal(exp[k], got[k], equal_nan=True)]
    print(name, 'tiles', len(got), 'mismatch', len(bad), 'locks left', len(locks), 'meta equal', same_meta)
shutil.rmtree(d)
