"""Probe: the REAL closures returned by toasty.samplers.plate_carree_* on symbolic lon/lat and a
data array with SYMBOLIC shape (ny, nx); numpy replaced by a tiny shim inside toasty.samplers."""
import z3, math, types, time, sys
from symx_proto import explore, CUR, SB, SR, R
from symint_proto import SI, I
import toasty.samplers as ts

def _mod(s, o):
    m = R(o); q = z3.ToInt(s.t / m); return SR(s.t - z3.ToReal(q) * m)
SR.__mod__ = _mod
SR.__truediv__ = lambda s, o: SR(s.t / R(o))
SR.__rtruediv__ = lambda s, o: SR(R(o) / s.t)
SI.__truediv__ = lambda s, o: SR(z3.ToReal(s.t) / R(o))
def _round(x):
    f = z3.ToInt(x.t); d = x.t - z3.ToReal(f)
    return SRint(z3.If(d < z3.Q(1, 2), f, z3.If(d > z3.Q(1, 2), f + 1, z3.If(f % 2 == 0, f, f + 1))))
class SRint(SR):   # a float holding an integral value (result of np.round)
    def __init__(self, it): self.it = it; self.t = z3.ToReal(it)
    def astype(self, ty): assert ty is int; return SI(self.it)
def _clip(v, lo, hi):
    lo, hi = I(lo), I(hi); return SI(z3.If(v.t < lo, lo, z3.If(v.t > hi, hi, v.t)))
class Data:
    def __init__(self, ny, nx):
        self.shape = (ny, nx); self.f = z3.Function('data', z3.IntSort(), z3.IntSort(), z3.IntSort()); self.reads = []
    def __getitem__(self, key):
        iy, ix = key; self.reads.append((iy.t, ix.t)); return SI(self.f(iy.t, ix.t))
shim = types.SimpleNamespace(pi=math.pi, asarray=lambda a: a, round=_round, clip=_clip)
ts.np = shim

PI = R(math.pi); TWOPI = R(2 * math.pi)
SPECS = {
 # name: (factory, lon of left edge of column 0 as offset in turns, direction) -> cell k covers lon in ...
 'plate_carree_sampler': dict(left=PI, sign=-1),             # col k: lon in (pi - (k+1)w, pi - k w)
 'plate_carree_planet_sampler': dict(left=-PI, sign=+1),     # col k: lon in (-pi + k w, -pi + (k+1) w)
 'plate_carree_planet_zeroleft_sampler': dict(left=R(0), sign=+1),
 'plate_carree_zeroright_sampler': dict(left=TWOPI, sign=-1),
}
def harness(ctx):
    nx, ny = SI(z3.Int('nx')), SI(z3.Int('ny'))
    ctx.assume(z3.And(nx.t >= 1, nx.t <= 10**6, ny.t >= 1, ny.t <= 10**6))
    data = Data(ny, nx)
    sampler = getattr(ts, NAME)(data)
    lon, lat = SR(z3.Real('lon')), SR(z3.Real('lat'))
    base = {'plate_carree_sampler': -PI, 'plate_carree_planet_sampler': -PI, 'plate_carree_planet_zeroleft_sampler': R(0), 'plate_carree_zeroright_sampler': R(0)}[NAME]
    ctx.assume(z3.And(lon.t >= base, lon.t < base + TWOPI, lat.t >= -PI / 2, lat.t <= PI / 2))
    out = sampler(lon, lat)
    (iy, ix), = data.reads
    s = ctx.solver; s.set('timeout', 60000)
    import time as _t
    k, j, q = z3.Ints('k j q')
    w = TWOPI / z3.ToReal(nx.t); h = PI / z3.ToReal(ny.t); eps = z3.Q(1, 10**9)
    sp = SPECS[NAME]
    l = lon.t + TWOPI * z3.ToReal(q)
    if sp['sign'] < 0:
        incell = z3.And(l > sp['left'] - z3.ToReal(k + 1) * w + eps * w, l < sp['left'] - z3.ToReal(k) * w - eps * w)
    else:
        incell = z3.And(l > sp['left'] + z3.ToReal(k) * w + eps * w, l < sp['left'] + z3.ToReal(k + 1) * w - eps * w)
    inrow = z3.And(lat.t < PI / 2 - z3.ToReal(j) * h - eps * h, lat.t > PI / 2 - z3.ToReal(j + 1) * h + eps * h)
    out = []
    def ask(name, *cs):
        s.push(); s.add(*cs); t0 = _t.time(); r = s.check(); out.append((name, str(r), round(_t.time() - t0, 2))); s.pop(); return r
    ask('col in range', z3.Not(z3.And(ix >= 0, ix < nx.t)))
    ask('row in range', z3.Not(z3.And(iy >= 0, iy < ny.t)))
    ask('col = containing cell', k >= 0, k < nx.t, q == 0, incell, ix != k)
    ask('row = containing cell', j >= 0, j < ny.t, inrow, iy != j)
    ask('twin col', k >= 0, k < nx.t, q == 0, incell, ix == k)
    ask('twin row', j >= 0, j < ny.t, inrow, iy == j)
    m_ = z3.Int('m'); lon2 = SR(lon.t + TWOPI * z3.ToReal(m_))
    data.reads.clear(); sampler(lon2, lat); (iy2, ix2), = data.reads
    ask('periodic', m_ >= -30, m_ <= 30, ix2 != ix)
    return out
for NAME in SPECS:
    t0 = time.time(); n, nq, dt, res = explore(harness)
    print(NAME, 'paths', n, 'time %.2f' % (time.time() - t0), res)
