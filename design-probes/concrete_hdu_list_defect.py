import numpy as np, warnings
from astropy.io import fits
from astropy.wcs import WCS
from toasty import collection
def mk(path):
    h0 = fits.PrimaryHDU()
    hs = [h0]
    for k in range(2):
        hdu = fits.ImageHDU(np.full((3+k, 4+k), k, dtype=np.float32))
        hdu.header['CTYPE1']='RA---TAN'; hdu.header['CTYPE2']='DEC--TAN'
        hdu.header['CRVAL1']=10; hdu.header['CRVAL2']=20; hdu.header['CRPIX1']=1; hdu.header['CRPIX2']=1
        hdu.header['CDELT1']=-0.01; hdu.header['CDELT2']=0.01
        hs.append(hdu)
    fits.HDUList(hs).writeto(path, overwrite=True)
mk('a.fits'); mk('b.fits')
for hi in (1, [1,2], None):
    try:
        c = collection.load(['a.fits','b.fits'], hdu_index=hi)
        print(hi, [d.shape for d in c.descriptions()], c.export_simple())
    except Exception as e:
        print(hi, 'FAIL', type(e).__name__, e)
