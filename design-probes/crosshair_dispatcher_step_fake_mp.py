import multiprocessing as mp
from queue import Empty
from contextlib import contextmanager
from toasty.pyramid import Pyramid, Pos, pos_children, pos_parent
import toasty.pyramid as _tp

class _NoProgress:
    def update(self, n): pass
@contextmanager
def _pb(total=None, show=None):
    yield _NoProgress()
_tp.progress_bar = _pb
_tp.print = lambda *a, **k: None

class _Stop(BaseException):
    pass

class FakeQueue:
    def __init__(self, maxsize=0):
        self.maxsize = maxsize
        self.puts = []
        self.script = []   # responses for get
        self.events = []
    def put(self, item):
        self.puts.append(item)
    def get(self, block=True, timeout=None):
        if not self.script:
            raise _Stop()
        r = self.script.pop(0)
        if r is None:
            raise Empty()
        return r
    def close(self): self.events.append('close')
    def join_thread(self): self.events.append('join_thread')
    def qsize(self): return len(self.puts)

class FakeEvent:
    def __init__(self): self.flag = False
    def set(self): self.flag = True
    def is_set(self): return self.flag

class FakeProcess:
    started = []
    def __init__(self, target=None, args=()):
        self.target = target; self.args = args; self.daemon = False
    def start(self): FakeProcess.started.append(self)
    def join(self): pass

class FakeRiter:
    """yields exactly the crafted items, records set_data"""
    def __init__(self, items):
        self.items = list(items); self.data = []
    def __iter__(self): return self
    def __next__(self):
        if not self.items: raise StopIteration
        return self.items.pop(0)
    def set_data(self, v): self.data.append(v)
    def result(self): return self.data[-1]

def chk_dispatch_step(n: int, x: int, y: int, l0: bool, l1: bool, l2: bool, l3: bool, b: int, nd: int) -> bool:
    """
    pre: 0 <= n <= 3 and 0 <= x < 2**n and 0 <= y < 2**n
    pre: 0 <= b < 4
    pre: l0 or l1 or l2 or l3
    pre: [l0,l1,l2,l3][b]
    post: _
    """
    # state: one parent P=(n,x,y) whose children liveness is (l0..l3); P is at depth n, pyramid depth n+2 (so P not seeded)
    P = Pos(n, x, y)
    depth = n + 2
    pyr = Pyramid.new_generic(depth)
    live = [l0, l1, l2, l3]
    data = [(live[i], 1 if live[i] else 0) for i in range(4)]
    qs = []
    def mkq(maxsize=0):
        q = FakeQueue(maxsize); qs.append(q); return q
    saved = (mp.Queue, mp.Event, mp.Process)
    mp.Queue, mp.Event, mp.Process = mkq, FakeEvent, FakeProcess
    # apex: use a different tile so no early break -- apex (0,0,0) != child unless n+1==0
    pyr._make_iter_reducer = lambda default_value=None: FakeRiter([(P, None, False, data)])
    C = pos_children(P)[b]
    try:
        # monkeypatch queue scripts after creation: done_queue is 2nd queue created
        orig_mkq = mkq
        def mkq2(maxsize=0):
            q = orig_mkq(maxsize)
            if len(qs) == 2:
                q.script = [None, C]   # one timeout, then child C reported
            return q
        mp.Queue = mkq2
        try:
            pyr._walk_parallel(lambda pos: None, False, 2)
        except _Stop:
            pass
    finally:
        mp.Queue, mp.Event, mp.Process = saved
    ready = qs[0]
    others_dead = all((not live[i]) or i == b for i in range(4))
    if others_dead:
        return ready.puts == [P]
    return ready.puts == []
