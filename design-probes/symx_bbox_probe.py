import z3, math, time, sys
from symx_proto import *
TWOPI = 6.28318530717958623200
PI = math.pi
def order_pair(arr, i, j):
    if arr[i] > arr[j]:
        z = arr[j]; arr[j] = arr[i]; arr[i] = z

class Unwind(Exception): pass

def bbox(corner, lon_min, lon_max, lat_min, lat_max, K=4):
    tmin = corner[0][1]; tmax = tmin
    for i in range(1, 4):
        x = corner[i][1]
        if x < tmin: tmin = x
        if x > tmax: tmax = x
    if lat_min > tmax: return False
    if lat_max < tmin: return False
    if tmax > 1.5707963 or tmin < -1.5707963: return True
    lons = [corner[i][0] for i in range(4)]
    order_pair(lons, 0, 2); order_pair(lons, 1, 3); order_pair(lons, 0, 1); order_pair(lons, 2, 3); order_pair(lons, 1, 2)
    it = 0
    while lons[3] - lons[0] > PI:
        it += 1
        if it > K: raise Unwind()
        upd = lons[0] + TWOPI
        for i in range(3):
            if lons[i + 1] > upd:
                lons[i] = upd
                break
            lons[i] = lons[i + 1]
        else:
            lons[3] = upd
    tlmin = lons[0]; tlmax = lons[3]
    it = 0
    while tlmin < lon_min:
        it += 1
        if it > K: raise Unwind()
        tlmin += TWOPI; tlmax += TWOPI
    it = 0
    while tlmin - lon_min > TWOPI:
        it += 1
        if it > K: raise Unwind()
        tlmin -= TWOPI; tlmax -= TWOPI
    if tlmin < lon_max: return True
    if tlmax > lon_min + TWOPI: return True
    return False

stats = dict(unwind=0, viol=0, proved=0)
def harness(ctx):
    c = [[SR(z3.Real(f'lon{i}')), SR(z3.Real(f'lat{i}'))] for i in range(4)]
    lon_min, lon_max, lat_min, lat_max = [SR(z3.Real(n)) for n in ('bl0', 'bl1', 'bb0', 'bb1')]
    pi = R(PI); tp = R(TWOPI)
    for i in range(4):
        ctx.assume(z3.And(c[i][0].t >= -tp, c[i][0].t <= 2 * tp, c[i][1].t >= -pi / 2, c[i][1].t <= pi / 2))
    ctx.assume(z3.And(lon_min.t < lon_max.t, lat_min.t < lat_max.t, lon_min.t >= -tp, lon_min.t <= tp, lon_max.t - lon_min.t <= 2 * tp))
    # hypothesis H: unwrapped corner lons u_i = lon_i + 2pi k_i within an arc [m, M], M - m <= pi; pixel centre (pl, pb)
    ks = [z3.Int(f'k{i}') for i in range(4)]; m, M = z3.Reals('m M'); pl, pb = z3.Reals('pl pb'); kp, kb = z3.Ints('kp kb')
    u = [c[i][0].t + tp * z3.ToReal(ks[i]) for i in range(4)]
    ctx.assume(z3.And(M - m < pi, *[z3.And(x >= m, x <= M) for x in u]))
    ctx.assume(z3.And(*[z3.And(k >= -3, k <= 3) for k in ks + [kp, kb]]))
    # hull tight: m and M attained
    ctx.assume(z3.Or(*[x == m for x in u])); ctx.assume(z3.Or(*[x == M for x in u]))
    latlo = z3.Real('latlo'); lathi = z3.Real('lathi')
    ctx.assume(z3.And(*[latlo <= c[i][1].t for i in range(4)], z3.Or(*[latlo == c[i][1].t for i in range(4)])))
    ctx.assume(z3.And(*[lathi >= c[i][1].t for i in range(4)], z3.Or(*[lathi == c[i][1].t for i in range(4)])))
    ctx.assume(z3.And(pb >= latlo, pb <= lathi, pl > m, pl < M))
    # centre in box (mod 2pi)
    pl2 = pl + tp * z3.ToReal(kp)
    ctx.assume(z3.And(pb >= lat_min.t, pb <= lat_max.t, pl2 >= lon_min.t, pl2 <= lon_max.t))
    try:
        r = bbox(c, lon_min, lon_max, lat_min, lat_max)
    except Unwind:
        stats['unwind'] += 1; return 'unwind'
    if r is False:
        stats['viol'] += 1
        m_ = ctx.solver.model() if ctx.solver.check() == z3.sat else None
        return ('VIOL', m_)
    stats['proved'] += 1
    return 'ok'
n, nq, dt, res = explore(harness, max_paths=int(sys.argv[1]) if len(sys.argv) > 1 else 100000)
print('paths', n, 'queries', nq, 'time %.1f' % dt, stats)
for r in res:
    if isinstance(r, tuple): print(r[1]); break
