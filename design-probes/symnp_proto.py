"""Prototype: lazy symbolic numpy shim (feasibility probe only)."""
import z3
import numpy as _np
import types

class FElem:
    __slots__ = ("nan", "val")
    def __init__(self, nan, val):
        self.nan = nan; self.val = val

def ite(c, a, b):
    if isinstance(a, FElem) or isinstance(b, FElem):
        a = lift(a, True); b = lift(b, True)
        return FElem(z3.If(c, a.nan, b.nan), z3.If(c, a.val, b.val))
    return z3.If(c, a, b)

def lift(v, isfloat):
    if isinstance(v, FElem):
        return v
    if isfloat:
        if isinstance(v, float) and v != v:
            return FElem(z3.BoolVal(True), z3.RealVal(0))
        if isinstance(v, (int, float)):
            return FElem(z3.BoolVal(False), z3.RealVal(v))
        if z3.is_int(v):
            return FElem(z3.BoolVal(False), z3.ToReal(v))
        return FElem(z3.BoolVal(False), v)
    if isinstance(v, (int, _np.integer)):
        return z3.IntVal(int(v))
    return v

def _len(sl, dim):
    return len(range(*sl.indices(dim)))

class SArr:
    """shape: tuple of python ints; get(idx)->elem; optional setter for writes"""
    def __init__(self, shape, dtype, get, setreg=None, frz=None):
        self.shape = tuple(shape); self.dtype = _np.dtype(dtype)
        self._get = get; self._setreg = setreg
        self._frz = frz or (lambda: get)
        self.flags = types.SimpleNamespace(writeable=True)
    @property
    def ndim(self): return len(self.shape)
    @property
    def itemsize(self): return self.dtype.itemsize
    @property
    def isfloat(self): return self.dtype.kind == 'f'
    def get(self, idx): return self._get(tuple(idx))
    def frozen(self):
        return SArr(self.shape, self.dtype, self._frz())

    @classmethod
    def fresh(cls, name, shape, dtype):
        dtype = _np.dtype(dtype)
        n = len(shape)
        if dtype.kind == 'f':
            fn = z3.Function(name + "_nan", *([z3.IntSort()] * n), z3.BoolSort())
            fv = z3.Function(name + "_val", *([z3.IntSort()] * n), z3.RealSort())
            g0 = lambda idx: FElem(fn(*idx), fv(*idx))
        elif dtype.kind == 'b':
            fb = z3.Function(name, *([z3.IntSort()] * n), z3.BoolSort())
            g0 = lambda idx: fb(*idx)
        else:
            fi = z3.Function(name, *([z3.IntSort()] * n), z3.IntSort())
            g0 = lambda idx: fi(*idx)
        return cls.base(shape, dtype, g0)

    @classmethod
    def base(cls, shape, dtype, g0):
        cell = [g0]
        def get(idx): return cell[0](idx)
        def setreg(cond, val):
            old = cell[0]
            cell[0] = lambda idx: ite(cond(idx), val(idx), old(idx))
        return cls(shape, dtype, get, setreg, frz=lambda: cell[0])

    # ---- indexing
    def _norm_key(self, key):
        if not isinstance(key, tuple): key = (key,)
        # expand Ellipsis
        n_real = sum(1 for k in key if k is not None and k is not Ellipsis)
        out = []
        for k in key:
            if k is Ellipsis:
                out += [slice(None)] * (self.ndim - n_real)
            else:
                out.append(k)
        n_real2 = sum(1 for k in out if k is not None)
        out += [slice(None)] * (self.ndim - n_real2)
        return out

    def __getitem__(self, key):
        key = self._norm_key(key)
        # descriptors per base dim and view dims
        vshape = []; plan = []   # plan entries: ('s', bdim, start, step, vdim) | ('i', bdim, k) | ('n', vdim)
        bdim = 0
        for k in key:
            if k is None:
                plan.append(('n', len(vshape))); vshape.append(1)
            elif isinstance(k, slice):
                start, stop, step = k.indices(self.shape[bdim])
                ln = len(range(start, stop, step))
                plan.append(('s', bdim, start, step, len(vshape))); vshape.append(ln); bdim += 1
            else:
                kk = int(k)
                if kk < 0: kk += self.shape[bdim]
                plan.append(('i', bdim, kk)); bdim += 1
        nb = self.ndim
        def fwd(vidx):
            b = [None] * nb
            for p in plan:
                if p[0] == 's': b[p[1]] = p[2] + p[3] * vidx[p[4]]
                elif p[0] == 'i': b[p[1]] = p[2]
            return tuple(b)
        def inv(bidx):
            conds = []; v = [0] * len(vshape)
            for p in plan:
                if p[0] == 's':
                    _, bd, start, step, vd = p
                    d = bidx[bd] - start
                    if step == 1:
                        vi = d
                    elif step == -1:
                        vi = -d
                    else:
                        vi = d / step; conds.append(d % step == 0)
                    conds.append(z3.And(vi >= 0, vi < vshape[vd])); v[vd] = vi
                elif p[0] == 'i':
                    conds.append(bidx[p[1]] == p[2])
            return z3.And(*conds) if conds else z3.BoolVal(True), tuple(v)
        parent = self
        def get(vidx): return parent.get(fwd(vidx))
        def setreg(cond, val):
            def bcond(bidx):
                c, v = inv(bidx); return z3.And(c, cond(v))
            def bval(bidx):
                c, v = inv(bidx); return val(v)
            parent._setreg(bcond, bval)
        def frz():
            pg = parent._frz()
            return lambda vidx: pg(fwd(vidx))
        return SArr(vshape, self.dtype, get, setreg, frz=frz)

    def __setitem__(self, key, value):
        view = self[key]
        view._assign(value)

    def _bc(self, value):
        """return function vidx -> elem broadcasting value to self.shape"""
        isf = self.isfloat
        if isinstance(value, SArr):
            value = value.frozen()
            vs = value.shape; off = self.ndim - len(vs)
            def f(idx):
                sub = tuple((0 if vs[i] == 1 and self.shape[i + off] != 1 else idx[i + off]) for i in range(len(vs)))
                return lift(value.get(sub), isf)
            return f
        return lambda idx: lift(value, isf)

    def _assign(self, value):
        f = self._bc(value)
        self._setreg(lambda idx: z3.BoolVal(True), f)

    def fill(self, v):
        self._assign(v)

    def reshape(self, *s):
        if len(s) == 1 and isinstance(s[0], tuple): s = s[0]
        s = tuple(int(x) for x in s)
        old = self.shape
        self = self.frozen()
        def get(idx):
            flat = 0
            for d, i in zip(s, idx): flat = flat * d + i
            out = []
            for d in reversed(old):
                out.append(flat % d); flat = flat / d
            return self.get(tuple(reversed(out)))
        return SArr(s, self.dtype, get)

    def astype(self, dt):
        dt = _np.dtype(dt)
        src = self.frozen()
        def get(idx):
            e = src.get(idx)
            if dt.kind == 'f': return lift(e, True)
            if isinstance(e, FElem):
                # trunc toward zero
                fl = z3.ToInt(e.val)
                return z3.If(e.val >= 0, fl, -z3.ToInt(-e.val))
            return e
        return SArr(self.shape, dt, get)

    def _elementwise(self, other, op, dtype):
        a = self.frozen()
        if isinstance(other, SArr): other = other.frozen()
        if isinstance(other, SArr):
            shape = _np.broadcast_shapes(self.shape, other.shape)
        else:
            shape = self.shape
        def pick(arr, idx):
            if not isinstance(arr, SArr): return arr
            off = len(shape) - arr.ndim
            return arr.get(tuple(0 if arr.shape[i] == 1 and shape[i+off] != 1 else idx[i+off] for i in range(arr.ndim)))
        return SArr(shape, dtype, lambda idx: op(pick(a, idx), pick(other, idx)))

    def __ne__(self, other):
        return self._elementwise(other, lambda x, y: lift(x, False) != lift(y, False), bool)
    def __invert__(self):
        me = self.frozen()
        return SArr(self.shape, bool, lambda idx: z3.Not(me.get(idx)))

# ---- module-level functions
def isnan(a):
    a = a.frozen()
    return SArr(a.shape, bool, lambda idx: a.get(idx).nan)

def broadcast_to(a, shape):
    a = a.frozen()
    off = len(shape) - a.ndim
    return SArr(shape, a.dtype, lambda idx: a.get(tuple(0 if a.shape[i] == 1 and shape[i+off] != 1 else idx[i+off] for i in range(a.ndim))))

def putmask(dst, mask, src):
    mask = mask.frozen()
    f = dst._bc(src)
    dst._setreg(lambda idx: mask.get(idx), f)

def nanmean(a, axis):
    if isinstance(axis, int): axis = (axis,)
    a = a.frozen()
    keep = [i for i in range(a.ndim) if i not in axis]
    shape = tuple(a.shape[i] for i in keep)
    import itertools
    red = list(itertools.product(*[range(a.shape[i]) for i in axis]))
    def get(idx):
        tot = z3.RealVal(0); cnt = z3.IntVal(0)
        for r in red:
            full = [None] * a.ndim
            for k, i in zip(keep, idx): full[k] = i
            for k, i in zip(axis, r): full[k] = i
            e = lift(a.get(tuple(full)), True)
            tot = tot + z3.If(e.nan, 0, e.val); cnt = cnt + z3.If(e.nan, 0, 1)
        return FElem(cnt == 0, z3.If(cnt == 0, 0, tot / z3.ToReal(cnt)))
    return SArr(shape, _np.float64 if a.dtype.kind != 'f' else a.dtype, get)

def empty(shape, dtype=float):
    return SArr.fresh("empty%d" % id(shape), shape, dtype)

def atleast_2d(a):
    return a

def maximum(a, b, out=None):
    r = a._elementwise(b, lambda x, y: z3.If(x >= y, x, y), a.dtype)
    if out is not None:
        # must snapshot before writing
        g = r._get
        out._setreg(lambda idx: z3.BoolVal(True), lambda idx: g(idx))
        return out
    return r

shim = types.SimpleNamespace(
    isnan=isnan, broadcast_to=broadcast_to, putmask=putmask, nanmean=nanmean, empty=empty,
    atleast_2d=atleast_2d, maximum=maximum, nan=float('nan'), uint8=_np.uint8, float32=_np.float32,
    float64=_np.float64, float16=_np.float16, int16=_np.int16, int32=_np.int32, dtype=_np.dtype,
    asarray=lambda a: a, copy=lambda a: a,
)
