import z3, time, math
PI = z3.RealVal(repr(math.pi)) if False else z3.Q(*math.pi.as_integer_ratio())
TWOPI = 2*PI
def rnd_half_even(x):
    f = z3.ToInt(x); fr = z3.ToReal(f); d = x - fr
    return z3.If(d < z3.Q(1,2), f, z3.If(d > z3.Q(1,2), f+1, z3.If(f % 2 == 0, f, f+1)))
def clip(v, lo, hi): return z3.If(v < lo, lo, z3.If(v > hi, hi, v))
def fmod(x, m):  # python float % positive m
    q = z3.ToInt(x / m); return x - z3.ToReal(q) * m
def run(nx_concrete=None):
    lon = z3.Real('lon'); nx = z3.Int('nx')
    s = z3.Solver(); s.set('timeout', 60000)
    if nx_concrete: s.add(nx == nx_concrete)
    else: s.add(nx >= 1, nx <= 100000)
    s.add(lon >= -20, lon <= 20)
    nxr = z3.ToReal(nx)
    dx = nxr / TWOPI
    lon0 = PI - z3.Q(1,2)/dx
    l = fmod(lon + PI, TWOPI) - PI
    ix = clip(rnd_half_even((lon0 - l)*dx), 0, nx-1)
    # spec: cell k covers lon in [PI - (k+1)*2PI/nx, PI - k*2PI/nx]  (mod 2pi); eps-exclusion of boundaries
    k = z3.Int('k'); s.add(k >= 0, k < nx)
    eps = z3.Q(1, 10**9)
    w = TWOPI / nxr
    s.add(l > PI - z3.ToReal(k+1)*w + eps*w, l < PI - z3.ToReal(k)*w - eps*w)
    s.add(ix != k)
    t0 = time.time(); r = s.check(); return r, time.time()-t0
print('symbolic nx', run())
for n in (1, 2, 3, 7, 360, 4096): print(n, run(n))
