"""Probe: decythonise toasty/_libtoasty.pyx (regex pass over the constructs the file uses),
validate against the compiled .so, then run _subsample and toast._div4 on opaque points with
mid as an uninterpreted commutative function and let z3 decide equality of centre terms."""
import re, sys, types, math, time
import numpy as np
import z3

PYX = '/repo/toasty/_libtoasty.pyx'

def decythonise(src):
    out = []
    lines = src.split('\n')
    i = 0
    struct_fields = {}
    while i < len(lines):
        ln = lines[i]
        s = ln.strip()
        ind = ln[:len(ln) - len(ln.lstrip())]
        if s.startswith(('cimport ', 'from libc', 'np.import_array', 'ctypedef ')) or s.startswith('@cython.'):
            i += 1; continue
        if s.startswith('from ') and ' cimport ' in s:
            i += 1; continue
        m = re.match(r'cdef struct (\w+):', s)
        if m:
            name = m.group(1); fields = []
            i += 1
            while i < len(lines) and lines[i].strip():
                fields.append(lines[i].split()[-1]); i += 1
            struct_fields[name] = fields
            out.append(f'class {name}:')
            out.append(f'    __slots__ = {tuple(fields)!r}')
            args = ', '.join(f'{f}=None' for f in fields)
            out.append(f'    def __init__(self, {args}):')
            for f in fields: out.append(f'        self.{f} = {f}')
            continue
        m = re.match(r'DEF (\w+) = (.*)', s)
        if m:
            out.append(f'{ind}{m.group(1)} = {m.group(2)}'); i += 1; continue
        m = re.match(r'(cdef|cpdef) [\w\.\[\], =]*?(\w+)\((.*)', s)
        if m and '=' not in s[:s.index('(')] and (s.endswith(':') or not s.endswith(')')):
            # function header, maybe multi-line
            hdr = s
            while not hdr.rstrip().endswith(':'):
                i += 1; hdr += ' ' + lines[i].strip()
            name = re.match(r'(?:cdef|cpdef) .*?(\w+)\(', hdr).group(1)
            params = hdr[hdr.index('(') + 1: hdr.rindex(')')]
            # split on commas outside brackets
            ps, depth, cur = [], 0, ''
            for ch in params:
                if ch in '[(': depth += 1
                if ch in '])': depth -= 1
                if ch == ',' and depth == 0: ps.append(cur); cur = ''
                else: cur += ch
            if cur.strip(): ps.append(cur)
            names = [p.strip().split()[-1].lstrip('*') for p in ps]
            out.append(f'{ind}def {name}({", ".join(names)}):'); i += 1; continue
        m = re.match(r'cdef ([\w\.]+(?:\[[^\]]*\])?) (.*)', s)
        if m:
            typ, rest = m.group(1), m.group(2)
            if True:
                # declarations split on top-level commas; structs get instantiated, scalars dropped
                parts, depth, cur = [], 0, ''
                for ch in rest:
                    if ch in '[(': depth += 1
                    if ch in '])': depth -= 1
                    if ch == ',' and depth == 0: parts.append(cur.strip()); cur = ''
                    else: cur += ch
                if cur.strip(): parts.append(cur.strip())
                for p in parts:
                    if '=' in p:
                        out.append(f'{ind}{p}')
                    elif typ in struct_fields:
                        out.append(f'{ind}{p} = {typ}()')
            i += 1; continue
        ln2 = re.sub(r'&(\w+)', r'\1', ln)
        out.append(ln2); i += 1
    return '\n'.join(out)

src = open(PYX).read()
py = decythonise(src)
py = 'from math import sin, cos, atan2, hypot\nimport numpy as np\nDTYPE = np.float64\n' + py
if '--show' in sys.argv:
    print(py); sys.exit()
mod = types.ModuleType('decy_libtoasty')
exec(compile(py, 'decy_libtoasty', 'exec'), mod.__dict__)

# ---- differential validation against the compiled extension
from toasty._libtoasty import mid as cmid, subsample as csub, tile_intersects_latlon_bbox as cbbox
rng = np.random.default_rng(0)
worst = 0.0
for _ in range(2000):
    a = (rng.uniform(-6, 6), rng.uniform(-1.5, 1.5)); b = (rng.uniform(-6, 6), rng.uniform(-1.5, 1.5))
    x, y = mod.mid(a, b); cx, cy = cmid(a, b)
    worst = max(worst, abs(x - cx), abs(y - cy))
print('mid max abs diff vs .so:', worst)
from toasty.toast import _create_level1_tiles, ToastCoordinateSystem, _div4, Tile
t = _div4(_create_level1_tiles(ToastCoordinateSystem.ASTRONOMICAL)[1])[2]
xs, ys = mod.subsample(*t.corners, 16, t.increasing); cxs, cys = csub(*t.corners, 16, t.increasing)
print('subsample(16) max abs diff vs .so:', float(np.abs(xs - cxs).max()), float(np.abs(ys - cys).max()))
nb = 0
for _ in range(3000):
    c = np.column_stack([rng.uniform(-6, 6) + rng.uniform(0, 3.0, 4) + 2 * np.pi * rng.integers(-1, 2, 4), rng.uniform(-1.5, 1.5, 4)])
    bb = sorted(rng.uniform(-6, 6, 2)); lb = sorted(rng.uniform(-1.5, 1.5, 2))
    if bool(mod.tile_intersects_latlon_bbox(c.copy(), bb[0], bb[1], lb[0], lb[1])) != bool(cbbox(c.copy(), bb[0], bb[1], lb[0], lb[1])): nb += 1
print('bbox disagreements vs .so:', nb, '/ 3000')

# ---- EUF: opaque points, mid uninterpreted
Pt = z3.DeclareSort('Pt')
MID = z3.Function('mid', Pt, Pt, Pt)
pairs = set()
class OP:  # opaque point supporting .x/.y (struct) and [0]/[1] (tuple) access as tagged projections
    def __init__(self, t): self.t = t
def umid_py(a, b):        # for toast._div4: mid(a, b) -> point
    pairs.add((a.t, b.t)); return OP(MID(a.t, b.t))
def umid_struct(a, b, cen):  # for decythonised _mid(a, b, cen)
    pairs.add((a.t, b.t)); cen.t = MID(a.t, b.t)
class CenRec:
    """array stand-in recording which point is written at which [row, col]"""
    def __init__(self, n, r0=0, c0=0, store=None): self.n = n; self.r0 = r0; self.c0 = c0; self.store = {} if store is None else store
    @property
    def shape(self): return (self.n, self.n)
    def __getitem__(self, key):
        rs, cs = key
        r = range(*rs.indices(self.n)); c = range(*cs.indices(self.n))
        assert len(r) == len(c)
        return CenRec(len(r), self.r0 + r.start, self.c0 + c.start, self.store)
    def __setitem__(self, key, val):
        assert key == 0 and self.n == 1
        self.store[(self.r0, self.c0)] = val
import toasty.toast as tt
def run(n, increasing):
    pairs.clear()
    corners = [OP(z3.Const(nm, Pt)) for nm in ('ul', 'ur', 'lr', 'll')]
    # decythonised side: _subsample(ul, ur, lr, ll, x, y, increasing) with _mid patched; x records cen.x, y records cen.y
    class P2:
        def __init__(self, x=None, y=None): self.t = None
        @property
        def x(self): return ('x', self.t)
        @property
        def y(self): return ('y', self.t)
    mod.Point = P2
    mod._mid = umid_struct
    xs, ys = CenRec(n), CenRec(n)
    pts = []
    for c in corners:
        p = P2(); p.t = c.t; pts.append(p)
    mod._subsample(pts[0], pts[1], pts[2], pts[3], xs, ys, 1 if increasing else 0)
    # python side: descend with the real _div4
    saved = tt.mid; tt.mid = umid_py
    try:
        k = int(math.log2(n))
        tiles = {(0, 0): Tile(tt.Pos(0, 0, 0), tuple(corners), increasing)}
        for _ in range(k):
            nxt = {}
            for (x, y), t in tiles.items():
                for ch in _div4(t):
                    nxt[(ch.pos.x, ch.pos.y)] = ch
            tiles = nxt
        cent = {}
        for (x, y), t in tiles.items():
            ul, ur, lr, ll = t.corners
            cent[(y, x)] = umid_py(ll, ur).t if increasing else umid_py(ul, lr).t
    finally:
        tt.mid = saved
    s = z3.Solver()
    for (a, b) in list(pairs):
        s.add(MID(a, b) == MID(b, a))
    diffs = []
    for key, (tag, term) in xs.store.items():
        assert tag == 'x' and ys.store[key][0] == 'y' and z3.eq(ys.store[key][1], term)
        diffs.append(term != cent[key])
    s.add(z3.Or(*diffs))
    t0 = time.time(); r = s.check()
    return r, len(diffs), len(pairs), round(time.time() - t0, 2)
for n in (int(sys.argv[1]),) if len(sys.argv) > 1 else (1, 2, 4, 8, 16):
    for inc in (True, False):
        print('n', n, 'increasing', inc, run(n, inc))
