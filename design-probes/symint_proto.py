"""Prototype SymInt proxy + symbolic-slice support for symnp (feasibility probe only)."""
import z3
from symx_proto import SB, CUR

def I(v):
    if isinstance(v, SI): return v.t
    if isinstance(v, bool): return z3.IntVal(int(v))
    if isinstance(v, int): return z3.IntVal(v)
    if hasattr(v, '__index__'): return z3.IntVal(int(v))
    raise TypeError(v)

class SI:
    def __init__(self, t): self.t = t
    def __add__(s, o): return SI(s.t + I(o))
    __radd__ = __add__
    def __sub__(s, o): return SI(s.t - I(o))
    def __rsub__(s, o): return SI(I(o) - s.t)
    def __mul__(s, o): return SI(s.t * I(o))
    __rmul__ = __mul__
    def __neg__(s): return SI(-s.t)
    def __floordiv__(s, o):
        assert isinstance(o, int) and o > 0
        return SI(s.t / o)          # z3 int div == floor for positive divisor
    def __mod__(s, o):
        assert isinstance(o, int) and o > 0
        return SI(s.t % o)
    def __lt__(s, o): return SB(s.t < I(o))
    def __le__(s, o): return SB(s.t <= I(o))
    def __gt__(s, o): return SB(s.t > I(o))
    def __ge__(s, o): return SB(s.t >= I(o))
    def __eq__(s, o): return SB(s.t == I(o))
    def __ne__(s, o): return SB(s.t != I(o))
    __hash__ = None

_real_int = int
def sym_int(v):
    if isinstance(v, SI): return v
    return _real_int(v)

class SymRange:
    """range(start, stop) summarised by one arbitrary in-range index (or a chosen witness)"""
    log = []
    witness = {}
    def __init__(self, a, b=None):
        if b is None: a, b = 0, a
        self.a, self.b = a, b
        SymRange.log.append(self)
    def __iter__(self):
        ctx = CUR[0]
        n = len([r for r in SymRange.log if r is not self and getattr(r, 'used', False)])
        self.used = True
        k = SymRange.witness.get(n)
        if k is None:
            k = SI(z3.Int('rng%d_%d' % (n, id(ctx) % 1000)))
        self.k = k
        ctx.assume(z3.And(I(self.a) <= I(k), I(k) < I(self.b)))
        yield k

def slice_indices(sl, dim):
    """symbolic version of slice.indices -> (start, step, length) as z3 terms; step must be concrete +-1/None"""
    step = 1 if sl.step is None else sl.step
    assert step in (1, -1)
    d = I(dim)
    def norm(v, lo, hi):
        v = I(v)
        return z3.If(v < 0, z3.If(v + d < lo, lo, v + d), z3.If(v > hi, hi, v))
    if step == 1:
        s = z3.IntVal(0) if sl.start is None else norm(sl.start, z3.IntVal(0), d)
        e = d if sl.stop is None else norm(sl.stop, z3.IntVal(0), d)
        ln = z3.If(e - s > 0, e - s, 0)
    else:
        s = d - 1 if sl.start is None else norm(sl.start, z3.IntVal(-1), d - 1)
        e = z3.IntVal(-1) if sl.stop is None else norm(sl.stop, z3.IntVal(-1), d - 1)
        ln = z3.If(s - e > 0, s - e, 0)
    return s, step, ln
