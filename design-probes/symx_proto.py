"""Prototype DSE driver: SymReal/SymBool proxies + DFS path explorer (feasibility probe only)."""
import z3, time

class PathAbort(Exception): pass

class Ctx:
    def __init__(self, prefix):
        self.prefix = list(prefix); self.pos = 0; self.pc = []; self.solver = z3.Solver()
        self.decisions = []   # (taken, other_feasible)
        self.nq = 0
    def branch(self, cond):
        if self.pos < len(self.prefix):
            take, pend = self.prefix[self.pos]; self.pos += 1
            self.decisions.append((take, pend))
        else:
            self.nq += 2
            self.solver.push(); self.solver.add(cond); t = self.solver.check() == z3.sat; self.solver.pop()
            self.solver.push(); self.solver.add(z3.Not(cond)); f = self.solver.check() == z3.sat; self.solver.pop()
            if not t and not f: raise PathAbort()
            take = t
            self.decisions.append((take, t and f)); self.pos += 1
        c = cond if take else z3.Not(cond)
        self.pc.append(c); self.solver.add(c)
        return take
    def assume(self, c):
        self.pc.append(c); self.solver.add(c)

CUR = [None]

class SB:
    def __init__(self, t): self.t = t
    def __bool__(self): return CUR[0].branch(self.t)

def R(v):
    if isinstance(v, SR): return v.t
    if isinstance(v, float): return z3.Q(*v.as_integer_ratio())
    return z3.RealVal(v)

class SR:
    def __init__(self, t): self.t = t
    def __add__(s, o): return SR(s.t + R(o))
    __radd__ = __add__
    def __sub__(s, o): return SR(s.t - R(o))
    def __rsub__(s, o): return SR(R(o) - s.t)
    def __mul__(s, o): return SR(s.t * R(o))
    __rmul__ = __mul__
    def __neg__(s): return SR(-s.t)
    def __lt__(s, o): return SB(s.t < R(o))
    def __le__(s, o): return SB(s.t <= R(o))
    def __gt__(s, o): return SB(s.t > R(o))
    def __ge__(s, o): return SB(s.t >= R(o))

def explore(fn, max_paths=200000):
    prefix = []; n = 0; nq = 0; t0 = time.time(); results = []
    while True:
        ctx = Ctx(prefix); CUR[0] = ctx
        try:
            r = fn(ctx); results.append(r)
        except PathAbort:
            pass
        n += 1; nq += ctx.nq
        # backtrack: find last decision with other_feasible and not yet flipped
        d = ctx.decisions
        # decisions from prefix have other_feasible False (already handled)
        k = len(d) - 1
        while k >= 0 and not d[k][1]: k -= 1
        if k < 0 or n >= max_paths: break
        prefix = list(d[:k]) + [(not d[k][0], False)]
    return n, nq, time.time() - t0, results
