import types, sys
import detsched_replay_probe as p16
import toasty.pyramid as orig
src = open(orig.__file__).read()
a = "        ready_queue.close()\n        ready_queue.join_thread()\n        done_event.set()\n\n        for w in workers:\n            w.join()\n\n\nclass PyramidReductionIterator("
b = "        ready_queue.close()\n        done_event.set()\n        ready_queue.join_thread()\n\n        for w in workers:\n            w.join()\n\n\nclass PyramidReductionIterator("
assert a in src
mut = types.ModuleType('toasty.pyramid'); mut.__package__ = 'toasty'; mut.__file__ = orig.__file__
exec(compile(src.replace(a, b), orig.__file__, 'exec'), mut.__dict__)
mut.progress_bar = p16._pb; mut.print = lambda *a, **k: None
p16.Pyramid = mut.Pyramid
bad = ['main', 'main'] + ['main'] * 4 + ['feeder'] * 2 + ['w0', 'w1'] + ['main', 'main'] + ['w0', 'w1'] + ['feeder'] * 2 + ['main', 'main', 'main']
out, calls, result, log = p16.replay(bad)
print('mutant + losing schedule:', out, 'callbacks', len(calls), 'returned?', 'returned_with' in result, 'returned_with', len(result.get('returned_with', [])))
# same schedule on the real code must get stuck at 'set' (main wants join_thread, which is not enabled while buffer non-empty)
import importlib; p16.Pyramid = orig.Pyramid
out, calls, result, log = p16.replay(bad)
print('real code + same schedule:', out, 'callbacks', len(calls), 'returned?', 'returned_with' in result)
