import numpy as np, tempfile, os, traceback
from toasty import toast, pyramid
from toasty.toast import *
from toasty.pyramid import Pos, PyramidIO
# C12 planetary
for cs in (ToastCoordinateSystem.ASTRONOMICAL, ToastCoordinateSystem.PLANETARY):
    bad = 0; tot = 0
    rng = np.random.default_rng(0)
    for _ in range(300):
        lat = rng.uniform(-1.5, 1.5); lon = rng.uniform(0, 2*np.pi)
        t = toast_tile_for_point(4, lat, lon, coordsys=cs)
        sc = toast._toast_tile_containment_score(t, lat, lon)
        tot += 1
        if sc < -1e-9: bad += 1
    print(cs, "not contained:", bad, "/", tot)
# C06 depth 0
with tempfile.TemporaryDirectory() as d:
    pio = PyramidIO(d, default_format='npy')
    try:
        sample_layer(pio, lambda lon, lat: (lon+lat).astype(np.float32), 0, parallel=1)
        print("depth0 ok", os.listdir(d))
    except Exception as e:
        print("depth0 FAIL", type(e).__name__, e)
# C05 lat range
mx = 0
for t in generate_tiles(4, bottom_only=False):
    lons, lats = toast_tile_get_coords(t)
    c = np.asarray(t.corners)
    lo, hi = c[:,1].min(), c[:,1].max()
    ex = max(lo - lats.min(), lats.max() - hi)
    mx = max(mx, ex)
print("max lat excess beyond corner range", mx)
