"""Concrete sanity runs of the reference semantics (display orientation etc.) against the real code."""
import os, tempfile, shutil, glob, warnings
import numpy as np
from astropy.io import fits
from astropy.wcs import WCS
from toasty.pyramid import PyramidIO, Pos, pos_children
from toasty.image import Image, ImageLoader
from toasty.merge import cascade_images, averaging_merger
from toasty.study import StudyTiling
from toasty import toast
from toasty.toast import sample_layer, toast_tile_get_coords, generate_tiles, ToastCoordinateSystem

rng = np.random.default_rng(3)
warnings.simplefilter('ignore')

def disp(pio, pos, fmt):
    img = pio.read_image(pos, format=fmt)
    if img is None: return None
    a = img.asarray()
    return a[::-1] if fmt == 'fits' else a

# ---------- C02 / C14: sparse cascade, fits and npy
for fmt in ('fits', 'npy'):
    d = tempfile.mkdtemp()
    pio = PyramidIO(d, default_format=fmt)
    leaves = {}
    depth = 2
    for y in range(4):
        for x in range(4):
            if rng.random() < 0.5: continue
            a = rng.normal(size=(256, 256)).astype(np.float32)
            a[rng.random((256, 256)) < 0.3] = np.nan
            if (x, y) == (3, 3): a[:] = np.nan   # all-NaN leaf -> not stored
            leaves[(x, y)] = a    # display orientation
            stored = a[::-1] if fmt == 'fits' else a
            pio.write_image(Pos(2, x, y), Image.from_array(stored.copy(), default_format=fmt))
    cascade_images(pio, depth, averaging_merger, parallel=1)
    def ref(n, x, y):
        if n == depth:
            a = leaves.get((x, y))
            return None if a is None or np.all(np.isnan(a)) else a
        kids = [ref(n + 1, 2 * x + i, 2 * y + j) for j in (0, 1) for i in (0, 1)]
        if all(k is None for k in kids): return None
        mos = np.full((512, 512), np.nan, dtype=np.float32)
        for k, (j, i) in zip(kids, [(0, 0), (0, 1), (1, 0), (1, 1)]):
            if k is not None: mos[256 * j:256 * (j + 1), 256 * i:256 * (i + 1)] = k
        with warnings.catch_warnings():
            warnings.simplefilter('ignore')
            out = np.nanmean(mos.reshape(256, 2, 256, 2), axis=(1, 3)).astype(np.float32)
        return None if np.all(np.isnan(out)) else out
    bad = 0
    for n in (1, 0):
        for y in range(2 ** n):
            for x in range(2 ** n):
                r = ref(n, x, y); g = disp(pio, Pos(n, x, y), fmt)
                if (r is None) != (g is None): bad += 1; continue
                if r is not None and not np.allclose(r, g, equal_nan=True, rtol=1e-6): bad += 1
    print('C02', fmt, 'mismatching parents:', bad)
    if fmt == 'fits':
        # C14: DATAMIN / DATAMAX
        def leafrange(n, x, y):
            if n == depth:
                a = leaves.get((x, y))
                if a is None or np.all(np.isnan(a)): return None
                return float(np.nanmin(a)), float(np.nanmax(a))
            rs = [leafrange(n + 1, 2 * x + i, 2 * y + j) for j in (0, 1) for i in (0, 1)]
            rs = [r for r in rs if r]
            return (min(r[0] for r in rs), max(r[1] for r in rs)) if rs else None
        badr = 0
        for n in (2, 1, 0):
            for y in range(2 ** n):
                for x in range(2 ** n):
                    p = pio.tile_path(Pos(n, x, y), makedirs=False)
                    r = leafrange(n, x, y)
                    if not os.path.exists(p):
                        if r is not None: badr += 1
                        continue
                    h = fits.getheader(p)
                    if r is None or not np.isclose(h['DATAMIN'], r[0], rtol=1e-6) or not np.isclose(h['DATAMAX'], r[1], rtol=1e-6): badr += 1
        print('C14 fits header range mismatches:', badr)
    shutil.rmtree(d)

# ---------- C06: sampling orientation, fits and png/npy
for fmt in ('fits', 'npy'):
    d = tempfile.mkdtemp(); pio = PyramidIO(d, default_format=fmt)
    samp = lambda lon, lat: (np.sin(lon) + 2 * lat).astype(np.float32)
    sample_layer(pio, samp, 2, format=fmt, parallel=1)
    bad = 0
    for t in generate_tiles(2):
        lon, lat = toast_tile_get_coords(t)
        g = disp(pio, t.pos, fmt)
        if g is None or not np.allclose(g, samp(lon, lat)): bad += 1
    print('C06', fmt, 'tiles not matching own coords in display orientation:', bad, 'files', len(glob.glob(d + '/2/*/*')))
    shutil.rmtree(d)

# ---------- C08: study tiling read-back
for fmt in ('fits', 'npy'):
    for (w, h) in ((255, 1), (256, 256), (257, 300), (513, 700), (1000, 37)):
        d = tempfile.mkdtemp(); pio = PyramidIO(d, default_format=fmt)
        a = rng.normal(size=(h, w)).astype(np.float32)
        img = Image.from_array(a.copy(), default_format=fmt)
        t = StudyTiling(w, h); t.tile_image(img, pio)
        n = t._tile_levels; size = 256 * 2 ** n
        canvas = np.full((size, size), np.nan, dtype=np.float32)
        for y in range(2 ** n):
            for x in range(2 ** n):
                g = disp(pio, Pos(n, x, y), fmt)
                if g is not None: canvas[256 * y:256 * (y + 1), 256 * x:256 * (x + 1)] = g
        want = np.full((size, size), np.nan, dtype=np.float32)
        gx0, gy0 = (size - w) // 2, (size - h) // 2
        want[gy0:gy0 + h, gx0:gx0 + w] = a
        ok = np.array_equal(canvas, want, equal_nan=True) and size == max(256, 1 << (max(w, h) - 1).bit_length())
        print('C08', fmt, (w, h), 'levels', n, 'ok' if ok else 'MISMATCH')
        shutil.rmtree(d)
