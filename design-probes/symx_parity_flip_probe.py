"""Probe: real _flip_wcs_parity / _wcs_to_parity_sign / ImageDescription.flip_parity on a symbolic linear WCS header."""
import z3, time, sys, types
from symx_proto import explore, CUR, SB, SR, R
from symint_proto import SI, I
import toasty.image as timg
import astropy.wcs as awcs

SR.__imul__ = lambda s, o: SR(s.t * R(o))
SR.__rsub__ = lambda s, o: SR((z3.ToReal(o.t) if isinstance(o, SI) else R(o)) - s.t)
def _mix(name):
    orig = getattr(SI, name)
    def f(s, o):
        if isinstance(o, SR): return NotImplemented
        return orig(s, o)
    setattr(SI, name, f)
for _n in ('__add__', '__sub__', '__mul__', '__radd__', '__rsub__', '__rmul__'): _mix(_n)
SR.__radd__ = lambda s, o: SR((z3.ToReal(o.t) if isinstance(o, SI) else R(o)) + s.t)
SR.__rmul__ = lambda s, o: SR((z3.ToReal(o.t) if isinstance(o, SI) else R(o)) * s.t)
class Hdr(dict):
    def setdefault(self, k, d):
        if k not in self: self[k] = d
        return self[k]
class FakeWCS:
    def __init__(self, header):
        self.h = Hdr(header)
        if 'CD1_1' in self.h:   # wcslib normalisation: to_header() re-expresses CD as CDELT=1 * PC
            self.raw = Hdr(header)
            for a in ('1_1', '1_2', '2_1', '2_2'):
                self.h['PC' + a] = self.h.pop('CD' + a)
            self.h['CDELT1'] = 1.0; self.h['CDELT2'] = 1.0
        else:
            self.raw = Hdr(header)
    def to_header(self): return Hdr(self.h)
def R2(v): return z3.ToReal(v.t) if isinstance(v, SI) else R(v)
def harness(ctx):
    names = ['CDELT1', 'CDELT2', 'PC1_1', 'PC1_2', 'PC2_1', 'PC2_2', 'CRPIX1', 'CRPIX2']
    h = {n: SR(z3.Real(n)) for n in names}
    if DROP_PC:
        for n in ('PC1_2', 'PC2_1'): del h[n]
    Hh = SI(z3.Int('H')); ctx.assume(Hh.t >= 1)
    saved = awcs.WCS; awcs.WCS = FakeWCS
    try:
        w0 = FakeWCS(h)
        det0 = (h['CDELT1'].t * h['PC1_1'].t) * (h['CDELT2'].t * h['PC2_2'].t) - (h['CDELT1'].t * (h['PC1_2'].t if 'PC1_2' in h else 0)) * (h['CDELT2'].t * (h['PC2_1'].t if 'PC2_1' in h else 0))
        ctx.assume(det0 != 0)
        sign0 = timg._wcs_to_parity_sign(w0)
        desc = timg.ImageDescription(shape=(Hh, SI(z3.Int('W'))), wcs=w0)
        desc.flip_parity()
        w1 = desc.wcs
        sign1 = timg._wcs_to_parity_sign(w1)
    finally:
        awcs.WCS = saved
    g = w1.raw
    cd = lambda hh, a: R2(hh[a])
    x, y = z3.Reals('x y')
    # intermediate world coords before at 0-based (x, y); after at (x, H-1-y)
    def world(CD11, CD12, CD21, CD22, c1, c2, px, py):
        return (CD11 * (px + 1 - c1) + CD12 * (py + 1 - c2), CD21 * (px + 1 - c1) + CD22 * (py + 1 - c2))
    b = world(h['CDELT1'].t * h['PC1_1'].t, h['CDELT1'].t * (h['PC1_2'].t if 'PC1_2' in h else 0),
              h['CDELT2'].t * (h['PC2_1'].t if 'PC2_1' in h else 0), h['CDELT2'].t * h['PC2_2'].t, h['CRPIX1'].t, h['CRPIX2'].t, x, y)
    a = world(cd(g, 'CD1_1'), cd(g, 'CD1_2'), cd(g, 'CD2_1'), cd(g, 'CD2_2'), cd(g, 'CRPIX1'), cd(g, 'CRPIX2'), x, z3.ToReal(Hh.t) - 1 - y)
    s = ctx.solver
    s.push(); s.add(z3.Or(a[0] != b[0], a[1] != b[1])); t0 = time.time(); r = s.check(); dt = time.time() - t0; s.pop()
    return (sign0, sign1, str(r), round(dt, 2), sorted(k for k in g if k.startswith(('CD', 'PC'))))
for DROP_PC in (False, True):
    n, nq, dt, res = explore(harness)
    print('drop PC off-diagonals' if DROP_PC else 'full PC', 'paths', n, res)
