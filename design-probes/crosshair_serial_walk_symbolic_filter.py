from toasty.pyramid import Pyramid, Pos, pos_children, pos_parent
import toasty.pyramid as _tp
from contextlib import contextmanager
class _NoProgress:
    def update(self, n): pass
@contextmanager
def _pb(total=None, show=None):
    yield _NoProgress()
_tp.progress_bar = _pb
_tp.print = lambda *a, **k: None


def _idx(pos):
    # index of pos within its level
    return pos.y * (2**pos.n) + pos.x

def _ref_live(depth, acc, pos):
    """reference: set of live positions under pos given acceptance function acc(pos)"""
    if pos.n > 0 and not acc(pos):
        return False, []
    if pos.n == depth:
        return True, []
    order = []
    live = False
    for c in pos_children(pos):
        l, o = _ref_live(depth, acc, c)
        order += o
        live = live or l
    if live:
        order.append(pos)
    return live, order

def chk_walk_serial_d1(m1: int) -> bool:
    """
    pre: 0 <= m1 < 16
    post: _
    """
    depth = 1
    acc = lambda pos: ((m1 >> _idx(pos)) & 1) == 1
    p = Pyramid.new_toast_filtered(depth, lambda t: acc(t.pos))
    seen = []
    p._walk_serial(seen.append, False)
    _l, order = _ref_live(depth, acc, Pos(0,0,0))
    return seen == order

def chk_walk_serial_d2(m1: int, m2: int) -> bool:
    """
    pre: 0 <= m1 < 4
    pre: 0 <= m2 < 2**16
    post: _
    """
    depth = 2
    def acc(pos):
        if pos.n == 1:
            return ((m1 >> _idx(pos)) & 1) == 1
        return ((m2 >> _idx(pos)) & 1) == 1
    p = Pyramid.new_toast_filtered(depth, lambda t: acc(t.pos))
    seen = []
    p._walk_serial(seen.append, False)
    _l, order = _ref_live(depth, acc, Pos(0,0,0))
    return seen == order
