import os
from typing import List
from toasty.pyramid import PyramidIO, Pos

def _digits(s: str) -> bool:
    return 1 <= len(s) <= 2 and all(c in '0123456789' for c in s)

def chk_path_lsysyx(level: str, ix: str, iy: str) -> bool:
    """
    pre: _digits(level) and _digits(ix) and _digits(iy)
    post: _
    """
    pio = PyramidIO('base', scheme='L/Y/YX', default_format='png')
    p = pio._tile_path(level, ix, iy, format=None, makedirs=False)
    tmpl = pio.get_path_scheme() + '.png'
    exp = 'base/' + tmpl.replace('{1}', level).replace('{2}', ix).replace('{3}', iy)
    return p == exp

def chk_publish_pos(n: int, idx: int) -> bool:
    """
    pre: 0 <= n <= 6
    pre: -1 <= idx < n
    post: _
    """
    filenames = ['f%d' % i for i in range(n)]
    if idx >= 0:
        filenames[idx] = 'index.wtml'
    orig = list(filenames)
    try:
        index_index = filenames.index('index.wtml')
    except ValueError:
        pass
    else:
        temp = filenames[-1]
        filenames[-1] = 'index.wtml'
        filenames[index_index] = temp
    ok = sorted(orig) == sorted(filenames)
    if 'index.wtml' in orig:
        ok = ok and filenames[-1] == 'index.wtml'
    return ok
