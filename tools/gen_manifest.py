#!/usr/bin/env python3
"""Regenerate MANIFEST.json from the table below (kept in one place so the manifest is always valid)."""
import json, os, sys

V = "/verif"
CHECKS = {}   # filled by tools/manifest_table.py
exec(open(os.path.join(V, "tools", "manifest_table.py")).read())

props = [json.loads(l)["id"] for l in open(os.path.join(V, "properties.jsonl"))]
checks = []
na = []
for pid in props:
    c = CHECKS.get(pid)
    if c is None or c.get("na"):
        na.append({"property_id": pid, "reason": (c or {}).get("na", "check not built yet (framework under construction; see DESIGN.md for the intended solver-based check)")})
        continue
    checks.append({
        "property_id": pid,
        "quick_cmd": "bin/check %s --tier quick" % pid,
        "thorough_cmd": "bin/check %s --tier thorough" % pid,
        "evidence_file": "/verif/evidence/%s.json" % pid,
        "replay_cmd_template": "bin/check %s --replay {path}" % pid,
        "engine": c["engine"],
        "level_claimed": {"category": "model_checking", "text": c["text"], "design_ref": c["ref"]},
        "level_note": c["note"],
        "technique": c["technique"],
    })
m = {
    "version": 1,
    "setup_cmd": "bin/ensure_env.sh",
    "hooks": {
        "guard": "TOASTY_VERIF",
        "enable": "no hooks in toasty's source: every stub is monkey-patched from the harness side; checks import toasty from /repo's working tree",
        "baseline_off_cmd": "cd /repo && /venv/bin/python -m pytest -ra -q -p no:cacheprovider --timeout=900 --continue-on-collection-errors",
        "source_commits": [],
        "add_only": True,
    },
    "engines": ENGINES,
    "checks": checks,
    "notes": NOTES,
    "not_applicable": na,
}
json.dump(m, open(os.path.join(V, "MANIFEST.json"), "w"), indent=1)
print("checks:", [c["property_id"] for c in checks], "na:", [n["property_id"] for n in na])
try:
    import jsonschema
    jsonschema.validate(m, json.load(open("/root/.vp/MANIFEST.schema.json")))
    print("manifest valid")
except ImportError:
    print("(jsonschema not available in this interpreter)")
