#!/bin/bash
# usage: tools/with_sed.sh <file-in-repo> <python-expr old> <new> -- <command...>  (development aid: one-line mutant)
F="$1"; OLD="$2"; NEW="$3"; shift 3; [ "$1" = "--" ] && shift
git -C /repo diff --quiet || { echo "/repo dirty" >&2; exit 3; }
trap 'git -C /repo checkout -- . ' EXIT
python3 - "$F" "$OLD" "$NEW" <<'PY' || exit 3
import sys
f, old, new = sys.argv[1:4]
p = '/repo/' + f
s = open(p).read()
if s.count(old) < 1:
    print('pattern not found', file=sys.stderr); sys.exit(1)
s = s.replace(old, new, 1)
open(p, 'w').write(s)
PY
"$@"
