#!/bin/bash
# usage: tools/confirm_seed_wt.sh <PROP_ID> <seed_name> <patch.diff> <demo.py> [notes.md] [-- check args...]
# Parallel-safe variant of confirm_seed.sh: everything happens in a private scratch worktree of /repo's HEAD and a private
# copy of /verif (VERIF_REPO points the check at the worktree), so /repo, /verif/evidence and /verif/replays are untouched
# and several seeds can be confirmed at once.  Confirms: patch applies cleanly, baseline tests unchanged with the change,
# demo fails with / passes without the change; then runs the registered quick check against the changed tree.
PID=$1; NAME=$2; PATCH=$(readlink -f "$3"); DEMO=$(readlink -f "$4"); shift 4
NOTES=""; if [ -n "$1" ] && [ "$1" != "--" ]; then NOTES=$(readlink -f "$1"); shift; fi
[ "$1" = "--" ] && shift
OUT=/verif/seeded/$NAME; mkdir -p "$OUT"
WT=/tmp/wt/confirm-$NAME
git -C /repo worktree remove --force "$WT" >/dev/null 2>&1; rm -rf "$WT"
git -C /repo worktree add --detach -f "$WT" HEAD >/dev/null 2>&1
cp /repo/toasty/_libtoasty.cpython-312-x86_64-linux-gnu.so /repo/toasty/_libtoasty.c "$WT/toasty/"
mkdir -p "$WT/_seed"; cp "$DEMO" "$WT/_seed/demo.py"
cd "$WT"
if ! git apply "$PATCH"; then echo "seed=$NAME PATCH-DOES-NOT-APPLY"; git -C /repo worktree remove --force "$WT"; exit 3; fi
if git diff --name-only | grep -qv '^toasty/'; then echo "seed=$NAME PATCH-TOUCHES-NON-LIBRARY-FILES"; fi
if git diff --name-only | grep -q 'tests/'; then echo "seed=$NAME PATCH-TOUCHES-TESTS"; git -C /repo worktree remove --force "$WT"; exit 3; fi
TESTS=$(/venv/bin/python -m pytest -q -p no:cacheprovider --timeout=900 2>&1 | tail -1)
timeout 400 /venv/bin/python _seed/demo.py > "$OUT/demo_with_change.log" 2>&1; RC_WITH=$?
git apply -R "$PATCH"
timeout 400 /venv/bin/python _seed/demo.py > "$OUT/demo_without_change.log" 2>&1; RC_WITHOUT=$?
git apply "$PATCH"
cp "$PATCH" "$OUT/patch.diff"; cp "$DEMO" "$OUT/demo.py"; [ -n "$NOTES" ] && cp "$NOTES" "$OUT/notes.md"
C=/tmp/vt/$NAME; rm -rf "$C"; mkdir -p "$C"
rsync -a --exclude .git --exclude .venv --exclude design-probes --exclude seeded /verif/ "$C/"
VERIF_REPO="$WT" timeout 3000 "$C/bin/check" "$PID" "$@" > "$OUT/check_with_change.log" 2>&1; RC_CHECK=$?
sed -i "s#$C/#/verif/#g" "$OUT/check_with_change.log"
VIOL=$(grep -c "^VIOLATION" "$OUT/check_with_change.log")
cd /verif
git -C /repo worktree remove --force "$WT" >/dev/null 2>&1; rm -rf "$WT" "$C"
echo "seed=$NAME tests='$TESTS' demo_with=$RC_WITH demo_without=$RC_WITHOUT check_rc=$RC_CHECK violations=$VIOL"
python3 - "$OUT" "$PID" "$NAME" "$TESTS" "$RC_WITH" "$RC_WITHOUT" "$RC_CHECK" "$VIOL" "$*" <<'PY'
import json, sys, os, subprocess
out, pid, name, tests, rcw, rcwo, rcc, viol, args = sys.argv[1:10]
meta_path = os.path.join(out, "meta.json")
meta = json.load(open(meta_path)) if os.path.exists(meta_path) else {}
lines = [l.strip()[:600] for l in open(os.path.join(out, "check_with_change.log")) if l.startswith("VIOLATION") or l.startswith("  obligation=")]
meta.update({"property": pid, "name": name, "repo_head": subprocess.check_output(["git", "-C", "/repo", "rev-parse", "--short", "HEAD"]).decode().strip(),
             "confirmed": {"baseline_tests_with_change": tests, "demo_exit_with_change": int(rcw), "demo_exit_without_change": int(rcwo)},
             "check": {"command": "bin/check %s %s" % (pid, args), "against": "scratch worktree of /repo HEAD with the patch applied (VERIF_REPO)",
                       "exit_code": int(rcc), "violation_lines": int(viol), "first_violations": lines[:4]},
             "detected": int(rcc) == 1 and int(viol) > 0})
json.dump(meta, open(meta_path, "w"), indent=1)
PY
