#!/bin/bash
# usage: tools/confirm_seed.sh <PROP_ID> <seed_name> <patch.diff> <demo.py> [check args...]
# Confirms a seeded change in a fresh scratch worktree of /repo's HEAD: applies cleanly, baseline tests unchanged,
# demo fails with / passes without the change; then runs the registered check against /repo with the change applied.
PID=$1; NAME=$2; PATCH=$(readlink -f "$3"); DEMO=$(readlink -f "$4"); shift 4
OUT=/verif/seeded/$NAME; mkdir -p "$OUT"
WT=/tmp/wt/confirm-$NAME
git -C /repo worktree remove --force "$WT" >/dev/null 2>&1; rm -rf "$WT"
git -C /repo worktree add --detach -f "$WT" HEAD >/dev/null 2>&1
cp /repo/toasty/_libtoasty.cpython-312-x86_64-linux-gnu.so /repo/toasty/_libtoasty.c "$WT/toasty/"
mkdir -p "$WT/_seed"; cp "$DEMO" "$WT/_seed/demo.py"
cd "$WT"
if ! git apply "$PATCH"; then echo "PATCH-DOES-NOT-APPLY"; exit 3; fi
TESTS=$(/venv/bin/python -m pytest -q -p no:cacheprovider --timeout=900 2>&1 | tail -1)
timeout 300 /venv/bin/python _seed/demo.py > "$OUT/demo_with_change.log" 2>&1; RC_WITH=$?
git checkout -q -- toasty
timeout 300 /venv/bin/python _seed/demo.py > "$OUT/demo_without_change.log" 2>&1; RC_WITHOUT=$?
cd /verif
git -C /repo worktree remove --force "$WT" >/dev/null 2>&1; rm -rf "$WT"
cp "$PATCH" "$OUT/patch.diff"; cp "$DEMO" "$OUT/demo.py"
/verif/tools/with_patch.sh "$OUT/patch.diff" timeout 3000 bin/check $PID "$@" > "$OUT/check_with_change.log" 2>&1; RC_CHECK=$?
VIOL=$(grep -c "^VIOLATION" "$OUT/check_with_change.log")
echo "seed=$NAME tests='$TESTS' demo_with=$RC_WITH demo_without=$RC_WITHOUT check_rc=$RC_CHECK violations=$VIOL"
python3 - "$OUT" "$PID" "$NAME" "$TESTS" "$RC_WITH" "$RC_WITHOUT" "$RC_CHECK" "$VIOL" "$*" <<'PY'
import json, sys, os, subprocess
out, pid, name, tests, rcw, rcwo, rcc, viol, args = sys.argv[1:10]
meta_path = os.path.join(out, "meta.json")
meta = json.load(open(meta_path)) if os.path.exists(meta_path) else {}
lines = [l.strip() for l in open(os.path.join(out, "check_with_change.log")) if l.startswith("VIOLATION") or l.startswith("  obligation=")]
meta.update({"property": pid, "name": name, "repo_head": subprocess.check_output(["git", "-C", "/repo", "rev-parse", "--short", "HEAD"]).decode().strip(),
             "confirmed": {"baseline_tests_with_change": tests, "demo_exit_with_change": int(rcw), "demo_exit_without_change": int(rcwo)},
             "check": {"command": "bin/check %s %s" % (pid, args), "exit_code": int(rcc), "violation_lines": int(viol), "first_violations": lines[:4]},
             "detected": int(rcc) == 1 and int(viol) > 0})
json.dump(meta, open(meta_path, "w"), indent=1)
PY
