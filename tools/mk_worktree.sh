#!/bin/bash
# usage: tools/mk_worktree.sh <name>  -> /tmp/wt/<name>, a scratch git worktree of /repo (HEAD) with the compiled extension copied in
set -e
D=/tmp/wt/$1
mkdir -p /tmp/wt
git -C /repo worktree add --detach -f "$D" HEAD >/dev/null 2>&1
cp /repo/toasty/_libtoasty.cpython-312-x86_64-linux-gnu.so /repo/toasty/_libtoasty.c "$D/toasty/" 
mkdir -p "$D/_seed"
echo "$D"
