#!/bin/bash
# usage: tools/try_seed.sh <PROP_ID> <worktree-with-change-applied> [check args...]
# Development aid: runs the check for PROP_ID from a throw-away copy of /verif (so /verif/evidence and /verif/replays
# are untouched) against a scratch copy of the repository (VERIF_REPO), i.e. without modifying /repo.
PID=$1; WT=$(readlink -f "$2"); shift 2
C=/tmp/vt/$(basename "$WT")-$PID; rm -rf "$C"; mkdir -p "$C"
rsync -a --exclude .git --exclude .venv --exclude design-probes --exclude seeded /verif/ "$C/"
VERIF_REPO="$WT" "$C/bin/check" "$PID" "$@" > "$C/out.log" 2>&1; RC=$?
echo "rc=$RC $(grep -c '^VIOLATION' "$C/out.log") violations; log $C/out.log"
grep -E "^(VIOLATION|KNOWN-FINDING|INCONCLUSIVE|SUMMARY|HARNESS)" "$C/out.log" | cut -c1-260 | head -12
grep -A1 "^VIOLATION" "$C/out.log" | grep "obligation=" | cut -c1-400 | head -4
