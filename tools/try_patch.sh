#!/bin/bash
# usage: tools/try_patch.sh <PROP_ID> <patch.diff> [check args...]
# Development aid: scratch worktree of /repo HEAD + patch, run the check from a throw-away copy of /verif against it (VERIF_REPO), clean up.
PID=$1; PATCH=$(readlink -f "$2"); shift 2
WT=/tmp/wt/try-$$-$PID
git -C /repo worktree add --detach -f "$WT" HEAD >/dev/null 2>&1
cp /repo/toasty/_libtoasty.cpython-312-x86_64-linux-gnu.so /repo/toasty/_libtoasty.c "$WT/toasty/"
(cd "$WT" && git apply "$PATCH") || { echo "patch does not apply"; git -C /repo worktree remove --force "$WT"; exit 3; }
/verif/tools/try_seed.sh "$PID" "$WT" "$@"
git -C /repo worktree remove --force "$WT" >/dev/null 2>&1; rm -rf "$WT"
