ENGINES = [
    {"name": "E1-crosshair", "path": "vlib/chx.py", "serves_properties": ["C01", "C13", "C17", "C18", "C20"],
     "kind_free_text": "CrossHair (z3) symbolic execution of harness conditions that call toasty's real functions; inductive cuts by stubbing recursive globals / the reducer; counterexamples replayed under plain CPython"},
]
ENGINES.append({"name": "E2-symx-symnp", "path": "vlib/e2.py", "serves_properties": ["C02", "C06", "C07", "C08", "C09", "C11", "C12", "C14", "C15", "C16"],
     "kind_free_text": "own z3-backed proxy-object symbolic execution (vlib/symx.py) with a lazy symbolic numpy (vlib/symnp.py) patched into toasty's modules; claims proved per path; counterexamples and vacuity twins replayed with real numpy on the solver model's inputs"})
ENGINES.append({"name": "E3-bmc", "path": "vlib/bmc.py", "serves_properties": ["C01", "C03", "C10", "C19"],
     "kind_free_text": "z3 QF_BV bounded model checking of the process protocols: producer scripts, worker reaction tables and the dispatcher's release table are extracted from the real functions on every run (vlib/mpmodel.py), composed with a trusted model of multiprocessing.Queue/Event/Process; the schedule is a solver variable with a complete step bound; counterexample schedules are replayed on the real entry points and workers under a deterministic thread scheduler"})
ENGINES.append({"name": "E4-decy-euf", "path": "vlib/decy.py", "serves_properties": ["C04", "C05", "C07"],
     "kind_free_text": "fail-closed translation of toasty/_libtoasty.pyx to Python on every run (validated differentially against the compiled extension), executed on symbolic values: trig -> polynomial abstraction (z3 QF_NRA) for _mid, EUF with an uninterpreted commutative midpoint for the subdivision recursion"})
NOTES = ("Solver-based checking of the real code. Exit 0 = all explored obligations held; inconclusive obligations are printed as INCONCLUSIVE and listed in evidence, never counted as held. "
         "Exit 2 = harness error. known_findings.json lists genuine defects (open / fixed).")
CHECKS["C13"] = dict(
    engine="E1-crosshair", ref="DESIGN.md §3.1",
    technique="CrossHair/z3 symbolic execution of the real position algebra, generators, reducer and counters (one-step inductive obligations + bounded end-to-end with symbolic filter masks)",
    text="Bounded symbolic execution: each obligation is confirmed over all paths by CrossHair/z3 for symbolic positions (unbounded ints for the algebra), symbolic filter verdicts and child results; one-step obligations cover any depth by induction, the end-to-end obligation cross-checks the composition to depth 1 (quick) / 2 (thorough); histories on ONE Pyramid object (counted and/or visited, then restricted with subpyramid(), then counted / walked / visited twice) give the answers of a fresh object.",
    note="CrossHair's int/list/tuple models; progress_bar/print stubbed; the induction gluing the one-step obligations is on paper (Appendix A-1..3); hashing symbolic Pos realises positions (enumerated within stated ranges).",
)

CHECKS["C18"] = dict(
    engine="E1-crosshair", ref="DESIGN.md §3.6",
    technique="CrossHair/z3 symbolic execution of the real publish()/LocalPipelineIo/refresh_impl over an in-memory file system with a symbolic crash point and symbolic directory order",
    text="Bounded symbolic execution: for every listing position of index.wtml (or none), every crash point (before or inside any single transfer, or none) and every re-run listing order, with <= 4 files (quick) / <= 7 (thorough) and <= 2 images, the store never holds index.wtml without all other files complete, the rename happens only after all transfers, and a re-run completes.",
    note="os/open/shutil replaced by an in-memory file system (model of the environment); only the local store back end is executed; crash = exception at a symbolic transfer, partial file modelled for the file in flight only.",
)
CHECKS["C20"] = dict(
    engine="E1-crosshair", ref="DESIGN.md §3.7",
    technique="CrossHair/z3 symbolic execution of the real SimpleFitsCollection / collection.load / CLI option parsing against a fake HDU list with astropy's indexing contract",
    text="Bounded symbolic execution: for <= 3 files (4 thorough) with 3 HDUs each, symbolic scalar / per-file list / absent HDU index and WCS key, item k is read from HDU scalar | list[k] | first image HDU with the matching key; descriptions() and images() agree; CLI strings parse to scalar or list.",
    note="astropy.io.fits.open / astropy.wcs.WCS replaced by fakes with astropy's indexing contract; astropy's own parsing is outside the claim.",
)

CHECKS["C15"] = dict(
    engine="E2-symx-symnp", ref="DESIGN.md §4.1",
    technique="z3 via own symbolic execution (symx) of the real fill/update/clear/is_completely_masked/write_image/read_image with a lazy symbolic numpy: symbolic source shape, rectangle, pixel, channel and contents",
    text="Per-pixel semantics decided by z3 for all 8 modes, symbolic source shape (<= 4096^2), symbolic rectangle (forward and reversed-row slice forms; fill also from paired index arrays of 3 symbolic points, the chunk sampler's form), symbolic inspected pixel/channel and arbitrary prior buffer; write_image unlink rule and read_image default handling for both prior file states. unsat = holds for every value in those bounds.",
    note="numpy as modelled by symnp (validated each run against real numpy on solver-chosen inputs), floats as reals + NaN flag, codecs not symbolic (read-back through PNG/FITS/npy is outside the claim).",
)

CHECKS["C02"] = dict(
    engine="E2-symx-symnp", ref="DESIGN.md §4.2",
    technique="z3 via own symbolic execution (symx + symbolic numpy) of the real TileMerger.walk_callback / averaging_merger / PyramidIO over an in-memory tile store, symbolic pixel index and uninterpreted child tiles",
    text="For every one of the 65 536 output pixels/channels (symbolic index), all 16 child-presence patterns, 10 mode/format combinations and both vertical parities, with arbitrary child contents, z3 shows the stored parent pixel equals the 2x2 reduction of the display-orientation mosaic written from the property text (cross-validated against an independent numpy reference), that the parent is stored iff its merged content is not entirely undefined, and that nothing is touched when no child exists; the inspected merge follows another merge on the same TileMerger (reused buffer).",
    note="codecs = identity (in-memory store), floats as reals + NaN flag, transparent RGBA / partially-NaN F16x3 source pixels count as undefined; serial = parallel via C01 + determinism (paper argument).",
)
CHECKS["C14"] = dict(
    engine="E2-symx-symnp", ref="DESIGN.md §4.3",
    technique="z3 via own symbolic execution of the real TileMerger._get_min_max_of_children / Image.save / ImageLoader.load_path / Builder.cascade with symbolic recorded ranges and tile contents (inductive leaf / parent / root steps)",
    text="Inductive steps decided by z3: a leaf saved without explicit range records its finite nan-min/max (bounds every pixel, none for all-NaN); a parent records min/max of its children's recorded ranges for every presence pattern and every subset of children carrying a range (symbolic reals), and load_path hands the recorded values back; Builder.cascade copies the root's values to the ImageSet.",
    note="FITS header I/O = identity (astropy formatting outside), nanmin/nanmax modelled by defining facts, min/max builtins in toasty.merge replaced by branch-free equivalents, induction over levels on paper.",
)

CHECKS["C08"] = dict(
    engine="E2-symx-symnp", ref="DESIGN.md §4.4",
    technique="z3 via own symbolic execution of the real StudyTiling (constructor, sub-image, image_to_tile, count, generator, tile_image) with SYMBOLIC image width/height, sub-image rectangle, pixel and tile index; tile loops summarised by one arbitrary / witness iteration",
    text="For all widths and heights up to 2^12 (quick) / 2^20 (thorough) — symbolic, not sampled — z3 shows: smallest power-of-two square >= 256, centred offsets, level count, image_to_tile, count formula = enumeration size; every image pixel's witness tile is enumerated and its rectangle contains the pixel at the reported slot; rectangles of distinct tiles are disjoint and lie inside tile and image; the tile written for an arbitrary populated position holds the image pixels at their display slots and undefined values elsewhere, for 7 mode/format combinations, both parities and sub-images (also sub-tilings derived from a parent that was counted / enumerated before).",
    note="codecs = identity; int/range/min/max/progress_bar in toasty.study replaced by symbolic-aware equivalents; loop independence checked syntactically each run; sizes above the bound are outside the claim.",
)

CHECKS["C11"] = dict(
    engine="E2-symx-symnp", ref="DESIGN.md §4.7",
    technique="z3 (nonlinear real/integer arithmetic) via own symbolic execution of the real sampler closures with SYMBOLIC map width/height, symbolic lon/lat and uninterpreted map content",
    text="For every map shape nx, ny in [1, 10^6] (quick) / [1, 10^9] (thorough) — symbolic — and every real lon in the variant's principal range, lat in [-pi/2, pi/2] strictly inside a cell (1e-9 relative band excluded), z3 shows each of the five samplers returns data[row, col] of the containing cell, that lon + 2*pi*m (m in [-30, 30]) samples the same cell, that indices never leave the map (for every lon), and the output shape; the Galactic variant's rotation is uninterpreted and only its wiring (argument order) is checked.",
    note="floats as reals (np.pi = exact value of the double), numpy round/clip/%/astype as modelled by symnp (validated against real numpy on solver-chosen inputs each run); unknown solver answers are retried with other seeds and otherwise reported inconclusive.",
)

CHECKS["C16"] = dict(
    engine="E2-symx-symnp", ref="DESIGN.md §4.8",
    technique="z3 (QF_NRA polynomial identity) via own symbolic execution of the real parity functions on a symbolic linear WCS header; replays and vacuity twins run the same scenario with a genuine astropy WCS",
    text="For symbolic real CDELT/PC/CRPIX (any rotation, scale, skew, reference pixel, both starting parities, PC off-diagonals present or absent), symbolic height and pixel: parity sign = -sign(det CD); flip_parity negates it, reverses the rows, and CD'.((x+1, H-y) - CRPIX') = CD.((x+1, y+1) - CRPIX); ensure_negative_parity yields -1, keeps sky positions and is idempotent, also in an ensure / flip / ensure history on one object — for Image and ImageDescription. Unbounded over the reals (no size bound except height <= 4096 for the row claim).",
    note="astropy header<->WCS correspondence modelled by a stand-in (validated each run against real astropy via wcs_pix2world on solver-chosen numbers); non-linear distortions and float rounding outside.",
)

CHECKS["C06"] = dict(
    engine="E2-symx-symnp", ref="DESIGN.md §4.6",
    technique="z3 via own symbolic execution of the real sample_layer / ToastSampler.visit_callback / Pyramid.visit_leaves over an in-memory tile store; coordinate function and sampler uninterpreted, symbolic pixel",
    text="For every tile of the layer (depth 0-2 quick, 3 thorough; one path per tile), symbolic pixel/channel, both coordinate systems, clobber and update mode (arbitrary prior tile), npy/fits/png defaults and parity-changing format overrides, filtered mode with a symbolic level-1 mask: the sampler receives exactly the coordinate arrays computed from that tile's own corners, and the file under the tile's position holds the sampler's result in display orientation (rows reversed iff the stored format is bottom-up), merged by the C15 update semantics; one file per accepted leaf.",
    note="compiled subsample replaced by an uninterpreted coordinate function (C05 ties it to the geometry); sampler modelled as an arbitrary image per call with argument identity checked; codecs = identity; worker independence via C03. depth 0 is a recorded known finding.",
)
CHECKS["C09"] = dict(
    engine="E2-symx-symnp", ref="DESIGN.md §4.5",
    technique="z3 via own symbolic execution of the real MultiTanProcessor (global pixelisation, serial tiling, worker body) with symbolic input sizes / grid offsets / contents, witness-tile loop summary, in-memory tile store with locks",
    text="For 1-2 (thorough: 3) inputs of symbolic size and symbolic integer placement on the common grid (mosaic <= 2^10 / 2^13 px), all-bottom-up, all-top-down or mixed storage parity (CD-matrix headers), both input orders, serial body and worker body, fits and npy tiles: the width/height/CRPIX/levels handed to the builder are those of the assembled mosaic, the inspected (symbolic) deepest-level tile equals the study tile of the mosaic at a symbolic pixel with undefined pixels never overwriting defined ones, every lock is taken on that tile's own path and released, and the clean-up level equals the tile level.",
    note="integer offsets only; overlapping inputs agree where both defined; WCS stand-in as validated in C16; set_position_from_wcs (external) not executed; cross-process contention is C10.",
)
CHECKS["C12"] = dict(
    engine="E2-symx-symnp", ref="DESIGN.md §4.11",
    technique="z3 (linear real arithmetic over the concrete tile geometry) via own symbolic execution of the real toast_tile_for_point / containment score / _div4 with a symbolic point; inductive rule + cover obligations for every tile up to the depth bound",
    text="For every direction on the sphere (symbolic), both coordinate systems: the real level-1 selection returns a tile containing the point (lon + 2*pi*m likewise); one real loop iteration with symbolic scores picks the first zero-score child else the best; for EVERY tile of levels 1..D-1 (D = 4 quick, 6 thorough) the children produced by the real _div4 and scored by the real containment function cover the parent up to a 1e-12 rounding tolerance => by induction the depth-d tile contains the point; nesting cross-checked end-to-end to depth 2. toast_pixel_for_point: for every real tile of levels 1..3 (5 thorough) z3 looks for a documented query longitude in the tile's range that is more than pi away (as a number) from the tile's pixel longitudes; hits are replayed against the nearest pixel centre; on an affine pixel grid (where the exact least-squares solution is known in closed form) the real stamp / origin arithmetic around the fit returns the point's own fractional position for a nearest pixel anywhere in the tile, truncated stamps included.",
    note="Cartesian direction tied to longitude by sign facts of sin/cos only; concrete double geometry evaluated exactly; of the 2-pixel accuracy of toast_pixel_for_point only the longitude-branch consistency is decided (the least-squares fit itself is not encodable).",
)

CHECKS["C01"] = dict(
    engine="E3-bmc", ref="DESIGN.md §3.2",
    technique="z3 QF_BV bounded model checking of the walk protocol (dispatcher release table learned from the real loop, worker table and shutdown script extracted from the real code; schedule and tile liveness symbolic) + CrossHair/z3 one-step obligations for the serial walk",
    text="Parallel: for ALL schedules of dispatcher, feeder threads and 2 (thorough: 3) workers and ALL liveness patterns on three tree shapes (root+4 children; depth-3 slice with dispatcher-released intermediate parents; sub-pyramid apex), z3 shows every live non-leaf tile's callback runs exactly once and only after its live children's callbacks ended, no deadlock, and termination with walk() returned; the step bound is complete for each configuration. A receive time-out in the real dispatch loop is extracted to be a no-op (nothing released / flagged), on a pyramid with filter-accepted tiles that have no live child. Serial: inductive one-step obligations + end-to-end comparison with the post-order reference for symbolic filter masks.",
    note="multiprocessing = trusted model (bounded queues with feeder buffers, time-out only on an empty pipe, weak fairness); the learned dispatcher table is position-independent (checked at two positions); deeper trees by an abstraction argument (Appendix A-4).",
)
CHECKS["C03"] = dict(
    engine="E3-bmc", ref="DESIGN.md §3.3",
    technique="z3 QF_BV bounded model checking of each producer/worker stage (producer script and worker reaction table extracted from the real functions; schedule symbolic, complete bound) with deterministic-scheduler replay on the real code",
    text="For leaf visits, transforms, multi-TAN and multi-WCS tiling: for ALL interleavings of producer, feeder flushes, worker receives/time-outs/callbacks/exits with 1-2 items and 2 workers (thorough: up to 5 items, 3 workers) and the queue capacity the code passes, z3 shows the entry point returns only after every item's callback completed and every worker exited, each item is processed exactly once, no deadlock, termination; the work items the real producer's messages stand for (each message expanded by the REAL worker function, started with the arguments the real entry point gives it) are exactly the serial item set; a producer whose put() has a time-out offers the item again after queue.Full (extracted; a dropped item is confirmed by a directed schedule on the real code).",
    note="trusted model of multiprocessing; worker = memoryless loop inferred by exhaustive probing of the real function (fails closed); pipe order not modelled (over-approximation).",
)

CHECKS["C19"] = dict(
    engine="E3-bmc", ref="DESIGN.md §3.5",
    technique="z3 QF_BV bounded model checking of the C03 stage models and the C01 walk model with one symbolic failing callback (fault position and schedule are solver variables); failure detection extracted by running the real entry points against failing fake processes; replay with the failure injected",
    text="For all four producer/worker stages and the parallel walk, for ALL schedules and every position of a single failing callback, z3 shows the entry point terminates by raising: it neither returns normally with an incomplete result nor waits forever. Serial modes are executed and re-raise.",
    note="the worker's reaction to a raising callback is EXTRACTED from the real worker function (the exception leaves it = process dies non-zero; or it is swallowed and the worker exits 0 / keeps going / keeps going and exits non-zero) and modelled accordingly; trusted multiprocessing model; exactly one fault; detection points are where the real code reads exitcode / is_alive and raises.",
)

CHECKS["C10"] = dict(
    engine="E3-bmc", ref="DESIGN.md §3.4",
    technique="z3 QF_BV bounded model checking of N updaters following the step scripts extracted from the real update_image by symbolic execution over its environment (lock-file existence / age and the clock are symbolic: one script per environment answer; lock acquire/read/modify/write-begin/write-end/release, probes and unlinks of the lock file, lock path identity) + CrossHair on the lock path function",
    text="For ALL interleavings of 2 (thorough: 3) concurrent updaters of one tile, z3 shows the final tile holds every contribution, no updater reads between another's write-begin and write-end, and all finish; the lock-free variant of the same model is shown to lose an update (non-vacuity). What the real multi_tan / multi_wcs worker functions do to lock files outside update_image is extracted (nothing, on the unchanged tree); a worker that unlinks its tiles' locks when it runs out of work is model-checked with 3 workers and replayed through the real worker functions. CrossHair confirms the lock path depends on the position only (any format argument, both naming schemes) and differs between tiles.",
    note="SoftFileLock trusted as an atomic create-exclusive lock on a marker file; os.path / os.stat / time of toasty.pyramid are environment stubs during extraction (any file age is possible); writes modelled as two steps; replay runs the real update_image on real npy files and real marker files under the solver's interleaving and clock.",
)

CHECKS["C04"] = dict(
    engine="E4-decy-euf", ref="DESIGN.md §4.9",
    technique="z3: QF_NRA validity of the midpoint identity from the decythonised _mid; EUF (uninterpreted commutative midpoint) over the real _div4 / constructors for subdivision, neighbour induction step and route independence; level-1 table checked against the documented layout",
    text="Unbounded: mid(a,b) is the unit vector of A+B for all non-degenerate angle pairs (polynomial identity); _div4 children are the cells of the 3x3 midpoint grid with positions (2x+i,2y+j) and inherited orientation for symbolic corners; facing children of two edge-sharing tiles share the half edges for all 96 side/direction/orientation combinations. Bounded: the four construction routes give identical corner terms to depth 2 (3 thorough) and identical doubles to depth 4 (5); level-1 table = documented layout and seams, both coordinate systems.",
    note="angles only through sin/cos; equality of points not of 2*pi-shifted longitudes; tile areas (toast_tile_area) not decided; compiled extension validated against the .pyx (cannot be rebuilt here).",
)
CHECKS["C05"] = dict(
    engine="E4-decy-euf", ref="DESIGN.md §4.9",
    technique="z3 EUF: the decythonised recursive _subsample and the real toast._div4 executed on opaque points with an uninterpreted commutative midpoint; equality of all n x n centre terms",
    text="For symbolic tile corners and both diagonal orientations z3 shows the coordinate written at [row i, col j] of the n x n grid is the centre term of the descendant (2^k x + j, 2^k y + i) produced by the real _div4, for n = 1..16 (quick) and the real n = 256 (65 536 centres, thorough); over a 6-call history (same position with other corners / orientation, same corners elsewhere, deeper level) toast_tile_get_coords computes every call from the tile's own corners/orientation in the right order.",
    note="midpoint uninterpreted (its meaning is C04); points, not longitudes modulo 2*pi; the latitude-range sentence is trigonometric and not decided; compiled extension validated differentially.",
)
CHECKS["C17"] = dict(
    engine="E1-crosshair", ref="DESIGN.md §4.12",
    technique="CrossHair/z3 on the real PyramidIO path functions with symbolic decimal strings + z3 string theory for injectivity of the recorded URL template + execution of every FitsTiler.tile() directory history with the real WTML writer/parser",
    text="Expanding the template recorded by the real PyramidIO with symbolic (level, x, y) digit strings gives the path _tile_path writes (both schemes); z3 (strings) shows the expansion is injective on decimal strings <= 6 digits; Builder records '.'+format and scheme+format; toast_base records the depth; the real FitsTiler._tile_toast over collections of up to 3 images with symbolic per-image levels samples every input into one common layer and records that depth; all 6 histories (fresh / reused / override x TAN / TOAST) return a builder equal to the index_rel.wtml on disk.",
    note="WWT client's template expansion modelled ({1},{2},{3}); tiling work inside FitsTiler.tile() stubbed; tile_levels = deepest populated layer via C08/C09/C06.",
)

CHECKS["C07"] = dict(
    engine="E4-decy-euf", ref="DESIGN.md §4.10",
    technique="z3-backed symbolic execution (symx path exploration) of the decythonised _tile_intersects_latlon_bbox on real tile corners with a symbolic box and on fully symbolic corners under the stated tile hypothesis; of the real chunk-sampler closures with a symbolic sky point; and of the real WcsSampler._image_bounds with a symbolic affine WCS",
    text="For every real TOAST tile of levels 1..5 (thorough 1..7), both coordinate systems, and EVERY lat/lon box (symbolic origin, width up to 4pi, poles and wrap seam included) the bounding-box test accepts the tile whenever one of its selected pixel centres (or extreme pixel centres of its descendants two levels deeper) is in the box; under hypothesis H it does so for every corner configuration, every longitude order and wrap; the filter never writes to the tile; chunk filters get exactly the chunk rectangle, the chunk grid tiles the map and each chunk sampler accepts exactly the points of its own cells and reads the right cell, also when an arbitrary earlier request went through the same sampler closure (content model of its kept buffer) (all sky points, stated grids); _image_bounds contains the whole footprint for plate-carree WCSs with symbolic scales/parity/reference values at stated sizes and rotations, and for a latitude maximum at a symbolic interior pixel (quadratic, pole-like map) its refined maximum lies within one pixel of the extremum.",
    note="reals for doubles; H is an assumption about TOAST tile geometry (rejected H-configurations are reported only when a real tile reproduces them); pixel centres for the real-tile obligations are the grid corners, the centre and the latitude / longitude extremes of the real 256x256 grid; non-affine WCS projections (wcslib) are outside the claim; the compiled extension is validated against the .pyx (cannot be rebuilt here).",
)
