ENGINES = [
    {"name": "E1-crosshair", "path": "vlib/chx.py", "serves_properties": ["C13"],
     "kind_free_text": "CrossHair (z3) symbolic execution of harness conditions that call toasty's real functions; inductive cuts by stubbing recursive globals / the reducer; counterexamples replayed under plain CPython"},
]
NOTES = ("Solver-based checking of the real code. Exit 0 = all explored obligations held; inconclusive obligations are printed as INCONCLUSIVE and listed in evidence, never counted as held. "
         "Exit 2 = harness error. known_findings.json lists genuine defects (open / fixed).")
CHECKS["C13"] = dict(
    engine="E1-crosshair", ref="DESIGN.md §3.1",
    technique="CrossHair/z3 symbolic execution of the real position algebra, generators, reducer and counters (one-step inductive obligations + bounded end-to-end with symbolic filter masks)",
    text="Bounded symbolic execution: each obligation is confirmed over all paths by CrossHair/z3 for symbolic positions (unbounded ints for the algebra), symbolic filter verdicts and child results; one-step obligations cover any depth by induction, the end-to-end obligation cross-checks the composition to depth 1 (quick) / 2 (thorough).",
    note="CrossHair's int/list/tuple models; progress_bar/print stubbed; the induction gluing the one-step obligations is on paper (Appendix A-1..3); hashing symbolic Pos realises positions (enumerated within stated ranges).",
)
