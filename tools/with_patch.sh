#!/bin/bash
# usage: tools/with_patch.sh <patch.diff> <command...>   — apply a seeded change to /repo, run the command, always revert.
P="$1"; shift
git -C /repo diff --quiet || { echo "/repo has uncommitted changes; refusing" >&2; exit 3; }
git -C /repo apply "$P" || { echo "patch does not apply" >&2; exit 3; }
trap 'git -C /repo checkout -- . ' EXIT
"$@"
