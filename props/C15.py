"""C15 — undefined pixels stay undefined: mask semantics and tile persistence (E2: symx + symnp on the real code).

Real functions executed: Image.from_array, ImageMode.make_maskable_buffer, Image.fill_into_maskable_buffer,
Image.update_into_maskable_buffer, Image.clear, Image.is_completely_masked, Image._as_writeable_array,
PyramidIO.write_image, PyramidIO.read_image, PyramidIO.tile_path.
Symbolic: source image content and SHAPE, prior buffer content, the rectangle (forward slices and the reversed-row
slice form used by the tilers), the inspected pixel and channel.
"""
from vlib.core import soft_attr as core_u
import z3

import toasty.image as ti
import toasty.pyramid as tp
from toasty.image import Image, ImageMode
from toasty.pyramid import Pos, PyramidIO
from vlib import e2, symnp, symx
from vlib.symnp import FElem
from vlib.symx import I, SymInt

MODES = {
    "RGB": ("uint8", 3, "uint8", 4),
    "RGBA": ("uint8", 4, "uint8", 4),
    "F32": ("float32", 0, "float32", 0),
    "F64": ("float64", 0, "float64", 0),
    "F16x3": ("float16", 3, "float16", 3),
    "U8": ("uint8", 0, "uint8", 0),
    "I16": ("int16", 0, "int16", 0),
    "I32": ("int32", 0, "int32", 0),
}
FLOAT_MODES = ("F32", "F64", "F16x3")


def undefined_elem(mode):
    return symnp.nan_elem() if mode in FLOAT_MODES else z3.IntVal(0)


class FillUpdate(e2.Case):
    """fill / update of a symbolic rectangle, one image mode, forward or reversed row indexer."""

    def __init__(self, mode, op, reverse):
        self.mode, self.op, self.reverse = mode, op, reverse
        self.name = "%s-%s-%s" % (op, mode, "rev" if reverse else "fwd")
        self.max_paths = 600
        # if the code under test needs a rectangle bound as a concrete int (e.g. slice.indices()), explore two values
        # of it in full rather than enumerating all of them first (the obligation is then reported inconclusive)
        self.concretize_cap = 2

    def run(self, w):
        sdt, sch, bdt, bch = MODES[self.mode]
        SH = w.int("SH", 1, 4096)
        SW = w.int("SW", 1, 4096)
        w.prefer(symx.B(SH <= 300) & symx.B(SW <= 300) if w.symbolic else True)
        shape = (SH, SW) + ((sch,) if sch else ())
        lo = 0 if self.mode in ("I16", "I32") else None     # the property speaks of non-negative integer data
        src = w.array("src", shape, sdt, lo=lo)
        h = w.int("h", 1, 256)
        wd = w.int("wd", 1, 256)
        iy0 = w.int("iy0", 0)
        ix0 = w.int("ix0", 0)
        by0 = w.int("by0", 0)
        bx0 = w.int("bx0", 0)
        w.assume(iy0 + h <= SH)
        w.assume(ix0 + wd <= SW)
        w.assume(by0 + h <= 256)
        w.assume(bx0 + wd <= 256)
        old = w.array("old", (256, 256) + ((bch,) if bch else ()), bdt, lo=lo)
        with w.patched(ti):
            img = Image.from_array(src)
            buf = ImageMode(MODE_ENUM[self.mode]).make_maskable_buffer(256, 256)
            buf.asarray()[...] = old
            iy_idx = slice(iy0, iy0 + h)
            ix_idx = slice(ix0, ix0 + wd)
            bx_idx = slice(bx0, bx0 + wd)
            if self.reverse:
                y1 = by0 + h - 1
                y0 = y1 - h
                if y0 == -1:
                    y0 = None
                by_idx = slice(y1, y0, -1)
            else:
                by_idx = slice(by0, by0 + h)
            if self.op == "fill":
                img.fill_into_maskable_buffer(buf, iy_idx, ix_idx, by_idx, bx_idx)
            else:
                img.update_into_maskable_buffer(buf, iy_idx, ix_idx, by_idx, bx_idx)
            out = buf.asarray()
        return dict(out=out, src=src, old=old, geo=(iy0, ix0, by0, bx0, h, wd), mode_out=buf.mode.name)

    def claims(self, w, outs):
        sdt, sch, bdt, bch = MODES[self.mode]
        out, src, old = outs["out"], outs["src"], outs["old"]
        iy0, ix0, by0, bx0, h, wd = outs["geo"]
        r = w.int("r", 0, 255)
        c = w.int("c", 0, 255)
        idx = (r, c)
        if bch:
            ch = w.int("ch", 0, bch - 1)
            idx = (r, c, ch)
        inrect = z3.And(I(r) >= I(by0), I(r) < I(by0 + h), I(c) >= I(bx0), I(c) < I(bx0 + wd))
        if self.reverse:
            sr = iy0 + (by0 + h - 1 - r)
        else:
            sr = iy0 + (r - by0)
        sc = ix0 + (c - bx0)
        got = out.get(idx)
        oldv = old.get(idx)
        undef = undefined_elem(self.mode)

        def srcv(k=None):
            if sch:
                return src.get((sr, sc, I(ch) if k is None else k))
            return src.get((sr, sc))

        m = self.mode
        if self.op == "fill":
            if m == "RGB":
                inside = symnp.elem_ite(I(ch) == 3, z3.IntVal(255), src.get((sr, sc, z3.If(I(ch) == 3, 0, I(ch)))))
            else:
                inside = srcv()
            want = symnp.elem_ite(inrect, inside, undef)
        else:
            if m == "RGB":
                want = symnp.elem_ite(inrect, symnp.elem_ite(I(ch) == 3, z3.IntVal(255), src.get((sr, sc, z3.If(I(ch) == 3, 0, I(ch))))), oldv)
            elif m == "RGBA":
                defined = src.get((sr, sc, z3.IntVal(3))) != 0
                want = symnp.elem_ite(z3.And(inrect, defined), srcv(), oldv)
            elif m in ("F32", "F64"):
                sv = srcv()
                want = symnp.elem_ite(z3.And(inrect, z3.Not(sv.nan)), sv, oldv)
            elif m == "F16x3":
                anynan = z3.Or(*[src.get((sr, sc, z3.IntVal(k))).nan for k in range(3)])
                want = symnp.elem_ite(z3.And(inrect, z3.Not(anynan)), srcv(), oldv)
            else:
                sv = srcv()
                want = symnp.elem_ite(inrect, z3.If(oldv >= sv, oldv, sv), oldv)
        w.claim_eq("pixel", got, want, probe=("out", idx),
                   what="%s into maskable buffer (%s, %s rows): pixel semantics" % (self.op, m, "reversed" if self.reverse else "forward"))
        w.claim("buffer-mode", outs["mode_out"] == ("RGBA" if m == "RGB" else m), probe=lambda ro, val: ro["mode_out"] == ("RGBA" if m == "RGB" else m))


class FillPoints(e2.Case):
    """fill from paired integer index ARRAYS (one source point per destination point) — the form ChunkedPlateCarreeSampler
    passes (iy[ok], ix[ok], biy[ok], bix[ok]). N points with symbolic, pairwise distinct destinations."""

    N = 3

    def __init__(self, mode):
        self.mode = mode
        self.name = "fill-points-%s" % mode
        self.max_paths = 200

    def run(self, w):
        sdt, sch, bdt, bch = MODES[self.mode]
        SH = w.int("SH", 1, 4096)
        SW = w.int("SW", 1, 4096)
        w.prefer(symx.B(SH <= 300) & symx.B(SW <= 300) if w.symbolic else True)
        shape = (SH, SW) + ((sch,) if sch else ())
        lo = 0 if self.mode in ("I16", "I32") else None
        src = w.array("src", shape, sdt, lo=lo)
        n = self.N
        iy = w.array("iy", (n,), "int64", lo=0, hi=4095)
        ix = w.array("ix", (n,), "int64", lo=0, hi=4095)
        by = w.array("by", (n,), "int64", lo=0, hi=255)
        bx = w.array("bx", (n,), "int64", lo=0, hi=255)
        if w.symbolic:
            for k in range(n):
                w.assume(symx.B(iy.get((k,)) < I(SH)) & symx.B(ix.get((k,)) < I(SW)))
                for j in range(k):
                    w.assume(symx.B(z3.Or(by.get((k,)) != by.get((j,)), bx.get((k,)) != bx.get((j,)))))
        old = w.array("old", (256, 256) + ((bch,) if bch else ()), bdt, lo=lo)
        with w.patched(ti):
            img = Image.from_array(src)
            buf = ImageMode(MODE_ENUM[self.mode]).make_maskable_buffer(256, 256)
            buf.asarray()[...] = old
            img.fill_into_maskable_buffer(buf, iy, ix, by, bx)
            out = buf.asarray()
        return dict(out=out, src=src, old=old, pts=(iy, ix, by, bx), mode_out=buf.mode.name)

    def claims(self, w, outs):
        sdt, sch, bdt, bch = MODES[self.mode]
        out, src = outs["out"], outs["src"]
        iy, ix, by, bx = outs["pts"]
        r = w.int("r", 0, 255)
        c = w.int("c", 0, 255)
        idx = (r, c)
        ch = None
        if bch:
            ch = w.int("ch", 0, bch - 1)
            idx = (r, c, ch)
        want = undefined_elem(self.mode)
        for k in range(self.N):
            sr, sc = iy.get((k,)), ix.get((k,))
            if self.mode == "RGB":
                inside = symnp.elem_ite(I(ch) == 3, z3.IntVal(255), src.get((sr, sc, z3.If(I(ch) == 3, 0, I(ch)))))
            elif sch:
                inside = src.get((sr, sc, I(ch)))
            else:
                inside = src.get((sr, sc))
            want = symnp.elem_ite(z3.And(by.get((k,)) == I(r), bx.get((k,)) == I(c)), inside, want)
        w.claim_eq("pixel", out.get(idx), want, probe=("out", idx),
                   what="fill into maskable buffer (%s) from paired index arrays: exactly the addressed points defined, with the source values" % self.mode)


MODE_ENUM = {"RGB": "RGB", "RGBA": "RGBA", "F32": "F", "F64": "D", "F16x3": "F16x3", "U8": "U8", "I16": "I16", "I32": "I32"}


class ClearAndMasked(e2.Case):
    """clear() makes every pixel undefined; is_completely_masked() <=> every pixel undefined (per mode's definition)."""

    def __init__(self, mode):
        self.mode = mode
        self.name = "clear-masked-%s" % mode
        self.max_paths = 16

    def run(self, w):
        sdt, sch, bdt, bch = MODES[self.mode]
        if self.mode == "RGB":
            bch = 3
        content = w.array("content", (256, 256) + ((bch,) if bch else ()), bdt)
        pr = w.int("pr", 0, 255)
        pc = w.int("pc", 0, 255)
        if w.symbolic:
            w.pixel(pr, pc)
            for k in range(bch):
                w.pixel(pr, pc, k)
        with w.patched(ti):
            if self.mode == "RGB":
                buf = Image.from_array(w.np.empty((256, 256, 3), dtype=w.np.uint8))
            else:
                buf = ImageMode(MODE_ENUM[self.mode]).make_maskable_buffer(256, 256)
            arr = buf.asarray()
            arr[...] = content
            masked_arbitrary = buf.is_completely_masked()
            snap = arr.copy()
            masked_alpha0 = None
            if self.mode == "RGBA":
                # every pixel undefined by the mode's definition (alpha 0) while the colour bytes are arbitrary
                arr[:, :, 3] = 0
                masked_alpha0 = buf.is_completely_masked()
            buf.clear()
            cleared = buf.asarray().copy()
            masked_after_clear = buf.is_completely_masked()
            # define exactly one pixel
            if bch:
                arr[pr, pc, :] = 7
            else:
                arr[pr, pc] = 7
            masked_one_defined = buf.is_completely_masked()
        return dict(cleared=cleared, snap=snap, m0=masked_arbitrary, m1=masked_after_clear, m2=masked_one_defined, m3=masked_alpha0, p=(pr, pc))

    def claims(self, w, outs):
        m = self.mode
        sdt, sch, bdt, bch = MODES[m]
        bch = 3 if m == "RGB" else bch
        r = w.int("r", 0, 255)
        c = w.int("c", 0, 255)
        idx = (r, c)
        if bch:
            ch = w.int("ch", 0, bch - 1)
            idx = (r, c, ch)
        w.pixel(*idx)
        pr, pc = outs["p"]
        if bch:
            w.pixel(r, c)
            w.pixel(pr, pc)
            for k in range(bch):
                w.pixel(pr, pc, k)
        else:
            w.pixel(pr, pc)
        w.claim_eq("clear-pixel", outs["cleared"].get(idx), undefined_elem(m), probe=("cleared", idx),
                   what="clear(): every pixel becomes the mode's undefined value (%s)" % m)
        sig = "image.py:is_completely_masked:integer-modes-never-masked" if m in ("U8", "I16", "I32") else None
        what_int = ("Image.is_completely_masked() returns False for an all-zero %s tile although zero means undefined for integer data, "
                    "so PyramidIO.write_image stores all-undefined integer tiles" % m)
        w.claim("masked-after-clear", symx.B(outs["m1"]) == (m != "RGB"), probe=lambda ro, val: bool(ro["m1"]) == (m != "RGB"),
                sig=sig, what=what_int if sig else "is_completely_masked() must be True right after clear() (%s)" % m)
        if m == "RGBA":
            w.claim("masked-when-every-alpha-is-zero", symx.B(outs["m3"]), probe=lambda ro, val: bool(ro["m3"]),
                    what="is_completely_masked() must be True for an RGBA tile whose pixels all have alpha 0, whatever the colour bytes hold")
        w.claim("not-masked-with-one-defined-pixel", z3.Not(symx.B(outs["m2"])), probe=lambda ro, val: not bool(ro["m2"]),
                what="is_completely_masked() must be False when a pixel is defined (%s)" % m)
        # arbitrary content: masked  ==>  the inspected pixel is undefined
        e = outs["snap"].get(idx)
        if m in FLOAT_MODES:
            und = e.nan
        elif m == "RGBA":
            und = outs["snap"].get((r, c, z3.IntVal(3))) == 0
        elif m == "RGB":
            und = z3.BoolVal(False)
        else:
            und = e == 0
        w.claim("masked-implies-pixel-undefined", z3.Implies(symx.B(outs["m0"]), und),
                probe=lambda ro, val: True, what="is_completely_masked() True although a pixel is defined (%s)" % m)


class WriteRead(e2.Case):
    """write_image unlinks iff completely masked (any prior file state), else saves; read_image default handling."""

    def __init__(self, mode, fmt="none"):
        """fmt: 'none' (format=None), 'same' (format = the pyramid's default, explicitly), 'other' (a format override
        different from the pyramid's default: the file concerned is the one in the OVERRIDE format)."""
        self.mode = mode
        self.fmt = fmt
        self.name = "write-read-%s%s" % (mode, "" if fmt == "none" else "-format-" + fmt)
        self.max_paths = 128

    def _formats(self):
        default = "npy" if self.mode not in ("RGB", "RGBA") else "png"
        other = "fits" if default == "npy" else "jpg"
        arg = {"none": None, "same": default, "other": other}[self.fmt]
        return default, arg, (arg or default)

    def run(self, w):
        m = self.mode
        sdt, sch, bdt, bch = MODES[m]
        bch = 3 if m == "RGB" else bch
        default_fmt, fmt_arg, eff_fmt = self._formats()
        exp_path = "/base/3/2/2_5." + eff_fmt
        other_path = "/base/3/2/2_5." + ("fits" if eff_fmt == "npy" else "npy" if eff_fmt == "fits" else "jpg" if eff_fmt == "png" else "png")
        content = w.array("content", (256, 256) + ((bch,) if bch else ()), bdt)
        prior_exists = w.bool("prior_exists")
        prior_other = w.bool("prior_other")
        all_undefined = w.bool("all_undefined")
        pr = w.int("pr", 0, 255)
        pc = w.int("pc", 0, 255)
        if w.symbolic:
            w.pixel(pr, pc)
            for k in range(bch):
                w.pixel(pr, pc, k)
        events = []
        files = {exp_path: prior_exists if w.symbolic else bool(prior_exists), other_path: prior_other if w.symbolic else bool(prior_other)}

        class FakeOS:
            path = tp.os.path

            @staticmethod
            def makedirs(p, exist_ok=False):
                events.append(("makedirs", p))

            @staticmethod
            def unlink(p):
                events.append(("unlink", p))
                if not files.get(p, False):
                    raise FileNotFoundError(2, "No such file", p)
                files[p] = False

        saved_os = tp.os
        saved_save = Image.save
        saved_loader = tp.ImageLoader

        def fake_save(self_img, path, format=None, mode=None, min_value=None, max_value=None):
            events.append(("save", path, format))
            files[path] = True

        err = {"errno": 2}

        class FakeLoader:
            def load_path(self, p):
                events.append(("load", p))
                if files.get(p, False):
                    return "IMAGE"
                if err["errno"] == 2:
                    raise FileNotFoundError(2, "No such file", p)
                raise PermissionError(13, "Permission denied", p)

        tp.os = FakeOS
        Image.save = fake_save
        tp.ImageLoader = FakeLoader
        try:
            with w.patched(ti):
                pio = PyramidIO("/base", default_format=default_fmt)
                if m == "RGB":
                    buf = Image.from_array(w.np.empty((256, 256, 3), dtype=w.np.uint8))
                else:
                    buf = ImageMode(MODE_ENUM[m]).make_maskable_buffer(256, 256)
                buf.asarray()[...] = content
                if all_undefined:
                    buf.clear()
                else:
                    # at least one defined pixel (value 7 / alpha 7) somewhere
                    if bch:
                        buf.asarray()[pr, pc, :] = 7
                    else:
                        buf.asarray()[pr, pc] = 7
                pos = Pos(3, 5, 2)
                if fmt_arg is None:
                    pio.write_image(pos, buf)
                else:
                    pio.write_image(pos, buf, format=fmt_arg)
                wrote = list(events)
                exists_after = files[exp_path]
                other_after = files[other_path]
                del events[:]
                # read-back behaviour on the resulting state
                got_none = pio.read_image(pos, default="none", format=fmt_arg)
                got_masked = pio.read_image(pos, default="masked", masked_mode=buf.mode, format=fmt_arg)
                try:
                    pio.read_image(pos, default="bogus", format=fmt_arg)
                    bogus = "returned"
                except ValueError:
                    bogus = "ValueError"
                try:
                    pio.read_image(pos, default="masked", format=fmt_arg)
                    nomode = "returned"
                except ValueError:
                    nomode = "ValueError"
                err["errno"] = 13
                try:
                    pio.read_image(pos, default="none", format=fmt_arg)
                    perm = "returned"
                except PermissionError:
                    perm = "PermissionError"
                masked_arr = None
                masked_mode = None
                second_arr = None
                first_events = None
                if got_masked is not None and got_masked != "IMAGE":
                    masked_arr = got_masked.asarray()
                    masked_mode = got_masked.mode.name
                    # a HISTORY through the same PyramidIO: the blank tile just handed out is filled by its user (as the
                    # samplers / tilers do), then ANOTHER missing tile is requested: it must be blank again
                    masked_arr = masked_arr.copy() if hasattr(masked_arr, "copy") else masked_arr
                    first_events = list(events)
                    err["errno"] = 2
                    wa = got_masked._as_writeable_array()
                    if bch:
                        wa[pr, pc, :] = 7
                    else:
                        wa[pr, pc] = 7
                    second = pio.read_image(Pos(3, 6, 2), default="masked", masked_mode=buf.mode, format=fmt_arg)
                    second_arr = second.asarray() if second is not None and second != "IMAGE" else None
        finally:
            tp.os = saved_os
            Image.save = saved_save
            tp.ImageLoader = saved_loader
        kinds = [e[0] for e in wrote if e[0] != "makedirs"]
        paths = [e[1] for e in wrote if e[0] != "makedirs"]
        load_paths = [e[1] for e in (first_events if first_events is not None else events) if e[0] == "load"]
        return dict(kinds=kinds, paths=paths, exists_after=exists_after, got_none=got_none, got_masked=got_masked,
                    bogus=bogus, nomode=nomode, perm=perm, masked_arr=masked_arr, masked_mode=masked_mode,
                    all_undefined=all_undefined, prior=prior_exists, prior_other=prior_other, other_after=other_after,
                    load_paths=load_paths, exp_path=exp_path, second_arr=second_arr)

    def claims(self, w, outs):
        m = self.mode
        can_mask = m != "RGB"
        # python-level facts of this path (all_undefined / prior_exists were decided by the explorer)
        au_c = _pybool(outs["all_undefined"])
        exp_path = outs["exp_path"]
        sig = None
        what = "write_image(format=%r): unlink the tile file iff the image is completely masked, otherwise save it there (%s)" % (self._formats()[1], m)
        if au_c and can_mask:
            ok = outs["kinds"] == ["unlink"] and outs["paths"] == [exp_path] and _pybool(outs["exists_after"]) is False
        else:
            ok = outs["kinds"] == ["save"] and outs["paths"] == [exp_path] and _pybool(outs["exists_after"]) is True
        w.claim("write-unlinks-iff-all-undefined", ok, probe=lambda ro, val: _wr_ok(ro, m), sig=sig, what=what)
        w.claim("write-leaves-the-other-format-alone", _pybool(outs["other_after"]) == _pybool(outs["prior_other"]),
                probe=lambda ro, val: bool(ro["other_after"]) == bool(ro["prior_other"]),
                what="write_image(format=%r) touched the tile file of another format (%s)" % (self._formats()[1], m))
        w.claim("read-uses-the-requested-format", set(outs["load_paths"]) <= {exp_path},
                probe=lambda ro, val: set(ro["load_paths"]) <= {ro["exp_path"]}, what="read_image(format=%r) opened %r" % (self._formats()[1], outs["load_paths"]))
        exists = _pybool(outs["exists_after"])
        ok2 = (outs["got_none"] == "IMAGE") if exists else (outs["got_none"] is None)
        ok2 = ok2 and outs["bogus"] == ("returned" if exists else "ValueError")
        ok2 = ok2 and outs["nomode"] == ("returned" if exists else "ValueError")
        ok2 = ok2 and outs["perm"] == ("returned" if exists else "PermissionError")
        ok2 = ok2 and ((outs["got_masked"] == "IMAGE") if exists else (outs["masked_arr"] is not None))
        w.claim("read-default-handling", ok2, probe=lambda ro, val: _rd_ok(ro), what="read_image default handling (%s)" % m)
        if not exists:
            sdt, sch, bdt, bch = MODES[m]
            bch = 4 if m == "RGB" else bch
            r = w.int("r", 0, 255)
            c = w.int("c", 0, 255)
            idx = (r, c) + ((w.int("ch", 0, bch - 1),) if bch else ())
            w.claim_eq("missing-reads-as-all-undefined", outs["masked_arr"].get(idx), undefined_elem(m), probe=("masked_arr", idx),
                       what="read_image(default='masked') of a missing tile must be all-undefined (%s)" % m)
            if outs["second_arr"] is not None:
                w.claim_eq("next-missing-tile-is-blank-again", outs["second_arr"].get(idx), undefined_elem(m), probe=("second_arr", idx),
                           what="after the blank tile handed out for one missing position was filled, read_image(default='masked') of ANOTHER missing tile is not all-undefined (%s)" % m)
            else:
                w.claim("next-missing-tile-is-blank-again", False, probe=lambda ro, val: ro["second_arr"] is not None, what="second missing tile not handed out as a blank tile")
            w.claim("missing-reads-with-requested-mode", outs["masked_mode"] == ("RGBA" if m == "RGB" else m),
                    probe=lambda ro, val: ro["masked_mode"] == ("RGBA" if m == "RGB" else m))


def _pybool(v):
    if isinstance(v, symx.SymBool):
        return bool(v)
    return bool(v)


def _wr_ok(ro, m):
    exp_path = ro["exp_path"]
    if ro["all_undefined"] and m != "RGB":
        return ro["kinds"] == ["unlink"] and ro["paths"] == [exp_path] and not ro["exists_after"]
    return ro["kinds"] == ["save"] and ro["paths"] == [exp_path] and bool(ro["exists_after"])


def _rd_ok(ro):
    exists = bool(ro["exists_after"])
    ok2 = (ro["got_none"] == "IMAGE") if exists else (ro["got_none"] is None)
    ok2 = ok2 and ro["bogus"] == ("returned" if exists else "ValueError")
    ok2 = ok2 and ro["nomode"] == ("returned" if exists else "ValueError")
    ok2 = ok2 and ro["perm"] == ("returned" if exists else "PermissionError")
    ok2 = ok2 and ((ro["got_masked"] == "IMAGE") if exists else (ro["masked_arr"] is not None))
    return ok2


def cases(tier):
    out = []
    for mode in MODES:
        for op in ("fill", "update"):
            for rev in (False, True):
                out.append(FillUpdate(mode, op, rev))
        out.append(FillPoints(mode))
        out.append(ClearAndMasked(mode))
        out.append(WriteRead(mode))
        out.append(WriteRead(mode, "same"))
        out.append(WriteRead(mode, "other"))
    return out


def check(run):
    run.outside("update_into_maskable_buffer with paired index ARRAYS: not a rectangle indexer and no caller passes one (the real function then updates a temporary copy, i.e. does nothing)")
    run.uses(ti.Image.from_array, ti.ImageMode.make_maskable_buffer, ti.Image.fill_into_maskable_buffer,
             ti.Image.update_into_maskable_buffer, ti.Image.clear, ti.Image.is_completely_masked,
             core_u(ti.Image, "_as_writeable_array"), tp.PyramidIO.write_image, tp.PyramidIO.read_image, tp.PyramidIO.tile_path)
    run.bound(modes="all 8", source_shape="symbolic 1..4096 x 1..4096", rectangle="symbolic, 1..256 x 1..256, anywhere inside source and buffer; forward and reversed-row slice forms; fill also from paired index arrays of 3 points (symbolic positions, distinct destinations: the chunk sampler's form)",
              pixel="symbolic (r, c, channel) of the 256x256 buffer", prior_buffer="arbitrary (uninterpreted)", file_history="prior file present / absent (symbolic)")
    run.assume("numpy semantics as modelled by vlib/symnp.py (validated per run against real numpy on solver-chosen inputs: *.conformance obligations)",
               "floats are reals plus a NaN flag (no infinities, no rounding)", "integer data non-negative for I16/I32 (the property speaks of non-negative values)",
               "os / Image.save / ImageLoader replaced by recording fakes in the write/read obligations")
    run.outside("bit-exact read-back through the PNG / FITS / npy codecs (C libraries; not symbolic)")
    from vlib.e2 import run_case
    e2.run_cases_parallel(run, __name__)
