"""C17 — the WTML and the returned data-set description match the files on disk (E1: CrossHair on the real code)."""
from vlib.core import soft_attr as core_u
import os

import toasty.builder as tb
import toasty.fits_tiler as tft
import toasty.pyramid as tp
from vlib import chx

HARNESS = os.path.join(os.path.dirname(__file__), "chx_C17.py")
QUICK = [("chk_template_matches_path_lyyx", 170, {"quiet": True}), ("chk_template_matches_path_lxy", 170, {"quiet": True}), ("chk_tile_path_renders_position", 170),
         ("chk_builder_records_pio", 40), ("chk_toast_base_records_depth", 90), ("chk_toast_tiler_levels", 200)]
THOROUGH = [(c[0], c[1] * 4) + tuple(c[2:]) for c in QUICK]


def template_injective(run, scheme):
    """z3 (strings): the WWT expansion of the template the REAL PyramidIO records is injective on decimal renderings."""
    import time
    import z3
    pio = tp.PyramidIO("/base", scheme=scheme, default_format="png")
    template = pio.get_path_scheme() + ".png"
    digits = z3.Plus(z3.Range("0", "9"))
    names = {}

    def expand(tag):
        parts = []
        rest = template
        while rest:
            k = min([rest.find(ph) for ph in ("{1}", "{2}", "{3}") if rest.find(ph) >= 0] or [-1])
            if k < 0:
                parts.append(z3.StringVal(rest))
                break
            if k > 0:
                parts.append(z3.StringVal(rest[:k]))
            ph = rest[k:k + 3]
            v = z3.String("%s_%s" % (tag, ph[1]))
            names[(tag, ph[1])] = v
            parts.append(v)
            rest = rest[k + 3:]
        return z3.Concat(*parts) if len(parts) > 1 else parts[0]

    e1, e2 = expand("a"), expand("b")
    s = z3.Solver()
    s.set("timeout", 120000)
    for v in names.values():
        s.add(z3.InRe(v, digits), z3.Length(v) <= 6)
    if not all((t, k) in names for t in "ab" for k in "123"):
        run.violation("template-injective[%s]" % scheme, "pyramid.py:template-lacks-placeholder:%s" % scheme, "URL template %r does not use all of level, x and y" % template,
                      "raise SystemExit(1)\n", "E1:z3-strings")
        return
    s.add(e1 == e2, z3.Or(*[names[("a", k)] != names[("b", k)] for k in "123"]))
    t0 = time.time()
    r = str(s.check())
    dt = time.time() - t0
    nm = "template-injective[%s]" % scheme
    if r == "unsat":
        run.ob(nm, "unsat", "E1:z3-strings", "expansion of %r is injective on decimal strings of <= 6 digits" % template, queries=1, solver_s=dt)
    elif r == "sat":
        m = s.model()
        a = [m.eval(names[("a", k)]).as_string() for k in "123"]
        b = [m.eval(names[("b", k)]).as_string() for k in "123"]
        from toasty.pyramid import Pos as _Pos
        pa = pio.tile_path(_Pos(int(a[0]), int(a[1]), int(a[2])), makedirs=False)
        pb = pio.tile_path(_Pos(int(b[0]), int(b[1]), int(b[2])), makedirs=False)
        if pa == pb:
            run.violation(nm, "pyramid.py:tile-path-collision:%s" % scheme, "distinct positions %r and %r are written to the same path %s" % (a, b, pa),
                          "import sys\nfrom toasty.pyramid import PyramidIO\np = PyramidIO('/base', scheme=%r, default_format='png')\nfrom toasty.pyramid import Pos\nsys.exit(1 if p.tile_path(Pos(*map(int, %r)), makedirs=False) == p.tile_path(Pos(*map(int, %r)), makedirs=False) else 0)\n" % (scheme, a, b), "E1:z3-strings")
        else:
            run.error(nm, "template collision %r / %r does not reproduce on the real paths" % (a, b))
    else:
        run.ob(nm, "inconclusive", "E1:z3-strings", "solver %s" % r, queries=1, solver_s=dt)


def reuse_histories(run):
    """Every history of FitsTiler.tile() calls on one output directory (finite: fresh / repeated / repeated with
    override, TAN / TOAST): executed for real (real WTML writer and parser, scratch directory)."""
    import importlib.util
    spec = importlib.util.spec_from_file_location("chx_C17_exec", HARNESS)
    mod = importlib.util.module_from_spec(spec)
    spec.loader.exec_module(mod)
    for toast in (False, True):
        for lv1, lv2 in ((1, 2), (3, 0)):
            nm = "reuse-long-history[%s,%d->%d]" % ("TOAST" if toast else "TAN", lv1, lv2)
            try:
                ok = mod.chk_reuse_long_history(toast, lv1, lv2)
                err = None
            except Exception as e:
                ok, err = False, "%s: %s" % (type(e).__name__, e)
            if ok:
                run.ob(nm, "confirmed", "execution", "fresh, reuse, override with a changed input, reuse: the returned builder == index_rel.wtml after every call")
                run.replays += 1
            else:
                run.violation(nm, "fits_tiler.py:FitsTiler.tile:%s" % nm, "FitsTiler.tile() over the history fresh / reuse / override with a changed input / reuse: a returned builder disagrees with the index_rel.wtml in the directory%s" % ((" -- " + err) if err else ""),
                              "import sys\nsys.path.insert(0, %r)\nimport importlib.util\nspec = importlib.util.spec_from_file_location('h', %r)\nh = importlib.util.module_from_spec(spec); spec.loader.exec_module(h)\n"
                              "sys.exit(0 if h.chk_reuse_long_history(%r, %r, %r) else 1)\n" % (str(__import__("vlib.core").core.VERIF), HARNESS, toast, lv1, lv2), "execution")
    for toast in (False, True):
        for history in (0, 1, 2):
            for levels in (0, 4):
                nm = "reuse-history[%s,%s,levels=%d]" % ("TOAST" if toast else "TAN", ["fresh", "reused", "override"][history], levels)
                try:
                    ok = mod.chk_reuse_history(toast, history, levels)
                    err = None
                except Exception as e:
                    ok, err = False, "%s: %s" % (type(e).__name__, e)
                if ok:
                    run.ob(nm, "confirmed", "execution", "returned builder == index_rel.wtml (tile levels, URL, file type, astrometry)")
                    run.replays += 1
                else:
                    sig = "fits_tiler.py:FitsTiler.tile:reuse-returns-unpopulated-builder" if history == 1 else "fits_tiler.py:FitsTiler.tile:%s" % nm
                    run.violation(nm, sig, "FitsTiler.tile(): the returned builder disagrees with the index_rel.wtml in the output directory (%s)%s" % (nm, (" -- " + err) if err else ""),
                                  "import sys\nsys.path.insert(0, %r)\nimport importlib.util\nspec = importlib.util.spec_from_file_location('h', %r)\nh = importlib.util.module_from_spec(spec); spec.loader.exec_module(h)\n"
                                  "sys.exit(0 if h.chk_reuse_history(%r, %r, %r) else 1)\n" % (str(__import__("vlib.core").core.VERIF), HARNESS, toast, history, levels), "execution")


def cases(tier):
    """E2 cases: the study tiler stores its tiles in the PyramidIO's default format (= the recorded FileType / Url
    extension) even when the input image carries another default format; the stored pixel content is checked too."""
    from props import C08
    return [C08.TileImage(tier, "F32", "fits", False, imgfmt="npy"), C08.TileImage(tier, "F32", "npy", False, imgfmt="fits")]


def check(run):
    run.uses(tp.PyramidIO.__init__, tp.PyramidIO.tile_path, core_u(tp.PyramidIO, "_tile_path_LsYsYX"), core_u(tp.PyramidIO, "_tile_path_LXY"), tp.PyramidIO.get_path_scheme,
             tb.Builder.__init__, tb.Builder.toast_base, tb.Builder.write_index_rel_wtml, tb.Builder.create_wtml_folder, tft.FitsTiler.tile, core_u(tft.FitsTiler, "_tile_toast"))
    run.bound(fields="level / x / y as decimal strings of <= 2 digits (symbolic strings); positions n <= 12 for the integer rendering", schemes="L/Y/YX and LXY", formats="png, jpg, npy, fits",
              histories="fresh, repeated, repeated with override x TAN / TOAST; the four-call history fresh / reuse / override with a changed input / reuse in one process",
              study_tile_format="symbolic image sizes / pixels (as C08), image default format != pyramid default format")
    run.assume("the WWT client expands a URL template by substituting {1} -> level, {2} -> x, {3} -> y (modelled)",
               "the tiling work inside FitsTiler.tile() is replaced by a stub that populates the builder as the real methods do; the WTML is written and parsed by the real wwt_data_formats code in a scratch directory",
               "tile_levels = depth of the deepest populated layer is established by C08 / C09 / C06 for the study, multi-TAN and TOAST writers")
    run.outside("the WWT client's real template expansion", "HiPS output (external hipsgen tool)", "the pipeline workflows' WTML (same Builder code)")
    chx.run_conditions(run, HARNESS, THOROUGH if run.tier == "thorough" else QUICK)
    for scheme in ("L/Y/YX", "LXY"):
        template_injective(run, scheme)
    reuse_histories(run)
    from vlib import e2
    e2.run_cases_parallel(run, __name__)
