"""C17 — the WTML and the returned data-set description match the files on disk (E1: CrossHair on the real code)."""
import os

import toasty.builder as tb
import toasty.fits_tiler as tft
import toasty.pyramid as tp
from vlib import chx

HARNESS = os.path.join(os.path.dirname(__file__), "chx_C17.py")
QUICK = [("chk_template_matches_path", 170), ("chk_tile_path_renders_position", 170), ("chk_distinct_positions_distinct_paths", 170),
         ("chk_builder_records_pio", 40), ("chk_toast_base_records_depth", 90), ("chk_reuse_history", 170)]
THOROUGH = [(n, t * 6) for n, t in QUICK]


def check(run):
    run.uses(tp.PyramidIO.__init__, tp.PyramidIO.tile_path, tp.PyramidIO._tile_path_LsYsYX, tp.PyramidIO._tile_path_LXY, tp.PyramidIO.get_path_scheme,
             tb.Builder.__init__, tb.Builder.toast_base, tb.Builder.write_index_rel_wtml, tb.Builder.create_wtml_folder, tft.FitsTiler.tile)
    run.bound(fields="level / x / y as decimal strings of <= 2 digits (symbolic strings); positions n <= 12 for the integer rendering", schemes="L/Y/YX and LXY", formats="png, jpg, npy, fits",
              histories="fresh, repeated, repeated with override x TAN / TOAST")
    run.assume("the WWT client expands a URL template by substituting {1} -> level, {2} -> x, {3} -> y (modelled)",
               "the tiling work inside FitsTiler.tile() is replaced by a stub that populates the builder as the real methods do; the WTML is written and parsed by the real wwt_data_formats code in a scratch directory",
               "tile_levels = depth of the deepest populated layer is established by C08 / C09 / C06 for the study, multi-TAN and TOAST writers")
    run.outside("the WWT client's real template expansion", "HiPS output (external hipsgen tool)", "the pipeline workflows' WTML (same Builder code)")
    chx.run_conditions(run, HARNESS, THOROUGH if run.tier == "thorough" else QUICK)
