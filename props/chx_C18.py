"""CrossHair conditions for C18: publish crash-safety. Real PipelineManager.publish(), real LocalPipelineIo
(put_item / check_exists), real refresh_impl skip rule; os / open / shutil replaced by an in-memory file system whose
transfers crash at a symbolic point (before or in the middle of a symbolic transfer number)."""
import io
import os
from typing import List

import toasty.pipeline as tpl
import toasty.pipeline.cli as tcli
import toasty.pipeline.local_io as tlio
from toasty.pipeline import PipelineManager
from toasty.pipeline.local_io import LocalPipelineIo


class _Crash(BaseException):
    pass


class World:
    """In-memory model of the local work directory and of the destination store."""

    def __init__(self, listings):
        self.approved = dict(listings)      # uniq_id -> list of names (the order os.listdir returns)
        self.published = {}
        self.store = {}                     # path -> 'complete' | 'partial'
        self.transfers = 0
        self.crash_at = -1
        self.crash_during = False
        self.log = []

    # ---- what toasty.pipeline sees
    def mgr_os(self):
        w = self

        class FakeOS:
            path = os.path

            @staticmethod
            def listdir(p):
                if p == "/w/approved":
                    return list(w.approved.keys())
                uid = p[len("/w/approved/"):]
                return list(w.approved[uid])

            @staticmethod
            def rename(a, b):
                uid = a[len("/w/approved/"):]
                assert b == "/w/published/" + uid
                w.log.append(("rename", uid))
                w.published[uid] = w.approved.pop(uid)

            @staticmethod
            def makedirs(p, exist_ok=False):
                pass

        return FakeOS

    def mgr_open(self, p, mode="r"):
        assert mode == "rb" and p.startswith("/w/approved/")
        return io.BytesIO(p.encode())

    # ---- what toasty.pipeline.local_io sees
    def store_os(self):
        w = self

        class P:
            join = staticmethod(os.path.join)
            split = staticmethod(os.path.split)
            sep = os.path.sep

            @staticmethod
            def exists(p):
                return p in w.store

            @staticmethod
            def isdir(p):
                return False

        class FakeOS:
            path = P

            @staticmethod
            def makedirs(p, exist_ok=False):
                pass

        return FakeOS

    def store_open(self, p, mode="r"):
        w = self
        assert mode == "wb"

        class F:
            def __enter__(s):
                if w.transfers == w.crash_at and not w.crash_during:
                    raise _Crash()
                w.store[p] = "partial"      # created / truncated
                return s

            def __exit__(s, *a):
                return False

            def write(s, b):
                pass

        return F()

    def copyfileobj(self, src, dst):
        # called inside `with open(fpath,'wb')`; find the path being written = the single partial entry last opened
        if self.transfers == self.crash_at and self.crash_during:
            raise _Crash()
        for p, st in list(self.store.items()):
            if st == "partial" and p == self._current:
                self.store[p] = "complete"
        self.transfers += 1


def _install(w):
    saved = (tpl.os, tpl.__dict__.get("open"), tlio.os, tlio.__dict__.get("open"), tlio.shutil, tpl.__dict__.get("print"))
    tpl.os = w.mgr_os()
    tpl.open = w.mgr_open
    tpl.print = lambda *a, **k: None
    tlio.os = w.store_os()

    def sopen(p, mode="r"):
        w._current = p
        return w.store_open(p, mode)

    tlio.open = sopen

    class SH:
        copyfileobj = staticmethod(w.copyfileobj)

    tlio.shutil = SH
    return saved


def _restore(saved):
    tpl.os = saved[0]
    if saved[1] is None:
        del tpl.open
    else:
        tpl.open = saved[1]
    tlio.os = saved[2]
    if saved[3] is None:
        del tlio.open
    else:
        tlio.open = saved[3]
    tlio.shutil = saved[4]
    if saved[5] is None:
        del tpl.print
    else:
        tpl.print = saved[5]


def _mgr():
    mgr = PipelineManager.__new__(PipelineManager)
    mgr._workdir = "/w"
    mgr._pipeio = LocalPipelineIo("/store")
    return mgr


def _names(nfiles, idx, rel=-1):
    names = ["f%d.png" % i for i in range(nfiles)]
    if rel >= 0:
        # every approved image also holds index_rel.wtml (a name that sorts around 'index.wtml')
        names[rel] = "index_rel.wtml"
    if idx >= 0:
        names[idx] = "index.wtml"
    return names


def _safe(w, uid, names):
    """store has index.wtml (even partially) for uid  ==>  every other file is there, complete."""
    ip = "/store/%s/index.wtml" % uid
    if ip not in w.store:
        return True
    return all(w.store.get("/store/%s/%s" % (uid, n)) == "complete" for n in names if n != "index.wtml")


def _publish(w, mgr):
    try:
        mgr.publish()
    except _Crash:
        return True
    return False


def _one_run(nfiles, idx, crash_at, during, rerun_idx, rel=-1):
    names = _names(nfiles, idx, rel)
    w = World({"img1": names})
    w.crash_at, w.crash_during = crash_at, during
    mgr = _mgr()
    saved = _install(w)
    try:
        crashed = _publish(w, mgr)
        ok = _safe(w, "img1", names)
        transferred = [p for p, st in w.store.items() if st == "complete"]
        renamed = ("rename", "img1") in w.log
        ok = ok and (crashed == (0 <= crash_at < nfiles))
        # moved to published/ exactly when no crash, and only after all transfers
        ok = ok and renamed == (not crashed)
        if renamed:
            ok = ok and sorted(transferred) == sorted("/store/img1/" + n for n in names)
        if not crashed:
            ok = ok and "img1" in w.published and "img1" not in w.approved
        else:
            ok = ok and "img1" in w.approved
            # second run, the OS may list the directory in another order now
            names2 = _names(nfiles, rerun_idx if idx >= 0 else -1, -1 if rel < 0 else (rel if rel != rerun_idx else idx))
            w.approved["img1"] = names2
            w.crash_at = -1
            crashed2 = _publish(w, mgr)
            ok = ok and not crashed2 and "img1" in w.published
            ok = ok and all(w.store.get("/store/img1/" + n) == "complete" for n in names2)
            ok = ok and _safe(w, "img1", names2)
        return ok
    finally:
        _restore(saved)


def chk_publish_crash_n1(idx: int, crash_at: int, during: bool, rerun_idx: int) -> bool:
    """
    1 files: index.wtml at any position or absent, crash before/during any transfer or none, re-run in any order.

    pre: -1 <= idx < 1
    pre: -1 <= crash_at <= 1
    pre: 0 <= rerun_idx < 1
    post: _
    """
    return _one_run(1, idx, crash_at, during, rerun_idx)


def chk_publish_lookalike_names(idx: int, rel: int, crash_at: int, during: bool, rerun_idx: int) -> bool:
    """
    3 files of which one is index.wtml and one is a look-alike (index_rel.wtml / Index.wtml.bak) at symbolic listing
    positions: index.wtml still goes last, whatever else the directory holds.

    pre: 0 <= idx < 3 and 0 <= rel < 3 and rel != idx
    pre: -1 <= crash_at <= 3
    pre: 0 <= rerun_idx < 3
    post: _
    """
    return _one_run(3, idx, crash_at, during, rerun_idx, rel)


def chk_publish_crash_n2(idx: int, crash_at: int, during: bool, rerun_idx: int) -> bool:
    """
    2 files: index.wtml at any position or absent, crash before/during any transfer or none, re-run in any order.

    pre: -1 <= idx < 2
    pre: -1 <= crash_at <= 2
    pre: 0 <= rerun_idx < 2
    post: _
    """
    return _one_run(2, idx, crash_at, during, rerun_idx)


def chk_publish_crash_n3(idx: int, crash_at: int, during: bool, rerun_idx: int) -> bool:
    """
    3 files: index.wtml at any position or absent, crash before/during any transfer or none, re-run in any order.

    pre: -1 <= idx < 3
    pre: -1 <= crash_at <= 3
    pre: 0 <= rerun_idx < 3
    post: _
    """
    return _one_run(3, idx, crash_at, during, rerun_idx)


def chk_publish_crash_n4(idx: int, crash_at: int, during: bool, rerun_idx: int) -> bool:
    """
    4 files: index.wtml at any position or absent, crash before/during any transfer or none, re-run in any order.

    pre: -1 <= idx < 4
    pre: -1 <= crash_at <= 4
    pre: 0 <= rerun_idx < 4
    post: _
    """
    return _one_run(4, idx, crash_at, during, rerun_idx)


def chk_publish_crash_n5(idx: int, crash_at: int, during: bool, rerun_idx: int) -> bool:
    """
    5 files: index.wtml at any position or absent, crash before/during any transfer or none, re-run in any order.

    pre: -1 <= idx < 5
    pre: -1 <= crash_at <= 5
    pre: 0 <= rerun_idx < 5
    post: _
    """
    return _one_run(5, idx, crash_at, during, rerun_idx)


def chk_publish_crash_n6(idx: int, crash_at: int, during: bool, rerun_idx: int) -> bool:
    """
    6 files: index.wtml at any position or absent, crash before/during any transfer or none, re-run in any order.

    pre: -1 <= idx < 6
    pre: -1 <= crash_at <= 6
    pre: 0 <= rerun_idx < 6
    post: _
    """
    return _one_run(6, idx, crash_at, during, rerun_idx)


def chk_publish_crash_n7(idx: int, crash_at: int, during: bool, rerun_idx: int) -> bool:
    """
    7 files: index.wtml at any position or absent, crash before/during any transfer or none, re-run in any order.

    pre: -1 <= idx < 7
    pre: -1 <= crash_at <= 7
    pre: 0 <= rerun_idx < 7
    post: _
    """
    return _one_run(7, idx, crash_at, during, rerun_idx)


def chk_publish_index_last(nfiles: int, idx: int) -> bool:
    """
    Transfer order: a permutation of the listing with index.wtml strictly last; rename after the last transfer.

    pre: 1 <= nfiles <= 6
    pre: -1 <= idx < nfiles
    post: _
    """
    names = _names(nfiles, idx)
    w = World({"img1": names})
    order = []
    mgr = _mgr()

    class Rec:
        def put_item(self, *path, source=None):
            order.append(path)
            w.log.append(("put", path))

    mgr._pipeio = Rec()
    saved = _install(w)
    try:
        mgr.publish()
    finally:
        _restore(saved)
    put = [p[-1] for p in order]
    ok = sorted(put) == sorted(names) and all(p[0] == "img1" and len(p) == 2 for p in order)
    if idx >= 0:
        ok = ok and put[-1] == "index.wtml" and put.count("index.wtml") == 1
    ok = ok and w.log[-1] == ("rename", "img1") and [e[0] for e in w.log].count("rename") == 1
    return ok


def _two_images(n1, i1, n2, i2, crash_at, during):
    na, nb = _names(n1, i1), _names(n2, i2)
    w = World({"a": na, "b": nb})
    w.crash_at, w.crash_during = crash_at, during
    mgr = _mgr()
    saved = _install(w)
    try:
        crashed = _publish(w, mgr)
        ok = _safe(w, "a", na) and _safe(w, "b", nb)
        for uid, names in (("a", na), ("b", nb)):
            if uid in w.published:
                ok = ok and all(w.store.get("/store/%s/%s" % (uid, n)) == "complete" for n in names)
        if crashed:
            w.crash_at = -1
            ok = ok and not _publish(w, mgr)
        ok = ok and "a" in w.published and "b" in w.published and w.approved == {}
        ok = ok and all(w.store.get("/store/a/" + n) == "complete" for n in na)
        ok = ok and all(w.store.get("/store/b/" + n) == "complete" for n in nb)
        return ok
    finally:
        _restore(saved)


def chk_publish_two_images_2_2(i1: int, i2: int, crash_at: int, during: bool) -> bool:
    """
    Two approved images (2 and 2 files), crash anywhere in the combined transfer sequence.

    pre: -1 <= i1 < 2 and -1 <= i2 < 2
    pre: -1 <= crash_at <= 4
    post: _
    """
    return _two_images(2, i1, 2, i2, crash_at, during)


def chk_publish_two_images_3_2(i1: int, i2: int, crash_at: int, during: bool) -> bool:
    """
    Two approved images (3 and 2 files), crash anywhere in the combined transfer sequence.

    pre: -1 <= i1 < 3 and -1 <= i2 < 2
    pre: -1 <= crash_at <= 5
    post: _
    """
    return _two_images(3, i1, 2, i2, crash_at, during)


def chk_publish_two_images_2_3(i1: int, i2: int, crash_at: int, during: bool) -> bool:
    """
    Two approved images (2 and 3 files), crash anywhere in the combined transfer sequence.

    pre: -1 <= i1 < 2 and -1 <= i2 < 3
    pre: -1 <= crash_at <= 5
    post: _
    """
    return _two_images(2, i1, 3, i2, crash_at, during)


def chk_publish_two_images_3_3(i1: int, i2: int, crash_at: int, during: bool) -> bool:
    """
    Two approved images (3 and 3 files), crash anywhere in the combined transfer sequence.

    pre: -1 <= i1 < 3 and -1 <= i2 < 3
    pre: -1 <= crash_at <= 6
    post: _
    """
    return _two_images(3, i1, 3, i2, crash_at, during)


def chk_refresh_skip_rule(has_index: bool, has_skip: bool, has_other: bool) -> bool:
    """
    Real refresh_impl: a candidate is skipped as done exactly when <id>/index.wtml exists in the store (real
    LocalPipelineIo.check_exists on the path put_item writes).

    post: _
    """
    w = World({})
    if has_index:
        w.store["/store/c1/index.wtml"] = "complete"
    if has_skip:
        w.store["/store/c1/skip.flag"] = "complete"
    if has_other:
        w.store["/store/c1/thumb.jpg"] = "complete"
    saved_events = []

    class Cand:
        def get_unique_id(self):
            return "c1"

        def save(self, f):
            saved_events.append("save")

    class Src:
        def query_candidates(self):
            return [Cand()]

    class FakeMgr:
        def __init__(self, workdir):
            self._pipeio = LocalPipelineIo("/store")

        def _ensure_dir(self, *p):
            return "/w/" + "/".join(p)

        def get_image_source(self):
            return Src()

    class Settings:
        workdir = "/w"

    saved = _install(w)
    saved_mgr = tpl.PipelineManager
    saved_cli = (tcli.__dict__.get("open"), tcli.__dict__.get("print"))
    tpl.PipelineManager = FakeMgr
    tcli.open = lambda p, mode="r": io.BytesIO()
    tcli.print = lambda *a, **k: None
    try:
        tcli.refresh_impl(Settings())
    finally:
        tpl.PipelineManager = saved_mgr
        for k, v in zip(("open", "print"), saved_cli):
            if v is None:
                del tcli.__dict__[k]
            else:
                tcli.__dict__[k] = v
        _restore(saved)
    processed = saved_events == ["save"]
    return processed == (not has_index and not has_skip)
