"""C01 — cascade walk: each live parent exactly once, only after all its live children (E1 + E3).

Serial walk: CrossHair conditions on the real generator / reducer / _walk_serial (one-step inductive obligations and a
bounded end-to-end comparison with the order-sensitive post-order reference) — shared with C13 (props/chx_C13.py) —
plus the preparation step of the parallel walk (props/chx_C01.py).

Parallel walk (E3, z3 QF_BV): the dispatcher's release behaviour is LEARNED from the real Pyramid.walk(parallel=2)
loop (all patterns of dead children x all report orders, two tree positions), the worker's reaction table from the
real _mp_walk_worker, the shutdown script from a recorded run; composed with the trusted queue/event/process model
and decided for ALL schedules on two tree shapes with symbolic liveness:
  S1  root + its four level-1 children (depth-2 pyramid)
  S2  depth-3 slice: root, level-1 tiles A and B, level-2 tiles a1 (under A) and b1 (under B): a dispatcher-released
      intermediate parent reports to its own parent while a sibling subtree is still running
      (thorough adds S2wide with a second level-2 tile under A)
Assertions: callback of P starts only after the callbacks of all live non-leaf children ended; every live non-leaf
tile exactly once, dead tiles never; no deadlock; termination with all workers exited and walk() returned.
"""
from vlib.core import soft_attr as core_u
import itertools
import os
import time

import z3
from queue import Empty

import toasty.pyramid as tp
from toasty.pyramid import Pos, Pyramid, pos_children, pos_parent
from vlib import bmc, chx, mpmodel
from vlib.core import HarnessError
from vlib.stubs import no_progress_bar

tp.progress_bar = no_progress_bar
tp.print = lambda *a, **k: None

HERE = os.path.dirname(__file__)


# ---------------------------------------------------------------- tree configurations

def _anc_or_self(p, n):
    while p.n > n:
        p = pos_parent(p)[0]
    return p


class Config:
    def __init__(self, name, depth, tiles, apex=Pos(0, 0, 0)):
        """tiles: list of Pos of the non-leaf tiles in the slice, children before parents, apex last."""
        self.name, self.depth, self.tiles, self.apex = name, depth, tiles, apex
        idx = {p: i for i, p in enumerate(tiles)}
        self.tree = []
        for p in tiles:
            if p == apex:
                par, bit = None, 0
            else:
                pp, ix, iy = pos_parent(p)
                par, bit = idx[pp], 2 * iy + ix
            self.tree.append(dict(name="%d_%d_%d" % p, parent=par, bit=bit, seed=(p.n == depth - 1), pos=p))

    def pyramid(self, live_seeds):
        """Real pyramid whose live non-leaf tiles are exactly the closure of `live_seeds` inside this slice."""
        live_seeds = set(live_seeds)
        depth, apex = self.depth, self.apex

        def filt(t):
            p = t.pos
            if p.n >= depth - 1:
                return _anc_or_self(p, depth - 1) in live_seeds
            return any(_anc_or_self(s, p.n) == p for s in live_seeds)

        pyr = Pyramid.new_toast_filtered(depth, filt)
        if apex.n > 0:
            pyr.subpyramid(apex)
        return pyr


S1 = Config("S1", 2, [Pos(1, 0, 0), Pos(1, 1, 0), Pos(1, 0, 1), Pos(1, 1, 1), Pos(0, 0, 0)])
S2 = Config("S2", 3, [Pos(2, 0, 0), Pos(2, 2, 0), Pos(1, 0, 0), Pos(1, 1, 0), Pos(0, 0, 0)])
S2W = Config("S2wide", 3, [Pos(2, 0, 0), Pos(2, 1, 0), Pos(2, 2, 0), Pos(1, 0, 0), Pos(1, 1, 0), Pos(0, 0, 0)])
S3 = Config("S3-subpyramid", 3, [Pos(2, 2, 2), Pos(2, 3, 2), Pos(1, 1, 1)], apex=Pos(1, 1, 1))


# ---------------------------------------------------------------- extraction from the real code

def learn(run):
    """Release table of the real dispatcher, learned at two positions; must coincide (position independence)."""
    def mk_root(live):
        return S1.pyramid({S1.tiles[i] for i in live})

    kids_root = [Pos(1, 0, 0), Pos(1, 1, 0), Pos(1, 0, 1), Pos(1, 1, 1)]
    R1, f1 = mpmodel.learn_dispatcher(mk_root, Pos(0, 0, 0), kids_root)
    # second position: parent (1,1,0) in a depth-3 pyramid, its four level-2 children
    par = Pos(1, 1, 0)
    kids2 = pos_children(par)

    def mk_deep(live):
        seeds = {kids2[i] for i in live}

        def filt(t):
            p = t.pos
            if p.n >= 2:
                return _anc_or_self(p, 2) in seeds
            return p == par
        return Pyramid.new_toast_filtered(3, filt)

    R2, f2 = mpmodel.learn_dispatcher(mk_deep, par, kids2)
    ok = R1 == R2 and f1["seeds_ok"] and f2["seeds_ok"] and f1["frame_ok"] and f2["frame_ok"] and f1["apex_break"] is True
    detail = "release table: %d entries from %d+%d real dispatcher runs; equal at both positions=%s seeds=%s/%s frame=%s/%s apex-break=%s" % (
        len(R1), f1["runs"], f2["runs"], R1 == R2, f1["seeds_ok"], f2["seeds_ok"], f1["frame_ok"], f2["frame_ok"], f1["apex_break"])
    if R1 != R2:
        raise HarnessError("the dispatcher's release behaviour depends on the tile position (the two learned tables differ): " + detail)
    if not (f1["frame_ok"] and f2["frame_ok"]):
        raise HarnessError("a completion report releases a tile other than the reporter's parent: " + detail)
    run.ob("dispatcher-learned", "confirmed", "E3:extraction", detail)
    return R1, f1


GAP_DEPTH = 3
GAP_ACCEPT = {Pos(1, 0, 0), Pos(2, 0, 0), Pos(3, 0, 0), Pos(3, 1, 0), Pos(3, 0, 1), Pos(3, 1, 1),     # a live branch down to four leaves
              Pos(2, 1, 0),                                                                          # accepted, none of its children is
              Pos(1, 1, 0)}                                                                          # accepted, none of its children is
GAP_LIVE = [Pos(2, 0, 0), Pos(1, 0, 0), Pos(0, 0, 0)]                                                  # the live non-leaf tiles, children first


def gap_pyramid():
    return Pyramid.new_toast_filtered(GAP_DEPTH, lambda t: t.pos in GAP_ACCEPT)


def timeout_reaction():
    """What does the REAL dispatch loop do when a receive on the done queue times out?  The real walk(parallel=2) runs
    against recording fakes on a pyramid that has filter-accepted tiles without any live child; a time-out (Empty) is
    injected before every completion report.  -> list of (after how many reports, [ops other than status polling])."""
    rec = mpmodel.Recorder()
    reports = list(GAP_LIVE)
    state = dict(k=0, empty_next=True, mark=None, effects=[])

    def responder():
        if state["mark"] is not None:
            ops = [op for op in rec.ops[state["mark"]:] if op[0] in ("put", "set", "close", "join_thread")]
            if ops:
                state["effects"].append((state["k"], ops))
            state["mark"] = None
        if state["empty_next"]:
            state["empty_next"] = False
            state["mark"] = len(rec.ops)
            return Empty
        state["empty_next"] = True
        if state["k"] < len(reports):
            state["k"] += 1
            return reports[state["k"] - 1]
        raise mpmodel.Stop()

    fake = mpmodel.recording_mp(rec, {1: responder})
    with mpmodel.patched_mp(fake):
        try:
            gap_pyramid().walk(lambda pos: None, parallel=2)
        except mpmodel.Stop:
            pass
    return state["effects"]


def replay_gap(n_main_polls=2):
    """Real walk(parallel=2) on the gap pyramid under the deterministic scheduler: the dispatcher is scheduled while the
    done queue is still empty (its receive times out), then everything runs freely.  -> callbacks that ran."""
    events = []

    def entry(S):
        def cb(pos):
            S.op("cb_start")
            events.append(pos)
            S.op("cb_end")
        gap_pyramid().walk(cb, parallel=2)

    res = mpmodel.replay(entry, ["main"] * (1 + 2 + n_main_polls), snapshot=lambda: list(events))
    res["events"] = events
    res["not_live"] = [p for p in events if p not in GAP_LIVE]
    return res


def check_timeout_noop(run):
    nm = "dispatcher-timeout-is-a-no-op"
    eff = timeout_reaction()
    if not eff:
        run.ob(nm, "confirmed", "E3:extraction", "a receive time-out on the done queue (injected before each of the %d reports, on a pyramid with two filter-accepted tiles that have no live child) only polls the workers' status: "
               "nothing is released, flagged or closed — so releases happen exactly at the modelled 'consume' steps" % len(GAP_LIVE))
        return
    obs = replay_gap()
    run.replays += 1
    if obs["not_live"] or not (obs.get("returned") or obs.get("raised")):
        text = ("# real walk(parallel=2) on a pyramid with filter-accepted tiles that have no live child; the dispatcher's receive times out once before any report\n"
                "import sys\nsys.path.insert(0, %r)\nimport props.C01 as P\nobs = P.replay_gap()\nprint(obs['events'], 'not live:', obs['not_live'], obs.get('returned'))\n"
                "sys.exit(1 if (obs['not_live'] or not (obs.get('returned') or obs.get('raised'))) else 0)\n") % (str(__import__("vlib.core").core.VERIF),)
        run.violation(nm, "walk:timeout-releases-tiles", "the dispatch loop reacts to a receive time-out with %r; real walk(parallel=2) with the dispatcher timing out once: callbacks ran for %r which have no reachable leaf beneath them (returned=%s)" % (
            eff[:2], obs["not_live"], obs.get("returned")), text, "E3:extraction+detsched")
    else:
        run.error(nm, "the dispatch loop reacts to a receive time-out with %r (not modelled), but the directed real run shows no wrong callback: %r" % (eff[:2], obs["events"]))


def shutdown_script(cfg, n_workers):
    """Producer ops after the dispatch loop, from a recorded complete run of the real walk()."""
    order = [t["pos"] for t in cfg.tree]
    it = iter(order)
    rec = mpmodel.Recorder()

    def responder():
        try:
            return next(it)
        except StopIteration:
            raise mpmodel.Stop()

    fake = mpmodel.recording_mp(rec, {1: responder})
    with mpmodel.patched_mp(fake):
        try:
            cfg.pyramid({t["pos"] for t in cfg.tree if t["seed"]}).walk(lambda pos: None, parallel=n_workers)
            returned = True
        except mpmodel.Stop:
            returned = False
    apex_breaks = returned          # the real loop must end when the apex is reported
    last_get = max(i for i, op in enumerate(rec.ops) if op == ("get", 1))
    tail = rec.ops[last_get + 1:]
    ops = []
    for op in tail:
        if op[0] == "put":
            continue
        if op[0] in ("join", "exitcode", "is_alive"):
            ops.append((op[0], op[1]))
        else:
            ops.append(op[0])
    maxsize = [op[1] for op in rec.ops if op[0] == "maxsize" and op[2] == 1]
    starts = [op for op in rec.ops if op[0] == "start"]
    seeds = [op[2] for op in rec.ops[:rec.ops.index(("get", 1))] if op[0] == "put" and op[1] == 0]
    loop_polls = any(op[0] in ("is_alive", "exitcode") for op in rec.ops[:last_get])
    if not apex_breaks:
        ops = []
    # a done_event.set() INSIDE the dispatch loop: which release it follows
    EARLY_SET[cfg.name] = []
    loop_ops = rec.ops[:last_get]
    for i, op in enumerate(loop_ops):
        if op[0] == "set":
            prev = [o for o in loop_ops[:i] if o[0] == "put" and o[1] == 0]
            if not prev or prev[-1][2] not in order:
                raise HarnessError("the dispatcher sets the done flag inside its loop at a point the model cannot place: %r" % (loop_ops[max(0, i - 3):i + 1],))
            EARLY_SET[cfg.name].append(order.index(prev[-1][2]))
    return ops, (maxsize[0] if maxsize else 0), len(starts), seeds, loop_polls, apex_breaks


EARLY_SET = {}


def walk_worker_table():
    def call(inq, ev, on_cb, outq):
        tp._mp_walk_worker(outq, inq, ev, on_cb)
    table = mpmodel.infer_worker(call)
    table["on_raise"] = mpmodel.infer_fault_reaction(call)
    return table


# ---------------------------------------------------------------- replay on the real code

def schedule_of(trace, n_seeds, n_workers, owner_of):
    out = ["main"] * (n_seeds + n_workers)
    for label, actor in trace:
        head = label.split()[0]
        if actor == "main":
            if head in ("consume", "close", "join_thread", "set", "join"):
                out.append("main")
            if head == "consume" and label.endswith("+release"):
                out.append("main")          # the dispatcher's ready_queue.put(parent) is a second primitive operation
        elif actor == "feeder:main":
            out.append("feeder:main:q0")
        elif actor == "feeder:w":
            name = label.split()[1]
            out.append("feeder:%s:q1" % owner_of.get(name, "w0"))
        else:
            if head in ("get", "cb_start", "cb_end", "cb_raise", "put-done", "timeout", "timeout-exit", "timeout-retry", "flagcheck-exit", "flagcheck-retry", "readflag"):
                out.append(actor)
    return out


def annotate(U, m, ts):
    """BMC trace with '+release' appended to the consume steps that put the parent on the ready queue."""
    out = []
    for t in range(U.K):
        k = m.eval(U.act[t], model_completion=True).as_long()
        if k >= len(ts.trans):
            continue
        label, actor = ts.trans[k][0], ts.trans[k][1]
        if label.startswith("consume "):
            a, b = U.state(m, t), U.state(m, t + 1)
            if any(a["st%d" % i] == mpmodel.WT_NOTREADY and b["st%d" % i] == mpmodel.WT_RBUF for i in range(ts.N)):
                label += " +release"
        out.append((label, actor))
    return out


def replay_walk(cfg, live_seeds, n_workers, trace, fault_pos=None):
    events = []
    owner_of = {}
    for label, actor in trace:
        if label.startswith("get w"):
            owner_of[label.split()[2]] = actor

    def entry(S):
        def cb(pos):
            S.op("cb_start")
            events.append(("start", pos))
            S.op("cb_end")
            if fault_pos is not None and pos == fault_pos:
                raise RuntimeError("injected failure in the callback of %r" % (pos,))
            events.append(("end", pos))

        cfg.pyramid(live_seeds).walk(cb, parallel=n_workers)

    sched = schedule_of(trace, len(live_seeds), n_workers, owner_of)
    res = mpmodel.replay(entry, sched, snapshot=lambda: list(events))
    res["events"] = events
    return res


def order_violation(events, cfg, live):
    """Does a callback start before a live non-leaf child's callback ended / run twice?"""
    ended, started = set(), []
    for kind, pos in events:
        if kind == "start":
            if pos in started:
                return "callback of %r ran twice" % (pos,)
            started.append(pos)
            for c in pos_children(pos):
                if c in live and c not in ended and c.n < cfg.depth:
                    return "callback of %r started before its live child %r completed" % (pos, c)
        else:
            ended.add(pos)
    return None


def live_closure(cfg, seeds):
    live = set(seeds)
    for t in cfg.tree:
        if not t["seed"] and any(_anc_or_self(s, t["pos"].n) == t["pos"] for s in seeds):
            live.add(t["pos"])
    return live


# ---------------------------------------------------------------- the check

def job_config(run, cfg_name, n_workers, cap, which=None):
    cfg = {c.name: c for c in (S1, S2, S2W, S3)}[cfg_name]
    R, facts = mpmodel.learn_dispatcher_cached() if hasattr(mpmodel, "learn_dispatcher_cached") else learn(Run_silent(run))
    table = walk_worker_table()
    check_config(run, cfg, n_workers, R, table, cap, run.tier, which)


class Run_silent:
    """learn() records an obligation; inside a sub-job that record is redundant."""

    def __init__(self, run):
        self.run = run

    def ob(self, *a, **k):
        pass


def check_config(run, cfg, n_workers, R, table, max_live_seeds, tier, which=None):
    """which: None = all queries and the twin; otherwise the one query name (or 'twin') this job discharges."""
    name = "%s[W=%d%s]" % (cfg.name, n_workers, ",<=%d live seeds" % max_live_seeds if max_live_seeds else "")
    shutdown, done_max, nstart, seeds, loop_polls, apex_breaks = shutdown_script(cfg, n_workers)
    if nstart != n_workers:
        raise HarnessError("walk started %d workers for parallel=%d" % (nstart, n_workers))
    ts = mpmodel.walk_ts(cfg.tree, n_workers, R, table["post_item"], done_max, shutdown, max_live_seeds=max_live_seeds, apex_breaks=apex_breaks, flag_read=table.get("flag_read", "after_empty"),
                         early_set=EARLY_SET.get(cfg.name, []))
    K = ts.max_steps
    t0 = time.time()
    U = bmc.Unrolled(ts, K, timeout_ms=1500000 if tier == "thorough" else 400000)
    run.extra.setdefault("models", {})[name] = dict(tiles=[t["name"] for t in cfg.tree], shutdown=[str(o) for o in shutdown], done_queue_maxsize=done_max,
                                                      worker_table={k: (list(v) if isinstance(v, tuple) else v) for k, v in table.items()}, steps=K,
                                                      state_bits=sum(w for w, _ in ts.vars.values()), transitions=len(ts.trans), build_s=round(time.time() - t0, 1))
    queries = [
        ("child-before-parent", U.exists(lambda s: s["err"] == 1), "a parent's callback starts before a live child's callback has ended, or a tile is released twice"),
        ("exactly-once", U.exists(lambda s: z3.Or(*[z3.Or(z3.UGT(s["cb%d" % i], 1), z3.And(z3.Not(ts.live[i]), s["cb%d" % i] != 0)) for i in range(ts.N)])),
         "a tile's callback runs twice, or runs for a tile with no live leaf below it"),
        ("no-deadlock", (lambda s: z3.And(z3.Not(U.enabled(s, progress_only=True)), z3.Not(mpmodel.walk_good_final(ts, s))))(U.final()), "the walk gets stuck (no process can make progress) before completing"),
    ]
    for qn, bad, what in queries:
        if which is not None and qn != which:
            continue
        r, m, dt = U.check(bad)
        nm = "%s.%s" % (name, qn)
        if r == "unsat":
            run.ob(nm, "unsat", "E3:bmc", "all schedules and all liveness patterns; K=%d" % K, queries=1, solver_s=dt)
        elif r == "sat":
            trace = annotate(U, m, ts)
            live_seeds = [t["pos"] for i, t in enumerate(cfg.tree) if t["seed"] and z3.is_true(m.eval(ts.live_seed[i], model_completion=True))]
            obs = replay_walk(cfg, live_seeds, n_workers, trace)
            live = live_closure(cfg, live_seeds)
            ov = order_violation(obs["events"], cfg, live)
            done = {p for k, p in obs["events"] if k == "end"}
            stuck = not (obs.get("returned") or obs.get("raised"))
            incomplete = obs.get("returned") and {p for p in live} != {p for k, p in obs.get("at_return", []) if k == "end"}
            # no callback fails in these runs: a walk that RAISES instead of returning has not "then returned" either
            failed = (not obs.get("returned")) and bool(obs.get("raised"))
            if ov or stuck or incomplete or failed:
                text = ("# schedule + liveness pattern found by the solver, replayed on the real Pyramid.walk with a deterministic thread scheduler\n"
                        "import sys\nsys.path.insert(0, %r)\nimport props.C01 as P\nfrom toasty.pyramid import Pos\n"
                        "cfg = {c.name: c for c in (P.S1, P.S2, P.S2W, P.S3)}[%r]\nobs = P.replay_walk(cfg, %r, %d, %r)\n"
                        "live = P.live_closure(cfg, %r)\nov = P.order_violation(obs['events'], cfg, live)\nprint(obs['events'], obs.get('returned'), ov)\n"
                        "bad = bool(ov) or not obs.get('returned') or {p for k, p in obs.get('at_return', []) if k == 'end'} != live\nsys.exit(1 if bad else 0)\n"
                        ) % (str(__import__("vlib.core").core.VERIF), cfg.name, live_seeds, n_workers, trace, live_seeds)
                run.violation(nm, "walk:%s" % qn, "parallel walk: %s; real run under the solver's schedule (live seeds %s): %s%s%s" % (
                    what, [tuple(p) for p in live_seeds], ov or "", " HANGS" if stuck else "", (" returned with unprocessed tiles" if incomplete else "") + ((" walk() RAISES although no callback failed: %s" % obs.get("raised")) if failed else "")),
                    text, "E3:bmc+detsched", queries=1, solver_s=dt)
            else:
                run.error(nm, "solver schedule did not reproduce on the real code: live=%s events=%s returned=%s drive=%s" % (live_seeds, obs["events"], obs.get("returned"), obs["drive"][:3]))
        else:
            run.ob(nm, "inconclusive", "E3:bmc", "solver answered %s after %.0fs" % (r, dt), queries=1, solver_s=dt)
    if which is not None and which != "twin":
        return
    r, m, dt = U.check(mpmodel.walk_good_final(ts, U.final()), *[v for v in ts.live_seed.values()][:2])
    nm = "%s.twin" % name
    if r == "sat":
        live_seeds = [t["pos"] for i, t in enumerate(cfg.tree) if t["seed"] and z3.is_true(m.eval(ts.live_seed[i], model_completion=True))]
        obs = replay_walk(cfg, live_seeds, n_workers, annotate(U, m, ts))
        live = live_closure(cfg, live_seeds)
        ok = obs.get("returned") and {p for k, p in obs["events"] if k == "end"} == live and not order_violation(obs["events"], cfg, live)
        run.replays += 1
        if ok:
            run.ob(nm, "twin-sat", "E3:bmc+detsched", "a completing schedule exists; the REAL walk(parallel=%d) completes under it with %d ordered callbacks" % (n_workers, len(live)), queries=1, solver_s=dt)
        else:
            run.error(nm, "completing model schedule does not complete on the real code: %s" % ({k: obs[k] for k in ("returned", "drive", "events") if k in obs},))
    else:
        run.ob(nm, "inconclusive", "E3:bmc", "good terminal state not reachable in the model (%s)" % r)


SERIAL = [("chk_postfix_pos_level", 40), ("chk_postfix_corner_level", 60), ("chk_generate_tiles_filtered_top", 90), ("chk_reducer_step", 120),
          ("chk_reducer_apex_stop", 60), ("chk_walk_serial_step", 60), ("chk_combine_operations", 60), ("chk_e2e_depth1", 120),
          ("chk_e2e_unfiltered_generic", 300), ("chk_e2e_unfiltered_toast", 300)]
SERIAL_THOROUGH = [("chk_e2e_depth2", 900), ("chk_e2e_depth2_apex1", 900)]


def check(run):
    run.uses(tp.Pyramid.walk, core_u(tp.Pyramid, "_walk_serial"), core_u(tp.Pyramid, "_walk_parallel"), core_u(tp, "_mp_walk_worker"), core_u(tp.Pyramid, "_generator"),
             tp.PyramidReductionIterator.__next__, tp.PyramidReductionIterator.set_data, tp.Pyramid.count_operations)
    run.bound(serial="one-step obligations for any depth; end-to-end depth 1 (quick) / 2 (thorough) with symbolic filter masks and apex",
              parallel_trees="S1 (root + 4 level-1 tiles), S2 (depth-3 slice with released intermediate parents), S3 (sub-pyramid apex); liveness of every seed tile symbolic",
              workers="2 (quick; S1 with <= 2 live level-1 tiles), 2 and 3 (thorough; S1 full)", schedules="ALL interleavings of dispatcher, both queues' feeder threads, worker receives / time-outs / callbacks / reports / exits; complete step bound")
    run.assume("multiprocessing model as in C03 (bounded done_queue, per-process feeder buffers, time-out only on an empty pipe, weak fairness)",
               "the dispatcher's per-parent release behaviour is the table learned from the real loop (all dead-child patterns x all report orders, two positions; equality of the two tables is checked = position independence)",
               "deeper trees add no new local situation (Appendix A-4): abstraction argument, not proved")
    run.outside("real multiprocessing / OS scheduler", "full depth-3 tree (21 parents)")
    only = getattr(run, "only", None)
    # ---- serial half (E1)
    conds = SERIAL + (SERIAL_THOROUGH if run.tier == "thorough" else [])
    if not only or any("serial" in o or o.startswith("chk_") for o in only):
        chx.run_conditions(run, os.path.join(HERE, "chx_C13.py"), conds)
        chx.run_conditions(run, os.path.join(HERE, "chx_C01.py"), [("chk_walk_prep_step", 120), ("chk_walk_prep_nothing_to_do", 60)])
    if only and not any(o.startswith("S") or "parallel" in o for o in only):
        return
    # ---- parallel half (E3)
    try:
        R, facts = learn(run)
        table = walk_worker_table()
        if table["post_item"] != ("cb", "put"):
            run.violation("worker-order", "walk:worker-reports-before-callback", "the walk worker's per-item actions are %r, not callback-then-report: a parent can start while the child's callback still runs" % (table["post_item"],),
                          "# worker order observed by probing the real _mp_walk_worker\nprint(%r)\nraise SystemExit(1)\n" % (table["post_item"],), "E3:extraction")
            return
        run.ob("worker-table", "confirmed", "E3:extraction", "real _mp_walk_worker: %s" % table)
        check_timeout_noop(run)
        plans = [(S1, 2, 2), (S2, 2, None), (S3, 2, None)]
        if run.tier == "thorough":
            plans = [(S1, 2, None), (S2, 2, None), (S3, 2, None), (S1, 3, 2), (S2, 3, None), (S2W, 2, None)]
        from vlib.core import run_parallel
        jobs = [(cfg.name, w, cap, q) for cfg, w, cap in plans if not only or any(o == cfg.name.split("-")[0] or "parallel" in o for o in only)
                for q in ("child-before-parent", "exactly-once", "no-deadlock", "twin")]
        run_parallel(run, __name__, "job_config", jobs)
    except HarnessError as e:
        run.error("parallel-walk", e)
