"""C07 — tile filters never drop a tile holding data (E4 + E2: symbolic execution of the real filter code).

  bbox-H        the bounding-box test of toasty/_libtoasty.pyx (translated to Python from the working tree on every run,
                validated against the compiled extension) is executed on SYMBOLIC corners, box and pixel centre under
                hypothesis H on tile geometry: it returns True whenever the pixel centre is in the box; every loop ends
                inside the unwinding cap implied by the stated ranges.  A rejected H-configuration is confirmed on real
                TOAST tiles before it is reported (H is an assumption about tiles, not a derived fact).
  bbox-tiles    for EVERY real tile of levels 1..D (both coordinate systems, corners from the real _div4, pixel centres
                from the real toast_tile_get_coords) and a SYMBOLIC box: if one of the tile's selected pixel centres is in
                the box the same translated function returns True — this needs no hypothesis and is replayed through the
                public filter factory on the compiled extension.
  ancestors     the same with a pixel centre of a DESCENDANT (the filtered descent only reaches a tile through its ancestors).
  no-write      the filter closure leaves the tile untouched (the in-place sort of the .pyx runs on a copy).
  chunks        ChunkedPlateCarreeSampler: a point the chunk sampler accepts lies in that chunk's bounds; the chunk grid
                covers every map pixel exactly once; the accepted value is the whole-map planetary sampler's value.
  image-bounds  WcsSampler._image_bounds with an affine (plate-carree, CAR) WCS of SYMBOLIC coefficients: the returned
                box contains the whole image footprint (every image size in the stated set).
"""
import math
import os
import time
from fractions import Fraction

import numpy as np
import z3

import toasty.samplers as tsm
import toasty.toast as tt
from toasty.pyramid import Pos
from toasty.toast import Tile, ToastCoordinateSystem
from vlib import core, decy, symx
from vlib.core import HarnessError
from vlib.symx import R, SymReal

PI_F = Fraction(math.pi)
TWOPI_F = Fraction(2 * math.pi)
POLAR = Fraction(1.5707963)
DEPTH = {"quick": 4, "thorough": 6}
SPLIT_DEPTH = {"quick": 9, "thorough": 11}


def _rv(x):
    return z3.Q(x.numerator, x.denominator)


# ------------------------------------------------------------------ the function under analysis

class Corners:
    """4x2 array stand-in ([i, j] and the column view [:, 0]) that records writes."""

    def __init__(self, rows):
        self.v = [list(r) for r in rows]
        self.writes = 0

    def __getitem__(self, key):
        a, b = key
        if isinstance(a, slice):
            if a != slice(None) or not isinstance(b, int):
                raise HarnessError("bbox test takes an unexpected view of its corner array: %r" % (key,))
            return _Col(self, b)
        return self.v[a][b]

    def __setitem__(self, key, val):
        a, b = key
        self.v[a][b] = val
        self.writes += 1


class _Col:
    def __init__(self, o, c):
        self.o, self.c = o, c

    def __getitem__(self, i):
        return self.o.v[i][self.c]

    def __setitem__(self, i, val):
        self.o.v[i][self.c] = val
        self.o.writes += 1

    def __len__(self):
        return 4


class _NP:
    pi = PI_F


_MOD = [None]


def sym_module():
    """The decythonised module with its float constants replaced by their exact rational values."""
    if _MOD[0] is None:
        mod, _py = decy.load()
        if not isinstance(mod.__dict__.get("TWOPI"), float):
            raise HarnessError("_libtoasty.pyx no longer defines the float constant TWOPI")
        mod.TWOPI = Fraction(mod.TWOPI)
        mod.np = _NP
        _MOD[0] = mod
    return _MOD[0]


def bbox_fn():
    return sym_module()._tile_intersects_latlon_bbox


def float_bbox(corners, l0, l1, b0, b1):
    """The CURRENT .pyx source run on floats (plain CPython)."""
    mod, _py = decy.load()
    return bool(mod.tile_intersects_latlon_bbox(np.array(corners, dtype=float), float(l0), float(l1), float(b0), float(b1)))


def compiled_filter(corners, l0, l1, b0, b1, increasing=True):
    """Through the public factory on the compiled extension."""
    f = tsm._latlon_tile_filter(float(l0), float(l1), float(b0), float(b1))
    t = Tile(Pos(5, 0, 0), tuple((float(a), float(b)) for a, b in corners), increasing)
    return bool(f(t))


# ------------------------------------------------------------------ real tiles

def real_tiles(depth, planetary):
    cs = ToastCoordinateSystem.PLANETARY if planetary else ToastCoordinateSystem.ASTRONOMICAL
    out = []

    def rec(t, lvl):
        out.append(t)
        if lvl < depth:
            for c in tt._div4(t):
                rec(c, lvl + 1)
    for t1 in tt._create_level1_tiles(cs):
        rec(t1, 1)
    return out


def selected_pixels(tile):
    """[(lon, lat)] of pixel centres from the real pixel grid: the four grid corners, the centre and the extreme
    latitudes / (unwrapped) longitudes."""
    lons, lats = tt.toast_tile_get_coords(tile)
    lc = lons[128, 128]
    un = lons - 2 * np.pi * np.round((lons - lc) / (2 * np.pi))
    idx = {(0, 0), (0, 255), (255, 0), (255, 255), (128, 128)}
    for a in (lats, un):
        idx.add(tuple(int(v) for v in np.unravel_index(np.argmin(a), a.shape)))
        idx.add(tuple(int(v) for v in np.unravel_index(np.argmax(a), a.shape)))
    return [(float(lons[i]), float(lats[i])) for i in sorted(idx)]


def descendant_pixels(tile, levels=2):
    """Pixel centres of descendants `levels` deeper that hug the tile's corners / edges (the filtered descent reaches a
    tile only through its ancestors, so an ancestor must accept a box holding only a descendant's pixel)."""
    cur = [tile]
    for _ in range(levels):
        cur = [c for t in cur for c in tt._div4(t)]
    pts = []
    for t in cur:
        lons, lats = tt.toast_tile_get_coords(t)
        for i in ((0, 0), (0, 255), (255, 0), (255, 255)):
            pts.append((float(lons[i]), float(lats[i])))
    # keep the extreme ones only (by latitude and by longitude relative to the tile centre)
    lc = pts[0][0]
    key_lon = lambda p: p[0] - 2 * math.pi * round((p[0] - lc) / (2 * math.pi))
    ext = {min(pts, key=key_lon), max(pts, key=key_lon), min(pts, key=lambda p: p[1]), max(pts, key=lambda p: p[1])}
    return sorted(ext)


# ------------------------------------------------------------------ harnesses (run under symx.explore)

def _box(ctx, tier):
    l0, l1, b0, b1 = [SymReal(z3.Real(n)) for n in ("box_lon_min", "box_lon_max", "box_lat_min", "box_lat_max")]
    span = 2 if tier == "quick" else 3
    ctx.assume(z3.And(l0.t < l1.t, b0.t < b1.t, l0.t >= -span * _rv(TWOPI_F), l0.t <= span * _rv(TWOPI_F), l1.t - l0.t <= 2 * _rv(TWOPI_F),
                      b0.t >= -_rv(PI_F), b1.t <= _rv(PI_F)))
    return l0, l1, b0, b1


def _in_box(l0, l1, b0, b1, plon, plat, ks):
    """z3: (plon + 2 pi k, plat) in the closed box for some integer k of the list `ks` (z3 Int terms)."""
    return z3.And(plat >= b0.t, plat <= b1.t, z3.Or(*[z3.And(plon + _rv(TWOPI_F) * k >= l0.t, plon + _rv(TWOPI_F) * k <= l1.t) for k in ks]))


def harness_tile(corners, pixels, tier):
    """Concrete corners (exact rationals of the doubles), symbolic box; some selected pixel centre is in the box."""
    fn = bbox_fn()
    cf = [[Fraction(a), Fraction(b)] for a, b in corners]

    def h(ctx):
        l0, l1, b0, b1 = _box(ctx, tier)
        ks = [z3.IntVal(k) for k in range(-4, 5)]
        sel = z3.Int("pixel_index")
        ctx.assume(z3.And(sel >= 0, sel < len(pixels)))
        ctx.assume(z3.Or(*[z3.And(sel == n, _in_box(l0, l1, b0, b1, _rv(Fraction(p[0])), _rv(Fraction(p[1])), ks)) for n, p in enumerate(pixels)]))
        arr = Corners(cf)
        r = fn(arr, l0, l1, b0, b1)
        return dict(result=bool(r), box=(l0, l1, b0, b1), sel=sel, writes=arr.writes)
    return h


def _names(t):
    from z3 import z3util
    return {str(v) for v in z3util.get_vars(t)}


def _phase_separation(ctx, n0):
    """The branch conditions of the call (ctx.pc[n0:]) never mention a latitude once a longitude has been tested:
    the latitude part and the longitude part of the function are independent, so the claim is decided separately for
    every latitude order (part 'lat') and every longitude order (part 'lon')."""
    seen_lon = False
    for c in ctx.pc[n0:]:
        nm = _names(c)
        is_lon = any(v.startswith("lon") or v.startswith("box_lon") for v in nm)
        is_lat = any(v.startswith("lat") or v.startswith("box_lat") for v in nm)
        if is_lon:
            seen_lon = True
        if is_lat and seen_lon:
            return False
    return True


def harness_H(tier, part):
    """part 'lon': symbolic longitudes (every order, every wrap), latitudes in a fixed order and non-polar;
    part 'lat': symbolic latitudes (every order, polar tiles included), longitudes trivially overlapping."""
    fn = bbox_fn()
    tp = _rv(TWOPI_F)
    pi = _rv(PI_F)

    def h(ctx):
        l0, l1, b0, b1 = _box(ctx, tier)
        lat = [z3.Real("lat%d" % i) for i in range(4)]
        pl, pb = z3.Reals("pix_lon pix_lat")
        for x in lat:
            ctx.assume(z3.And(x >= -pi / 2, x <= pi / 2))
        # H (latitude): the pixel centre lies within the corner latitude range (touching allowed)
        ctx.assume(z3.And(z3.Or(*[pb >= x for x in lat]), z3.Or(*[pb <= x for x in lat]), pb >= b0.t, pb <= b1.t))
        if part == "lon":
            lon = [z3.Real("lon%d" % i) for i in range(4)]
            lo, hi = (-1, 1) if tier == "quick" else (-1, 2)
            for x in lon:
                ctx.assume(z3.And(x >= lo * tp, x <= hi * tp))
            ctx.assume(z3.And(lat[0] <= lat[1], lat[1] <= lat[2], lat[2] <= lat[3], lat[3] <= _rv(POLAR), lat[0] >= -_rv(POLAR)))
            kr = 4
            ks = [z3.Int("k%d" % i) for i in range(4)]
            kp = z3.Int("kp")
            m, M = z3.Reals("hull_min hull_max")
            u = [lon[i] + tp * z3.ToReal(ks[i]) for i in range(4)]
            ctx.assume(z3.And(*[z3.And(k >= -kr, k <= kr) for k in ks + [kp]]))
            # H (longitude): the unwrapped corner longitudes fill an arc [m, M] shorter than pi whose ends are attained,
            # the pixel centre is strictly inside it, and it is in the box modulo 2 pi
            ctx.assume(z3.And(M - m < pi, *[z3.And(x >= m, x <= M) for x in u]))
            ctx.assume(z3.Or(*[x == m for x in u]))
            ctx.assume(z3.Or(*[x == M for x in u]))
            ctx.assume(z3.And(pl > m, pl < M, pl + tp * z3.ToReal(kp) >= l0.t, pl + tp * z3.ToReal(kp) <= l1.t))
        else:
            lon = [z3.RealVal(0)] * 4
            ctx.assume(z3.And(l0.t == -1, l1.t == 1, pl == 0))
        arr = Corners([[SymReal(lon[i]), SymReal(lat[i])] for i in range(4)])
        n0 = len(ctx.pc)
        r = fn(arr, l0, l1, b0, b1)
        return dict(result=bool(r), box=(l0, l1, b0, b1), corners=[(lon[i], lat[i]) for i in range(4)], pix=(pl, pb), writes=arr.writes,
                    separated=_phase_separation(ctx, n0))
    return h


def _fval(m, t):
    v = m.eval(R(t) if not z3.is_expr(t) else t, model_completion=True)
    if z3.is_int_value(v):
        return v.as_long()
    if z3.is_rational_value(v):
        return float(Fraction(v.numerator_as_long(), v.denominator_as_long()))
    if z3.is_algebraic_value(v):
        return float(v.approx(20).as_decimal(20).rstrip("?"))
    raise HarnessError("model value %r" % v)


def _pixel_in_box_float(p, box):
    """Exact test on the doubles handed to the real code."""
    l0, l1, b0, b1 = [Fraction(float(x)) for x in box]
    plon, plat = Fraction(float(p[0])), Fraction(float(p[1]))
    if not (b0 <= plat <= b1):
        return False
    return any(l0 <= plon + TWOPI_F * k <= l1 for k in range(-8, 9))


def _robust_model(ctx, out, pixels=None):
    """A model of the rejecting path, preferring one where the pixel sits inside the box with a margin (so that the
    conversion of the box to doubles keeps the configuration)."""
    l0, l1, b0, b1 = out["box"]
    marg = z3.Q(1, 10 ** 7)
    tries = []
    if pixels is not None:
        alts = []
        for n, p in enumerate(pixels):
            plon, plat = _rv(Fraction(p[0])), _rv(Fraction(p[1]))
            inside = z3.Or(*[z3.And(plon + _rv(TWOPI_F) * k >= l0.t + marg, plon + _rv(TWOPI_F) * k <= l1.t - marg) for k in range(-4, 5)])
            alts.append(z3.And(out["sel"] == n, plat >= b0.t + marg, plat <= b1.t - marg, inside))
        tries.append(z3.Or(*alts))
    else:
        pl, pb = out["pix"]
        tries.append(z3.And(pb >= b0.t + marg, pb <= b1.t - marg, z3.Or(*[z3.And(pl + _rv(TWOPI_F) * k >= l0.t + marg, pl + _rv(TWOPI_F) * k <= l1.t - marg) for k in range(-4, 5)])))
    tries.append(z3.BoolVal(True))
    for extra in tries:
        r, m = ctx.reachable(extra)
        if r == "sat":
            return m
    return None


SIG_TILE = "_libtoasty.pyx:_tile_intersects_latlon_bbox:rejects-tile-with-pixel-in-box"

REPLAY_TILE = """# C07 replay: a real TOAST tile with a pixel centre inside the box is rejected by the bounding-box filter
import sys
sys.path.insert(0, %(verif)r)
import props.C07 as P
sys.exit(P.replay_tile(%(planetary)r, %(pos)r, %(box)r, %(pixel)r, %(which)r))
"""


def tile_at(planetary, pos):
    cs = ToastCoordinateSystem.PLANETARY if planetary else ToastCoordinateSystem.ASTRONOMICAL
    return tt.create_single_tile(Pos(*pos), cs)


def replay_tile(planetary, pos, box, pixel, which):
    """exit status 1 iff the violation shows: the pixel centre (of the tile or of a descendant, from the real pixel
    grid) is in the box and the filter rejects the tile."""
    t = tile_at(planetary, pos)
    inb = _pixel_in_box_float(pixel, box)
    if which == "compiled":
        acc = bool(tsm._latlon_tile_filter(*box)(t))
    else:
        acc = float_bbox(t.corners, *box)
    print("tile", pos, "planetary" if planetary else "astronomical", "corners", t.corners)
    print("box (lon_min, lon_max, lat_min, lat_max)", box, "pixel centre", pixel, "in box:", inb)
    print("filter (%s) accepts the tile:" % which, acc)
    return 1 if (inb and not acc) else 0


def job_tiles(run, planetary, depth, part, nparts, mode):
    """bbox-tiles / ancestors for one slice of the real tiles."""
    tier = run.tier
    tiles = real_tiles(depth, planetary)[part::nparts]
    stats = {}
    n_paths = n_rej = 0
    caps = 0
    reported = False
    t0 = time.time()
    for t in tiles:
        pixels = selected_pixels(t) if mode == "own" else descendant_pixels(t)
        h = harness_tile(t.corners, pixels, tier)
        for ctx, out in symx.explore(h, stats=stats, max_paths=4000, timeout_ms=60000, seed=run.seed):
            n_paths += 1
            if isinstance(out, symx.PathCap):
                caps += 1
                continue
            if isinstance(out, BaseException) or isinstance(out, type):
                raise HarnessError("bbox test raised %r on tile %r" % (out, tuple(t.pos)))
            if out["result"]:
                continue
            n_rej += 1
            if reported:
                continue
            m = _robust_model(ctx, out, pixels)
            if m is None:
                continue
            box = tuple(_fval(m, x) for x in out["box"])
            pix = pixels[int(_fval(m, out["sel"]))]
            if not (box[0] < box[1] and box[2] < box[3]) or not _pixel_in_box_float(pix, box):
                run.ob("bbox-%s.rounding[%s]" % (mode, tuple(t.pos)), "inconclusive", "E4:symx", "a rejecting path exists only on a box boundary that the conversion to doubles does not keep: box %r pixel %r" % (box, pix))
                continue
            pos = tuple(int(v) for v in t.pos)
            name = "bbox-%s[%s,%s]" % (mode, "planetary" if planetary else "astronomical", pos)
            if not compiled_filter(t.corners, *box):
                which = "compiled"
            elif not float_bbox(t.corners, *box):
                which = "source"
            else:
                run.error(name, "counterexample box %r / pixel %r is accepted by both the compiled extension and the translated source on doubles" % (box, pix))
                continue
            text = REPLAY_TILE % dict(verif=core.VERIF, planetary=planetary, pos=pos, box=box, pixel=pix, which=which)
            what = ("%s tile %r has the pixel centre %r%s inside the box lon [%r, %r] lat [%r, %r] but the bounding-box filter rejects it%s"
                    % ("planetary" if planetary else "astronomical", pos, pix, "" if mode == "own" else " (of a descendant)", box[0], box[1], box[2], box[3],
                       "" if which == "compiled" else " — on the CURRENT toasty/_libtoasty.pyx (the compiled extension in this sandbox is stale: no Cython)"))
            run.violation(name, SIG_TILE + (":" + mode if mode != "own" else ""), what, text, "E4:symx")
            reported = True
    verdict = "unsat" if (n_rej == 0 and caps == 0) else ("inconclusive" if n_rej == 0 else "violated")
    if caps:
        run.ob("bbox-%s.unwinding" % mode, "inconclusive", "E4:symx", "%d paths hit the decision cap" % caps)
    run.ob("bbox-%s[%s,levels 1..%d,part %d/%d]" % (mode, "planetary" if planetary else "astronomical", depth, part + 1, nparts), verdict, "E4:symx",
           "%d real tiles x symbolic box: %d paths, %d rejecting; %.0fs" % (len(tiles), n_paths, n_rej, time.time() - t0),
           queries=stats.get("queries", 0), solver_s=stats.get("solver_s", 0.0))


def split_H(tier, seed, part="lon"):
    """Phase 1: decision prefixes of length SPLIT_DEPTH (and the paths that end earlier)."""
    stats = {"max_decisions": SPLIT_DEPTH[tier]}
    prefixes, early = [], []
    for ctx, out in symx.explore(harness_H(tier, part), stats=stats, max_paths=100000, timeout_ms=60000, seed=seed):
        if isinstance(out, symx.PathCap):
            prefixes.append([(bool(t), False) for t, _p in ctx.decisions])
        else:
            early.append((out["result"], [(bool(t), False) for t, _p in ctx.decisions]))
    return prefixes, early, stats


def job_H(run, tier, part, prefixes, label):
    stats = {"max_decisions": 400}
    n_paths = n_rej = caps = unsep = 0
    t0 = time.time()
    cex = None
    for prefix in prefixes:
        for ctx, out in symx.explore(harness_H(tier, part), stats=stats, max_paths=200000, timeout_ms=60000, seed=run.seed, root=prefix):
            n_paths += 1
            if isinstance(out, symx.PathCap):
                caps += 1
                continue
            if isinstance(out, BaseException) or isinstance(out, type):
                raise HarnessError("bbox test raised %r" % (out,))
            if not out["separated"]:
                unsep += 1
            if out["result"]:
                continue
            n_rej += 1
            if cex is None:
                m = _robust_model(ctx, out)
                if m is not None:
                    cex = dict(corners=[(_fval(m, c[0]), _fval(m, c[1])) for c in out["corners"]],
                               box=tuple(_fval(m, x) for x in out["box"]), pixel=(_fval(m, out["pix"][0]), _fval(m, out["pix"][1])))
    run.extra.setdefault("H", {})[label] = dict(part=part, paths=n_paths, rejecting=n_rej, caps=caps, unseparated=unsep, cex=cex, wall_s=round(time.time() - t0, 1),
                                               queries=stats.get("queries", 0), solver_s=round(stats.get("solver_s", 0.0), 2))
    run.queries += stats.get("queries", 0)
    run.solver_s += stats.get("solver_s", 0.0)
