"""C07 — tile filters never drop a tile holding data (E4 + E2: symbolic execution of the real filter code).

  bbox-H        the bounding-box test of toasty/_libtoasty.pyx (translated to Python from the working tree on every run,
                validated against the compiled extension) is executed on SYMBOLIC corners, box and pixel centre under
                hypothesis H on tile geometry: it returns True whenever the pixel centre is in the box; every loop ends
                inside the unwinding cap implied by the stated ranges.  A rejected H-configuration is confirmed on real
                TOAST tiles before it is reported (H is an assumption about tiles, not a derived fact).
  bbox-tiles    for EVERY real tile of levels 1..D (both coordinate systems, corners from the real _div4, pixel centres
                from the real toast_tile_get_coords) and a SYMBOLIC box: if one of the tile's selected pixel centres is in
                the box the same translated function returns True — this needs no hypothesis and is replayed through the
                public filter factory on the compiled extension.
  ancestors     the same with a pixel centre of a DESCENDANT (the filtered descent only reaches a tile through its ancestors).
  no-write      the filter closure leaves the tile untouched (the in-place sort of the .pyx runs on a copy).
  chunks        ChunkedPlateCarreeSampler: a point the chunk sampler accepts lies in that chunk's bounds; the chunk grid
                covers every map pixel exactly once; the accepted value is the whole-map planetary sampler's value.
  image-bounds  WcsSampler._image_bounds with an affine (plate-carree, CAR) WCS of SYMBOLIC coefficients: the returned
                box contains the whole image footprint (every image size in the stated set).
"""
from vlib.core import soft_attr as core_u
import math
import os
import time
from fractions import Fraction

import numpy as np
import z3

import toasty.samplers as tsm
import toasty.toast as tt
from toasty.pyramid import Pos
from toasty.toast import Tile, ToastCoordinateSystem
from vlib import core, decy, symx
from vlib.core import HarnessError
from vlib.symx import R, SymReal

PI_F = Fraction(math.pi)
TWOPI_F = Fraction(2 * math.pi)
POLAR = Fraction(1.5707963)
DEPTH = {"quick": 5, "thorough": 7}
SPLIT_DEPTH = {"quick": 15, "thorough": 17}


def _rv(x):
    return z3.Q(x.numerator, x.denominator)


# ------------------------------------------------------------------ the function under analysis

class Corners:
    """4x2 array stand-in ([i, j] and the column view [:, 0]) that records writes."""

    def __init__(self, rows):
        self.v = [list(r) for r in rows]
        self.writes = 0

    def __getitem__(self, key):
        a, b = key
        if isinstance(a, slice):
            if a != slice(None) or not isinstance(b, int):
                raise HarnessError("bbox test takes an unexpected view of its corner array: %r" % (key,))
            return _Col(self, b)
        return self.v[a][b]

    def __setitem__(self, key, val):
        a, b = key
        self.v[a][b] = val
        self.writes += 1


class _Col:
    def __init__(self, o, c):
        self.o, self.c = o, c

    def __getitem__(self, i):
        return self.o.v[i][self.c]

    def __setitem__(self, i, val):
        self.o.v[i][self.c] = val
        self.o.writes += 1

    def __len__(self):
        return 4


class _NP:
    pi = PI_F


_MOD = [None]


def sym_module():
    """The decythonised module with its float constants replaced by their exact rational values."""
    if _MOD[0] is None:
        mod, _py = decy.load()
        if not isinstance(mod.__dict__.get("TWOPI"), float):
            raise HarnessError("_libtoasty.pyx no longer defines the float constant TWOPI")
        mod.TWOPI = Fraction(mod.TWOPI)
        mod.np = _NP
        _MOD[0] = mod
    return _MOD[0]


def bbox_fn():
    return sym_module()._tile_intersects_latlon_bbox


def float_bbox(corners, l0, l1, b0, b1):
    """The CURRENT .pyx source run on floats (plain CPython)."""
    mod, _py = decy.load()
    return bool(mod.tile_intersects_latlon_bbox(np.array(corners, dtype=float), float(l0), float(l1), float(b0), float(b1)))


def compiled_filter(corners, l0, l1, b0, b1, increasing=True):
    """Through the public factory on the compiled extension."""
    f = tsm._latlon_tile_filter(float(l0), float(l1), float(b0), float(b1))
    t = Tile(Pos(5, 0, 0), tuple((float(a), float(b)) for a, b in corners), increasing)
    return bool(f(t))


def through_factory(corner_rows, l0, l1, b0, b1):
    """The verdict of the REAL filter factory samplers._latlon_tile_filter for a tile with the given corners (exact
    rationals or symbolic reals) and a (symbolic) box: the closure it returns runs with the compiled helper replaced by
    the translated .pyx on a Corners stand-in."""
    import toasty._libtoasty as lib
    fn = bbox_fn()
    seen = {}

    def helper(arr, *box):
        rows = [[arr[i][0], arr[i][1]] for i in range(4)] if not isinstance(arr, np.ndarray) or arr.dtype == object else [[Fraction(float(arr[i, 0])), Fraction(float(arr[i, 1]))] for i in range(4)]
        c = Corners(rows)
        seen["arr"] = c
        return fn(c, *box)

    saved = lib.tile_intersects_latlon_bbox
    lib.tile_intersects_latlon_bbox = helper
    try:
        flt = tsm._latlon_tile_filter(l0, l1, b0, b1)
        tile = Tile(Pos(9, 0, 0), tuple((r[0], r[1]) for r in corner_rows), True)
        n0 = len(symx.ctx().pc)
        r = flt(tile)
    finally:
        lib.tile_intersects_latlon_bbox = saved
    return bool(r), n0


# ------------------------------------------------------------------ real tiles

def real_tiles(depth, planetary):
    cs = ToastCoordinateSystem.PLANETARY if planetary else ToastCoordinateSystem.ASTRONOMICAL
    out = []

    def rec(t, lvl):
        out.append(t)
        if lvl < depth:
            for c in tt._div4(t):
                rec(c, lvl + 1)
    for t1 in tt._create_level1_tiles(cs):
        rec(t1, 1)
    return out


def selected_pixels(tile):
    """[(lon, lat)] of pixel centres from the real pixel grid: the four grid corners, the centre and the extreme
    latitudes / (unwrapped) longitudes."""
    lons, lats = tt.toast_tile_get_coords(tile)
    lc = lons[128, 128]
    un = lons - 2 * np.pi * np.round((lons - lc) / (2 * np.pi))
    idx = {(0, 0), (0, 255), (255, 0), (255, 255), (128, 128)}
    for a in (lats, un):
        idx.add(tuple(int(v) for v in np.unravel_index(np.argmin(a), a.shape)))
        idx.add(tuple(int(v) for v in np.unravel_index(np.argmax(a), a.shape)))
    return [(float(lons[i]), float(lats[i])) for i in sorted(idx)]


def descendant_pixels(tile, levels=2):
    """Pixel centres of descendants `levels` deeper that hug the tile's corners / edges (the filtered descent reaches a
    tile only through its ancestors, so an ancestor must accept a box holding only a descendant's pixel)."""
    cur = [tile]
    for _ in range(levels):
        cur = [c for t in cur for c in tt._div4(t)]
    pts = []
    for t in cur:
        lons, lats = tt.toast_tile_get_coords(t)
        for i in ((0, 0), (0, 255), (255, 0), (255, 255)):
            pts.append((float(lons[i]), float(lats[i])))
    # keep the extreme ones only (by latitude and by longitude relative to the tile centre)
    lc = pts[0][0]
    key_lon = lambda p: p[0] - 2 * math.pi * round((p[0] - lc) / (2 * math.pi))
    ext = {min(pts, key=key_lon), max(pts, key=key_lon), min(pts, key=lambda p: p[1]), max(pts, key=lambda p: p[1])}
    return sorted(ext)


# ------------------------------------------------------------------ harnesses (run under symx.explore)

def _box(ctx, tier):
    l0, l1, b0, b1 = [SymReal(z3.Real(n)) for n in ("box_lon_min", "box_lon_max", "box_lat_min", "box_lat_max")]
    span = 2 if tier == "quick" else 3
    ctx.assume(z3.And(l0.t < l1.t, b0.t < b1.t, l0.t >= -span * _rv(TWOPI_F), l0.t <= span * _rv(TWOPI_F), l1.t - l0.t <= 2 * _rv(TWOPI_F),
                      b0.t >= -_rv(PI_F), b1.t <= _rv(PI_F)))
    return l0, l1, b0, b1


def _in_box(l0, l1, b0, b1, plon, plat, ks):
    """z3: (plon + 2 pi k, plat) in the closed box for some integer k of the list `ks` (z3 Int terms)."""
    return z3.And(plat >= b0.t, plat <= b1.t, z3.Or(*[z3.And(plon + _rv(TWOPI_F) * k >= l0.t, plon + _rv(TWOPI_F) * k <= l1.t) for k in ks]))


def harness_tile(corners, pixels, tier):
    """Concrete corners (exact rationals of the doubles), symbolic box; some selected pixel centre is in the box."""
    fn = bbox_fn()
    cf = [[Fraction(a), Fraction(b)] for a, b in corners]

    def h(ctx):
        l0, l1, b0, b1 = _box(ctx, tier)
        ks = [z3.IntVal(k) for k in range(-4, 5)]
        sel = z3.Int("pixel_index")
        ctx.assume(z3.And(sel >= 0, sel < len(pixels)))
        ctx.assume(z3.Or(*[z3.And(sel == n, _in_box(l0, l1, b0, b1, _rv(Fraction(p[0])), _rv(Fraction(p[1])), ks)) for n, p in enumerate(pixels)]))
        r, _n0 = through_factory(corners, l0, l1, b0, b1)
        return dict(result=r, box=(l0, l1, b0, b1), sel=sel)
    return h


def _names(t):
    from z3 import z3util
    return {str(v) for v in z3util.get_vars(t)}


def _phase_separation(ctx, n0):
    """The branch conditions of the call (ctx.pc[n0:]) never mention a latitude once a longitude has been tested:
    the latitude part and the longitude part of the function are independent, so the claim is decided separately for
    every latitude order (part 'lat') and every longitude order (part 'lon')."""
    seen_lon = False
    for c in ctx.pc[n0:]:
        nm = _names(c)
        is_lon = any(v.startswith("lon") or v.startswith("box_lon") for v in nm)
        is_lat = any(v.startswith("lat") or v.startswith("box_lat") for v in nm)
        if is_lon:
            seen_lon = True
        if is_lat and seen_lon:
            return False
    return True


def harness_H(tier, part):
    """part 'lon': symbolic longitudes (every order, every wrap), latitudes in a fixed order and non-polar;
    part 'lat': symbolic latitudes (every order, polar tiles included), longitudes trivially overlapping."""
    fn = bbox_fn()
    tp = _rv(TWOPI_F)
    pi = _rv(PI_F)

    def h(ctx):
        l0, l1, b0, b1 = _box(ctx, tier)
        lat = [z3.Real("lat%d" % i) for i in range(4)]
        pl, pb = z3.Reals("pix_lon pix_lat")
        for x in lat:
            ctx.assume(z3.And(x >= -pi / 2, x <= pi / 2))
        # H (latitude): the pixel centre lies within the corner latitude range (touching allowed)
        ctx.assume(z3.And(z3.Or(*[pb >= x for x in lat]), z3.Or(*[pb <= x for x in lat]), pb >= b0.t, pb <= b1.t))
        if part == "lon":
            lon = [z3.Real("lon%d" % i) for i in range(4)]
            lo, hi = (-pi, pi) if tier == "quick" else (-tp, 2 * tp)
            for x in lon:
                ctx.assume(z3.And(x >= lo, x <= hi))
            ctx.assume(z3.And(lat[0] <= lat[1], lat[1] <= lat[2], lat[2] <= lat[3], lat[3] <= _rv(POLAR), lat[0] >= -_rv(POLAR)))
            kr = 4
            ks = [z3.Int("k%d" % i) for i in range(4)]
            kp = z3.Int("kp")
            m, M = z3.Reals("hull_min hull_max")
            u = [lon[i] + tp * z3.ToReal(ks[i]) for i in range(4)]
            ctx.assume(z3.And(*[z3.And(k >= -kr, k <= kr) for k in ks + [kp]]))
            # H (longitude): the unwrapped corner longitudes fill an arc [m, M] shorter than pi whose ends are attained,
            # the pixel centre is strictly inside it, and it is in the box modulo 2 pi
            ctx.assume(z3.And(M - m < pi, *[z3.And(x >= m, x <= M) for x in u]))
            ctx.assume(z3.Or(*[x == m for x in u]))
            ctx.assume(z3.Or(*[x == M for x in u]))
            ctx.assume(z3.And(pl > m, pl < M, pl + tp * z3.ToReal(kp) >= l0.t, pl + tp * z3.ToReal(kp) <= l1.t))
        else:
            lon = [z3.RealVal(0)] * 4
            ctx.assume(z3.And(l0.t == -1, l1.t == 1, pl == 0))
        r, n0 = through_factory([[SymReal(lon[i]), SymReal(lat[i])] for i in range(4)], l0, l1, b0, b1)
        return dict(result=r, box=(l0, l1, b0, b1), corners=[(lon[i], lat[i]) for i in range(4)], pix=(pl, pb),
                    separated=_phase_separation(ctx, n0))
    return h


def _fval(m, t):
    v = m.eval(R(t) if not z3.is_expr(t) else t, model_completion=True)
    if z3.is_int_value(v):
        return v.as_long()
    if z3.is_rational_value(v):
        return float(Fraction(v.numerator_as_long(), v.denominator_as_long()))
    if z3.is_algebraic_value(v):
        return float(v.approx(20).as_decimal(20).rstrip("?"))
    raise HarnessError("model value %r" % v)


def _pixel_in_box_float(p, box):
    """Exact test on the doubles handed to the real code."""
    l0, l1, b0, b1 = [Fraction(float(x)) for x in box]
    plon, plat = Fraction(float(p[0])), Fraction(float(p[1]))
    if not (b0 <= plat <= b1):
        return False
    return any(l0 <= plon + TWOPI_F * k <= l1 for k in range(-8, 9))


def _robust_model(ctx, out, pixels=None):
    """A model of the rejecting path, preferring one where the pixel sits inside the box with a margin (so that the
    conversion of the box to doubles keeps the configuration)."""
    l0, l1, b0, b1 = out["box"]
    marg = z3.Q(1, 10 ** 7)
    tries = []
    if pixels is not None:
        alts = []
        for n, p in enumerate(pixels):
            plon, plat = _rv(Fraction(p[0])), _rv(Fraction(p[1]))
            inside = z3.Or(*[z3.And(plon + _rv(TWOPI_F) * k >= l0.t + marg, plon + _rv(TWOPI_F) * k <= l1.t - marg) for k in range(-4, 5)])
            alts.append(z3.And(out["sel"] == n, plat >= b0.t + marg, plat <= b1.t - marg, inside))
        tries.append(z3.Or(*alts))
    else:
        pl, pb = out["pix"]
        tries.append(z3.And(pb >= b0.t + marg, pb <= b1.t - marg, z3.Or(*[z3.And(pl + _rv(TWOPI_F) * k >= l0.t + marg, pl + _rv(TWOPI_F) * k <= l1.t - marg) for k in range(-4, 5)])))
    tries.append(z3.BoolVal(True))
    for extra in tries:
        r, m = ctx.reachable(extra)
        if r == "sat":
            return m
    return None


SIG_TILE = "_libtoasty.pyx:_tile_intersects_latlon_bbox:rejects-tile-with-pixel-in-box"

REPLAY_TILE = """# C07 replay: a real TOAST tile with a pixel centre inside the box is rejected by the bounding-box filter
import sys
sys.path.insert(0, %(verif)r)
import props.C07 as P
sys.exit(P.replay_tile(%(planetary)r, %(pos)r, %(box)r, %(pixel)r, %(which)r))
"""


def tile_at(planetary, pos):
    cs = ToastCoordinateSystem.PLANETARY if planetary else ToastCoordinateSystem.ASTRONOMICAL
    return tt.create_single_tile(Pos(*pos), cs)


def replay_tile(planetary, pos, box, pixel, which):
    """exit status 1 iff the violation shows: the pixel centre (of the tile or of a descendant, from the real pixel
    grid) is in the box and the filter rejects the tile."""
    t = tile_at(planetary, pos)
    inb = _pixel_in_box_float(pixel, box)
    if which == "compiled":
        acc = bool(tsm._latlon_tile_filter(*box)(t))
    else:
        acc = float_bbox(t.corners, *box)
    print("tile", pos, "planetary" if planetary else "astronomical", "corners", t.corners)
    print("box (lon_min, lon_max, lat_min, lat_max)", box, "pixel centre", pixel, "in box:", inb)
    print("filter (%s) accepts the tile:" % which, acc)
    return 1 if (inb and not acc) else 0


def job_tiles(run, planetary, depth, part, nparts, mode):
    """bbox-tiles / ancestors for one slice of the real tiles."""
    tier = run.tier
    tiles = real_tiles(depth, planetary)[part::nparts]
    stats = {}
    n_paths = n_rej = 0
    caps = 0
    reported = False
    t0 = time.time()
    for t in tiles:
        pixels = selected_pixels(t) if mode == "own" else descendant_pixels(t)
        h = harness_tile(t.corners, pixels, tier)
        for ctx, out in symx.explore(h, stats=stats, max_paths=4000, timeout_ms=60000, seed=run.seed):
            n_paths += 1
            if isinstance(out, symx.PathCap):
                caps += 1
                continue
            if isinstance(out, BaseException) or isinstance(out, type):
                raise HarnessError("bbox test raised %r on tile %r" % (out, tuple(t.pos)))
            if out["result"]:
                continue
            n_rej += 1
            if reported:
                continue
            m = _robust_model(ctx, out, pixels)
            if m is None:
                continue
            box = tuple(_fval(m, x) for x in out["box"])
            pix = pixels[int(_fval(m, out["sel"]))]
            if not (box[0] < box[1] and box[2] < box[3]) or not _pixel_in_box_float(pix, box):
                run.ob("bbox-%s.rounding[%s]" % (mode, tuple(t.pos)), "inconclusive", "E4:symx", "a rejecting path exists only on a box boundary that the conversion to doubles does not keep: box %r pixel %r" % (box, pix))
                continue
            pos = tuple(int(v) for v in t.pos)
            name = "bbox-%s[%s,%s]" % (mode, "planetary" if planetary else "astronomical", pos)
            if not compiled_filter(t.corners, *box):
                which = "compiled"
            elif not float_bbox(t.corners, *box):
                which = "source"
            else:
                run.ob("bbox-%s.rounding[%s]" % (mode, pos), "inconclusive", "E4:symx", "a rejecting path over the reals (box %r, pixel %r) is accepted by both the compiled extension and the translated source "
                       "on doubles: real-vs-double boundary, not reported" % (box, pix))
                continue
            text = REPLAY_TILE % dict(verif=core.VERIF, planetary=planetary, pos=pos, box=box, pixel=pix, which=which)
            what = ("%s tile %r has the pixel centre %r%s inside the box lon [%r, %r] lat [%r, %r] but the bounding-box filter rejects it%s"
                    % ("planetary" if planetary else "astronomical", pos, pix, "" if mode == "own" else " (of a descendant)", box[0], box[1], box[2], box[3],
                       "" if which == "compiled" else " — on the CURRENT toasty/_libtoasty.pyx (the compiled extension in this sandbox is stale: no Cython)"))
            run.violation(name, SIG_TILE + (":" + mode if mode != "own" else ""), what, text, "E4:symx")
            reported = True
    verdict = "unsat" if (n_rej == 0 and caps == 0) else ("inconclusive" if n_rej == 0 else "violated")
    if caps:
        run.ob("bbox-%s.unwinding" % mode, "inconclusive", "E4:symx", "%d paths hit the decision cap" % caps)
    run.ob("bbox-%s[%s,levels 1..%d,part %d/%d]" % (mode, "planetary" if planetary else "astronomical", depth, part + 1, nparts), verdict, "E4:symx",
           "%d real tiles x symbolic box: %d paths, %d rejecting; %.0fs" % (len(tiles), n_paths, n_rej, time.time() - t0),
           queries=stats.get("queries", 0), solver_s=stats.get("solver_s", 0.0))


def split_H(tier, seed, part="lon"):
    """Phase 1: decision prefixes of length SPLIT_DEPTH (and the paths that end earlier)."""
    stats = {"max_decisions": SPLIT_DEPTH[tier]}
    prefixes, early = [], []
    for ctx, out in symx.explore(harness_H(tier, part), stats=stats, max_paths=100000, timeout_ms=60000, seed=seed):
        if isinstance(out, symx.PathCap):
            prefixes.append([(bool(t), False) for t, _p in ctx.decisions])
        else:
            early.append((out["result"] and out["separated"], [(bool(t), False) for t, _p in ctx.decisions]))
    return prefixes, early, stats


def job_H(run, tier, part, prefixes, label):
    stats = {"max_decisions": 400}
    n_paths = n_rej = caps = unsep = 0
    t0 = time.time()
    cex = None
    for prefix in prefixes:
        for ctx, out in symx.explore(harness_H(tier, part), stats=stats, max_paths=200000, timeout_ms=60000, seed=run.seed, root=prefix):
            n_paths += 1
            if isinstance(out, symx.PathCap):
                caps += 1
                continue
            if isinstance(out, BaseException) or isinstance(out, type):
                raise HarnessError("bbox test raised %r" % (out,))
            if not out["separated"]:
                unsep += 1
            if out["result"]:
                continue
            n_rej += 1
            if cex is None:
                m = _robust_model(ctx, out)
                if m is not None:
                    cex = dict(corners=[(_fval(m, c[0]), _fval(m, c[1])) for c in out["corners"]],
                               box=tuple(_fval(m, x) for x in out["box"]), pixel=(_fval(m, out["pix"][0]), _fval(m, out["pix"][1])))
    run.extra.setdefault("H", {})[label] = dict(part=part, paths=n_paths, rejecting=n_rej, caps=caps, unseparated=unsep, cex=cex, wall_s=round(time.time() - t0, 1),
                                               queries=stats.get("queries", 0), solver_s=round(stats.get("solver_s", 0.0), 2))
    run.queries += stats.get("queries", 0)
    run.solver_s += stats.get("solver_s", 0.0)


# ------------------------------------------------------------------ the filter closure does not modify the tile

def harness_any_box(corners, tier):
    fn = bbox_fn()
    cf = [[Fraction(float(a)), Fraction(float(b))] for a, b in corners]

    def h(ctx):
        l0, l1, b0, b1 = _box(ctx, tier)
        arr = Corners(cf)
        r = fn(arr, l0, l1, b0, b1)
        return dict(result=bool(r), box=(l0, l1, b0, b1), writes=arr.writes)
    return h


def filter_changes_tile(planetary, pos, box, which="compiled"):
    """Replay: does running the filter (or the current .pyx source on the very array the closure would pass) change
    the tile's corners?"""
    t = tile_at(planetary, pos) if pos[0] > 1 else [x for x in tt._create_level1_tiles(ToastCoordinateSystem.PLANETARY if planetary else ToastCoordinateSystem.ASTRONOMICAL) if tuple(x.pos) == tuple(pos)][0]
    snap = [tuple(float(v) for v in c) for c in t.corners]
    if which == "compiled":
        tsm._latlon_tile_filter(*box)(t)
    else:
        mod, _py = decy.load()
        mod.tile_intersects_latlon_bbox(np.asarray(t.corners), *box)
    after = [tuple(float(v) for v in c) for c in t.corners]
    print("corners before", snap)
    print("corners after ", after)
    return snap != after


def no_write_check(depth, tier="quick"):
    """Real closure + real compiled function on real tiles from every construction route: the tile's corners have the
    same values afterwards.  Where np.asarray(tile.corners) hands the tile's OWN memory to the compiled function (no
    copy), the translated function is executed on that tile with a SYMBOLIC box: no path may write to its argument.
    -> (n_tiles, n_shared, n_paths, problems[(pos, text, planetary, box, which)])"""
    import toasty._libtoasty as lib
    seen = []
    real = lib.tile_intersects_latlon_bbox

    def spy(arr, *a):
        seen.append(arr)
        return real(arr, *a)

    problems = []
    n = n_shared = n_paths = 0
    lib.tile_intersects_latlon_bbox = spy
    try:
        flt = tsm._latlon_tile_filter(0.3, 2.9, -0.4, 0.9)
        for planetary in (False, True):
            cs = ToastCoordinateSystem.PLANETARY if planetary else ToastCoordinateSystem.ASTRONOMICAL
            routes = list(real_tiles(depth, planetary)) + [tt.create_single_tile(Pos(3, 5, 2), cs)] + list(tt.generate_tiles(2, bottom_only=False, coordsys=cs)) + \
                list(tt.generate_tiles_filtered(2, lambda t: True, bottom_only=False, coordsys=cs))
            for t in routes:
                n += 1
                snap = [tuple(float(v) for v in c) for c in t.corners]
                del seen[:]
                flt(t)
                after = [tuple(float(v) for v in c) for c in t.corners]
                pos = tuple(int(v) for v in t.pos)
                if snap != after:
                    problems.append((pos, "corners changed from %r to %r" % (snap, after), planetary, (0.3, 2.9, -0.4, 0.9), "compiled"))
                    continue
                owned = [c for c in [t.corners] + list(t.corners) if isinstance(c, np.ndarray)]
                if any(np.shares_memory(arr, o) for arr in seen for o in owned):
                    n_shared += 1
                    for ctx, out in symx.explore(harness_any_box(snap, tier), stats={}, max_paths=2000, timeout_ms=60000):
                        n_paths += 1
                        if isinstance(out, dict) and out["writes"]:
                            r, m = ctx.reachable(True)
                            if r != "sat":
                                continue
                            box = tuple(_fval(m, x) for x in out["box"])
                            lib.tile_intersects_latlon_bbox = real
                            try:
                                which = "compiled" if filter_changes_tile(planetary, pos, box, "compiled") else ("source" if filter_changes_tile(planetary, pos, box, "source") else None)
                            finally:
                                lib.tile_intersects_latlon_bbox = spy
                            if which:
                                problems.append((pos, "the filter for the box %r sorts the tile's own corner array in place" % (box,), planetary, box, which))
                                break
    finally:
        lib.tile_intersects_latlon_bbox = real
    return n, n_shared, n_paths, problems


# ------------------------------------------------------------------ check

def check(run):
    tier = run.tier
    depth = DEPTH[tier]
    mod, _py = decy.load()
    run.uses("toasty/_libtoasty.pyx:_tile_intersects_latlon_bbox (decythonised)", "toasty/_libtoasty.pyx:_order_pair_1d (decythonised)", core_u(tsm, "_latlon_tile_filter"),
             core_u(tt, "_div4"), core_u(tt, "_create_level1_tiles"), tt.toast_tile_get_coords)
    val = decy.validate(mod, seed=run.seed)
    run.ob("decythonised-module-matches-compiled-extension", "confirmed" if val["bbox_disagreements"] == 0 else "inconclusive", "E4:translation-validation",
           "%s (the compiled extension cannot be rebuilt here: no Cython; a disagreement means the .so is stale w.r.t. the .pyx)" % val)
    run.replays += 1
    if Fraction(float(sym_module().TWOPI)) != 2 * PI_F:
        run.ob("twopi-is-2pi", "inconclusive", "", "the TWOPI of the .pyx is not twice numpy's pi")
    run.bound(real_tiles="every tile of levels 1..%d, both coordinate systems (%d tiles); pixel centres: grid corners, centre, extreme latitude / longitude of the real 256x256 grid; "
              "descendant pixel centres: extreme ones two levels deeper" % (depth, 2 * sum(4 ** k for k in range(1, depth + 1))),
              box="symbolic: lon_min in [-%d, %d] * 2pi, width in (0, 4pi], latitudes in [-pi, pi]; pixel longitude + 2 pi k, |k| <= 4" % ((2, 2) if tier == "quick" else (3, 3)),
              H_corners="symbolic corner longitudes in %s, every order and wrap; latitudes every order (polar tiles included)" % ("[-pi, pi] (what atan2 in _mid produces)" if tier == "quick" else "[-2pi, 4pi]"),
              unwinding="loops are executed until they exit; a path needing more than 400 decisions is reported, not cut")
    run.assume("reals for doubles (every constant is the exact rational value of the double in the source)",
               "H (only for bbox-H): unwrapped corner longitudes of a non-polar tile lie in an arc shorter than pi whose ends are corners; a pixel centre is strictly inside that arc and within the corner latitude range",
               "the latitude part and the longitude part of the test are independent (checked on every explored path: no latitude in a branch condition once a longitude has been tested)")
    run.outside("pixel centres other than the selected ones for the real-tile obligations", "tiles deeper than the stated level for the real-tile obligations (bbox-H covers every depth under H)",
                "WcsSampler._image_bounds for non-affine projections (wcslib)", "float rounding inside the compiled loop (+= TWOPI)")
    only = getattr(run, "only", None) or []

    def want(tag):
        return not only or any(o in tag for o in only)

    jobs = []
    nparts = 8
    if want("bbox-tiles"):
        jobs += [("tiles", pl, depth, k, nparts, "own") for pl in (False, True) for k in range(nparts)]
    if want("ancestors"):
        jobs += [("tiles", pl, max(1, depth - 1), k, nparts, "desc") for pl in (False, True) for k in range(nparts)]
    hjobs = []
    if want("bbox-H"):
        for part in ("lat", "lon"):
            prefixes, early, st = split_H(tier, run.seed, part)
            run.queries += st.get("queries", 0)
            # paths that ended before the split depth are explored paths of this part; rejecting ones are re-run in a
            # job (which extracts the counterexample)
            run.extra.setdefault("H", {})["%s-split" % part] = dict(part=part, paths=len([1 for res, _p in early if res]), rejecting=0, caps=0, unseparated=0, cex=None,
                                                                     wall_s=0.0, queries=st.get("queries", 0), solver_s=round(st.get("solver_s", 0.0), 2))
            if any(not res for res, _p in early):
                prefixes = prefixes + [p for res, p in early if not res]
            chunks = [prefixes[i::15] for i in range(15)] if part == "lon" else [prefixes]
            hjobs += [("H", tier, part, ch, "%s-%d" % (part, i)) for i, ch in enumerate(chunks) if ch]
    if want("chunks"):
        g = GRIDS[tier]
        jobs += [("chunks", g[i::4]) for i in range(4) if g[i::4]]
    if want("image-bounds"):
        sz = SIZES[tier]
        heavy = [x for x in sz if x[2] % 90 != 0]
        light = [x for x in sz if x[2] % 90 == 0]
        jobs += [("bounds", [x]) for x in heavy] + [("bounds", light[i::3]) for i in range(3) if light[i::3]]
        jobs += [("interior", [x]) for x in INTERIOR_SIZES[tier]]
    # longest first
    order = {"H": 0, "bounds": 1, "interior": 1, "tiles": 2, "chunks": 3}
    alljobs = sorted(hjobs + jobs, key=lambda j: order[j[0]])
    core.run_parallel(run, __name__, "job_any", alljobs, timeout_s=1500 if tier == "quick" else 20000)
    if want("bbox-H"):
        H = run.extra.get("H", {})
        for part in ("lat", "lon"):
            recs = [v for v in H.values() if v["part"] == part]
            paths = sum(v["paths"] for v in recs)
            rej = sum(v["rejecting"] for v in recs)
            caps = sum(v["caps"] for v in recs)
            unsep = sum(v["unseparated"] for v in recs)
            nm = "bbox-H[%s]" % part
            det = "%d paths over %d partitions; %d rejecting, %d over the decision cap, %d without lat/lon separation" % (paths, len(recs), rej, caps, unsep)
            if not recs or len(recs) < len([j for j in hjobs if j[2] == part]) + 1:
                run.ob(nm, "inconclusive", "E4:symx", "a partition did not finish: " + det)
            elif rej == 0 and caps == 0 and unsep == 0:
                run.ob(nm, "unsat", "E4:symx", det + ": under H the test accepts every tile with a pixel centre in the box")
            elif rej:
                cex = [v["cex"] for v in recs if v["cex"]][:1]
                real = [v for v in run.violations if v[1].startswith(SIG_TILE)]
                run.ob(nm, "violated" if real else "inconclusive", "E4:symx",
                       det + "; rejected H-configuration %r — %s" % (cex, "real tiles reproduce a rejection (reported above)" if real else
                                                                    "NOT reported as a violation: no real TOAST tile to level %d reproduces it (H is an assumption about tiles; the function may rely on more than H)" % depth))
            else:
                run.ob(nm, "inconclusive", "E4:symx", det)
    # no write
    if want("no-write"):
        n, n_shared, n_paths, problems = no_write_check(min(depth, 4), tier)
        if problems:
            pos, text, planetary, box, which = problems[0]
            run.violation("no-write", "samplers.py:_latlon_tile_filter:modifies-tile", "the filter modifies the tile it inspects: %s tile %r: %s%s" % (
                "planetary" if planetary else "astronomical", pos, text, "" if which == "compiled" else " — on the CURRENT toasty/_libtoasty.pyx (the compiled extension here is stale)"),
                          "import sys\nsys.path.insert(0, %r)\nimport props.C07 as P\nsys.exit(1 if P.filter_changes_tile(%r, %r, %r, %r) else 0)\n" % (core.VERIF, planetary, pos, box, which), "E4:symx+execution")
        else:
            run.ob("no-write", "unsat", "E4:symx+execution", "%d real tiles from every construction route keep their corner values; %d of them hand their own memory to the compiled function "
                   "(np.asarray makes no copy): for those the translated function was executed with a symbolic box, %d paths, none writes to its argument" % (n, n_shared, n_paths), queries=n_paths)
        run.replays += 1


# ------------------------------------------------------------------ chunked plate-carree maps

class V:
    """One element of a request array as the sampler closure sees it (arithmetic, comparisons, np.round, astype,
    boolean-mask selection), carrying a symx scalar."""

    def __init__(self, v):
        self.v = v

    @staticmethod
    def _u(o):
        return o.v if isinstance(o, V) else o

    def __add__(s, o): return V(s.v + V._u(o))
    def __radd__(s, o): return V(V._u(o) + s.v)
    def __sub__(s, o): return V(s.v - V._u(o))
    def __rsub__(s, o): return V(V._u(o) - s.v)
    def __mul__(s, o): return V(s.v * V._u(o))
    def __rmul__(s, o): return V(V._u(o) * s.v)
    def __truediv__(s, o): return V(s.v / V._u(o))
    def __mod__(s, o): return V(s.v % V._u(o))
    def __neg__(s): return V(-s.v)
    def __lt__(s, o): return V(s.v < V._u(o))
    def __le__(s, o): return V(s.v <= V._u(o))
    def __gt__(s, o): return V(s.v > V._u(o))
    def __ge__(s, o): return V(s.v >= V._u(o))
    def __and__(s, o): return V(s.v & V._u(o))
    __rand__ = __and__
    def __or__(s, o): return V(s.v | V._u(o))
    def __invert__(s): return V(~s.v)

    def any(s, *a, **k):
        # over the whole request array: true at the inspected element, or at some other element (unconstrained)
        _ANY_COUNTER[0] += 1
        return s.v | symx.SymBool(z3.Bool("any_other_%d" % _ANY_COUNTER[0]))

    def all(s, *a, **k):
        _ANY_COUNTER[0] += 1
        return s.v & symx.SymBool(z3.Bool("all_other_%d" % _ANY_COUNTER[0]))

    def round(s, decimals=0, out=None):
        from vlib import symnp
        return V(symnp.round_(s.v))

    def astype(s, dt):
        return V(s.v.astype(dt)) if hasattr(s.v, "astype") else s

    def __getitem__(s, mask):
        if not isinstance(mask, V) or not isinstance(mask.v, symx.SymBool):
            raise HarnessError("the chunk sampler selects with something else than a boolean mask: %r" % (mask,))
        return Sel(s.v, mask.v)


class Sel:
    def __init__(self, v, cond):
        self.v, self.cond = v, cond


_ANY_COUNTER = [0]


class _NPShim:
    def __init__(self, bi, bj):
        self._b = (bi, bj)

    def indices(self, shape):
        if tuple(shape) != (256, 256):
            raise HarnessError("chunk sampler asks for indices%r" % (shape,))
        return V(self._b[0]), V(self._b[1])

    def __getattr__(self, name):
        return getattr(np, name)


class FakeChunked:
    """The real chunk-grid arithmetic of ChunkedJPEG2000Reader over a stand-in file (shape and tile shape only)."""

    def __new__(cls, gh, gw, th, tw):
        import toasty.jpeg2000 as tj

        class R(tj.ChunkedJPEG2000Reader):
            def chunk_data(self, ichunk):
                x0, y0, w, h = self.chunk_spec(ichunk)
                return type("Data", (), {"shape": (h, w)})()

        r = object.__new__(R)
        r._jp2 = type("J", (), {"shape": (gh, gw)})()
        r._tile_shape = (th, tw)
        r._fake_data = True
        return r


def chunk_partition_problems(img):
    """The chunk rectangles tile the image: every pixel in exactly one chunk (plain integer computation)."""
    gh, gw = img.shape[:2]
    cover = np.zeros((gh, gw), dtype=int)
    for k in range(img.n_chunks):
        x, y, w, h = img.chunk_spec(k)
        if w <= 0 or h <= 0 or x < 0 or y < 0 or x + w > gw or y + h > gh:
            return "chunk %d = %r leaves the %dx%d image" % (k, (x, y, w, h), gw, gh)
        cover[y:y + h, x:x + w] += 1
    if not (cover == 1).all():
        return "pixels covered %r times" % (sorted(set(cover.flatten().tolist())),)
    return None


def chunk_case(gh, gw, th, tw):
    """-> (n_queries, problems) for one grid: bounds handed to the filter, and per chunk: for EVERY (lon, lat) strictly
    inside a map cell (gx, gy): the chunk sampler accepts the point iff the cell belongs to the chunk, and then reads
    chunk pixel (gy - cy, gx - cx)."""
    import toasty.image as ti
    img = FakeChunked(gh, gw, th, tw)
    problems = []
    p = chunk_partition_problems(img)
    if p:
        return 0, [("partition", p)]
    smp = tsm.ChunkedPlateCarreeSampler(img, planetary=True)
    nq = 0
    EPS = z3.Q(1, 10 ** 9)
    wdt = _rv(TWOPI_F) / gw
    hgt = _rv(PI_F) / gh
    for k in range(img.n_chunks):
        cx, cy, cw, ch = img.chunk_spec(k)
        # the box handed to the filter factory
        got = []
        saved = tsm._latlon_tile_filter
        tsm._latlon_tile_filter = lambda *a: got.append(a) or (lambda tile: True)
        try:
            smp.filter(k)
        finally:
            tsm._latlon_tile_filter = saved
        want = (-math.pi + cx * 2 * math.pi / gw, -math.pi + (cx + cw) * 2 * math.pi / gw, math.pi / 2 - (cy + ch) * math.pi / gh, math.pi / 2 - cy * math.pi / gh)
        if len(got) != 1 or len(got[0]) != 4 or any(abs(float(a) - b) > 1e-9 for a, b in zip(got[0], want)):
            problems.append(("filter-box", "chunk %d %r of a %dx%d map: filter box %r, chunk rectangle %r" % (k, (cx, cy, cw, ch), gw, gh, got, want)))
            continue
        res = {}

        def h(ctx, k=k, cx=cx, cy=cy, cw=cw, ch=ch):
            lon, lat = z3.Reals("req_lon req_lat")
            bi, bj, gx, gy, m = z3.Ints("bi bj gx gy turn")
            ctx.assume(z3.And(lat >= -_rv(PI_F) / 2, lat <= _rv(PI_F) / 2, lon >= -4 * _rv(TWOPI_F), lon <= 4 * _rv(TWOPI_F), bi >= 0, bi < 256, bj >= 0, bj < 256,
                              gx >= 0, gx < gw, gy >= 0, gy < gh, m >= -5, m <= 5))
            # (lon, lat) strictly inside map cell (gx, gy), longitude modulo 2 pi
            l0 = lon - _rv(TWOPI_F) * z3.ToReal(m)
            ctx.assume(z3.And(l0 > -_rv(PI_F) + z3.ToReal(gx) * wdt + EPS, l0 < -_rv(PI_F) + z3.ToReal(gx + 1) * wdt - EPS,
                              lat < _rv(PI_F) / 2 - z3.ToReal(gy) * hgt - EPS, lat > _rv(PI_F) / 2 - z3.ToReal(gy + 1) * hgt + EPS))
            calls = []

            class Buf:
                """Content of the 256x256 maskable buffer AT THE INSPECTED PIXEL (bi, bj): (defined?, source row, source col).
                A new buffer is uninitialised (np.empty): unconstrained."""

                def __init__(self):
                    self.defined = z3.Bool("buf0_defined")
                    self.row, self.col = z3.Int("buf0_row"), z3.Int("buf0_col")

                def clear(self):
                    self.defined = z3.BoolVal(False)

                def asarray(self):
                    return ("BUFFER", self.defined, self.row, self.col)

                _as_writeable_array = asarray

            class FakeImg:
                class mode:
                    @staticmethod
                    def make_maskable_buffer(hh, ww):
                        return Buf()

                @classmethod
                def from_array(cls, data):
                    return cls()

                def fill_into_maskable_buffer(self, buffer, iy, ix, biy, bix):
                    calls.append((iy, ix, biy, bix))
                    if not all(isinstance(c, Sel) for c in (iy, ix, biy, bix)):
                        raise HarnessError("chunk sampler fills its buffer with something other than mask-selected index arrays")
                    if not all(z3.eq(c.cond.t, iy.cond.t) for c in (ix, biy, bix)):
                        raise HarnessError("chunk sampler selects its index arrays with different masks")
                    # fill = everything undefined, then exactly the addressed points defined (C15): at the inspected pixel
                    hit = z3.And(iy.cond.t, symx.I(biy.v) == bi, symx.I(bix.v) == bj)
                    buffer.defined = hit
                    buffer.row, buffer.col = symx.I(iy.v), symx.I(ix.v)

            saved_img, saved_np = ti.Image, tsm.np
            ti.Image = FakeImg
            tsm.np = _NPShim(symx.SymInt(bi), symx.SymInt(bj))
            # a HISTORY of two requests through the same sampler closure (it keeps one buffer): an arbitrary earlier tile,
            # then the inspected one
            lon_p, lat_p = z3.Reals("prev_lon prev_lat")
            ctx.assume(z3.And(lat_p >= -_rv(PI_F) / 2, lat_p <= _rv(PI_F) / 2, lon_p >= -4 * _rv(TWOPI_F), lon_p <= 4 * _rv(TWOPI_F)))
            try:
                fn = smp.sampler(k)
                out_p = fn(V(SymReal(lon_p)), V(SymReal(lat_p)))
                out = fn(V(SymReal(lon)), V(SymReal(lat)))
            finally:
                ti.Image, tsm.np = saved_img, saved_np
            if not (isinstance(out, tuple) and out and out[0] == "BUFFER"):
                raise HarnessError("chunk sampler does not return its maskable buffer's array")
            _tag, defined, row, col = out
            inchunk = z3.And(gx >= cx, gx < cx + cw, gy >= cy, gy < cy + ch)
            claim = z3.And(defined == inchunk, z3.Implies(inchunk, z3.And(col == gx - cx, row == gy - cy)))
            r, mdl = ctx.prove(claim)
            rr, _m = ctx.reachable(inchunk)
            return r, rr, (None if mdl is None else dict(lon=_fval(mdl, lon), lat=_fval(mdl, lat), cell=(_fval(mdl, gx), _fval(mdl, gy)), prev=(_fval(mdl, z3.Real("prev_lon")), _fval(mdl, z3.Real("prev_lat")))))

        reach = False
        for ctx, out in symx.explore(h, stats=res, max_paths=64, timeout_ms=60000):
            nq += 2
            if not isinstance(out, tuple):
                problems.append(("chunk", "exploration ended with %r" % (out,)))
                continue
            r, rr, cex = out
            reach = reach or rr == "sat"
            if r == "sat":
                problems.append(("chunk-sampler", dict(grid=(gh, gw, th, tw), chunk=k, spec=(cx, cy, cw, ch), point=cex)))
            elif r != "unsat":
                problems.append(("unknown", "chunk %d: solver %s" % (k, r)))
        if not reach:
            problems.append(("unknown", "chunk %d: no path on which a cell of the chunk is requested (vacuous)" % k))
    return nq, problems


def chunk_point_replay(gh, gw, th, tw, k, lon, lat, prev=None):
    """Real sampler closure (real numpy, real Image) on a chunk whose pixels carry their global index: the value
    returned for (lon, lat) must be the map cell containing the point iff that cell is in the chunk.  -> True if wrong."""
    img = FakeChunked(gh, gw, th, tw)
    cx, cy, cw, ch = img.chunk_spec(k)
    glob = (np.arange(gh * gw, dtype=np.float32) + 1).reshape((gh, gw))
    img.chunk_data = lambda ichunk: glob[cy:cy + ch, cx:cx + cw].copy()
    smp = tsm.ChunkedPlateCarreeSampler(img, planetary=True)
    fn = smp.sampler(k)
    if prev is not None:
        # an earlier request through the same closure (it keeps one buffer between calls)
        fn(np.full((256, 256), float(prev[0])), np.full((256, 256), float(prev[1])))
    lons = np.full((256, 256), float(lon))
    lats = np.full((256, 256), float(lat))
    out = fn(lons, lats)
    got = out[7, 9]
    ln = (lon + math.pi) % (2 * math.pi) - math.pi
    gx = min(int((ln + math.pi) / (2 * math.pi / gw)), gw - 1)
    gy = min(int((math.pi / 2 - lat) / (math.pi / gh)), gh - 1)
    inchunk = cx <= gx < cx + cw and cy <= gy < cy + ch
    want = glob[gy, gx] if inchunk else None
    print("grid", (gh, gw, th, tw), "chunk", k, (cx, cy, cw, ch), "point", (lon, lat), "cell", (gx, gy), "in chunk", inchunk, "sampled", got, "expected", want)
    if inchunk:
        return not (got == want)
    return not np.isnan(got)


GRIDS = {"quick": [(1, 1, 1, 1), (2, 4, 1, 2), (3, 5, 2, 2), (4, 8, 4, 3), (3, 7, 1, 7), (5, 6, 2, 4)],
         "thorough": [(gh, gw, th, tw) for gh in (1, 2, 3, 5) for gw in (1, 2, 3, 5, 8) for th in (1, 2, 5) for tw in (1, 3, 8) if th <= max(gh, 1) + 4 and tw <= gw + 7]}


def job_chunks(run, grids):
    nq = 0
    t0 = time.time()
    bad = []
    for g in grids:
        q, pr = chunk_case(*g)
        nq += q
        bad += [(g, p) for p in pr]
    for g, (kind, info) in bad[:1]:
        nm = "chunks%r" % (g,)
        if kind == "chunk-sampler":
            pt = info["point"]
            wrong = chunk_point_replay(*g, info["chunk"], pt["lon"], pt["lat"], pt.get("prev"))
            if wrong:
                run.violation(nm, "samplers.py:ChunkedPlateCarreeSampler:wrong-cell", "chunk %d %r of the %dx%d map (tiles %dx%d): the point lon=%r lat=%r in map cell %r is %s" % (
                    info["chunk"], info["spec"], g[1], g[0], g[3], g[2], pt["lon"], pt["lat"], pt["cell"], "not sampled from that cell / not left to the chunk that owns it (after an earlier request %r through the same sampler closure)" % (pt.get("prev"),)),
                              "import sys\nsys.path.insert(0, %r)\nimport props.C07 as P\nsys.exit(1 if P.chunk_point_replay(%r, %r, %r, %r, %r, %r, %r, %r) else 0)\n" % (core.VERIF, g[0], g[1], g[2], g[3], info["chunk"], pt["lon"], pt["lat"], pt.get("prev")),
                              "E2:symx")
            else:
                run.error(nm, "chunk sampler counterexample %r does not reproduce on the real closure" % (info,))
        elif kind in ("filter-box", "partition"):
            run.violation(nm, "samplers.py:ChunkedPlateCarreeSampler:%s" % kind, str(info),
                          "import sys\nsys.path.insert(0, %r)\nimport props.C07 as P\nq, pr = P.chunk_case(%r, %r, %r, %r)\nprint(pr[:2])\nsys.exit(1 if pr else 0)\n" % ((core.VERIF,) + tuple(g)), "execution")
        else:
            run.ob(nm, "inconclusive", "E2:symx", str(info))
    if not bad:
        run.ob("chunks[%d grids]" % len(grids), "unsat", "E2:symx", "grids (rows, cols, tile rows, tile cols) %r: chunk rectangles tile the map; filter box = chunk rectangle; for every (lon, lat) inside a map cell the chunk "
               "sampler accepts it iff the cell is the chunk's and reads that cell; %.0fs" % (grids, time.time() - t0), queries=nq, solver_s=time.time() - t0)


# ------------------------------------------------------------------ WcsSampler._image_bounds with an affine (CAR) WCS

class _NPObj:
    """numpy for toasty.samplers during the symbolic run: float work arrays become object arrays (so that they can hold
    symbolic reals) and argmin / argmax of an array holding symbolic reals is decided by the solver (first extreme
    element, as numpy)."""

    def __getattr__(self, name):
        return getattr(np, name)

    def empty(self, shape, dtype=None):
        if dtype is None or dtype is float:
            return np.empty(shape, dtype=object)
        return np.empty(shape, dtype=dtype)

    def zeros(self, shape, dtype=None):
        a = np.zeros(shape, dtype=dtype) if dtype is not None else np.zeros(shape)
        return a

    def _arg(self, arr, maximum):
        flat = list(np.asarray(arr, dtype=object).flatten())
        if not any(symx.is_sym(x) for x in flat):
            vals = np.array([float(x) for x in flat])
            return int(np.argmax(vals) if maximum else np.argmin(vals))
        c = symx.ctx()
        terms = [R(x) for x in flat]
        for _ in range(len(terms) + 1):
            r, m = c._check()
            if r != "sat":
                raise symx.PathAbort()
            vals = [m.eval(t, model_completion=True) for t in terms]
            fr = [Fraction(v.numerator_as_long(), v.denominator_as_long()) for v in vals]
            k = max(range(len(fr)), key=lambda i: (fr[i], -i)) if maximum else min(range(len(fr)), key=lambda i: (fr[i], i))
            if maximum:
                cond = z3.And(*([terms[k] >= t for t in terms[k + 1:]] + [terms[k] > t for t in terms[:k]]))
            else:
                cond = z3.And(*([terms[k] <= t for t in terms[k + 1:]] + [terms[k] < t for t in terms[:k]]))
            if c.branch(cond):
                return k
        raise symx.PathCap("argmin/argmax: too many candidate positions")

    def argmax(self, arr):
        return self._arg(arr, True)

    def argmin(self, arr):
        return self._arg(arr, False)


class AffineWCS:
    """world = M . (x, y) + t in degrees, FITS pixel coordinates (origin 1): what a plate-carree (CAR) WCS referenced
    on the equator is."""

    def __init__(self, a, b, c, d, e, f):
        self.co = (a, b, c, d, e, f)

    def wcs_pix2world(self, pix, origin):
        if origin != 1:
            raise HarnessError("_image_bounds calls wcs_pix2world with origin %r" % (origin,))
        a, b, c, d, e, f = self.co
        pix = np.asarray(pix, dtype=object)
        out = np.empty((pix.shape[0], 2), dtype=object)
        for i in range(pix.shape[0]):
            # the ideal rational behind the double produced by np.linspace (differs by < 1e-15 pixel): small
            # denominators keep the linear arithmetic cheap
            x, y = Fraction(float(pix[i, 0])).limit_denominator(10 ** 7), Fraction(float(pix[i, 1])).limit_denominator(10 ** 7)
            out[i, 0] = a * x + b * y + c
            out[i, 1] = d * x + e * y + f
        return out


ROTATIONS = {0: (1, 0, 1), 90: (0, 1, 1), 180: (-1, 0, 1), 270: (0, -1, 1),
             37: (4, 3, 5), 23: (12, 5, 13), 127: (-3, 4, 5), 323: (4, -3, 5), 209: (-15, -8, 17)}


def _rot(angle_deg):
    """Exact small rationals (cos, sin) of the rotation: multiples of 90 degrees and Pythagorean angles (the label is
    the angle rounded to a degree) — small denominators keep the linear arithmetic cheap."""
    c, s_, h = ROTATIONS[angle_deg]
    return Fraction(c, h), Fraction(s_, h)


def harness_bounds(naxis1, naxis2, angle_deg):
    """CD = R(angle) . diag(s1, s2) with SYMBOLIC non-zero scales (either sign: both parities) and symbolic reference
    values; the angle is concrete (the map stays linear in the unknowns and invertible)."""
    D2R = Fraction(math.pi / 180)
    cs, sn = _rot(angle_deg)

    def h(ctx):
        s1, s2, c, f = [SymReal(z3.Real(n)) for n in ("scale1", "scale2", "lon0", "lat0")]
        ctx.assume(z3.And(s1.t != 0, s2.t != 0))
        a, b, d, e = s1 * cs, s2 * (-sn), s1 * sn, s2 * cs
        co = (a, b, c, d, e, f)
        xs = [Fraction(1, 2), Fraction(naxis1) + Fraction(1, 2)]
        ys = [Fraction(1, 2), Fraction(naxis2) + Fraction(1, 2)]
        corners = [(x, y) for x in xs for y in ys]
        for x, y in corners:
            ctx.assume(z3.And(R(a * x + b * y + c) >= 5, R(a * x + b * y + c) <= 355, R(d * x + e * y + f) >= -85, R(d * x + e * y + f) <= 85))
        # the footprint spans less than 170 degrees of longitude (no wrap between neighbouring samples)
        for i, (x, y) in enumerate(corners):
            for (x2, y2) in corners[i + 1:]:
                dl = R(a * (x - x2) + b * (y - y2))
                ctx.assume(z3.And(dl <= 170, dl >= -170))
        smp = tsm.WcsSampler(np.zeros((naxis2, naxis1), dtype=np.float32), AffineWCS(*co))
        saved = tsm.np
        tsm.np = _NPObj()
        try:
            lon_min, lon_max, lat_min, lat_max = smp._image_bounds()
        finally:
            tsm.np = saved
        claims = []
        for x, y in corners:
            wl = R(a * x + b * y + c) * _rv(D2R)
            wb = R(d * x + e * y + f) * _rv(D2R)
            claims.append(z3.And(R(lon_min) <= wl, wl <= R(lon_max), R(lat_min) <= wb, wb <= R(lat_max)))
        r, m = ctx.prove(z3.And(*claims))
        cex = None
        if r == "sat":
            # prefer a realistic scale (the violation does not depend on it)
            r2, m2 = ctx.reachable(z3.And(z3.Not(z3.And(*claims)), z3.Or(s1.t >= z3.Q(1, 1000), s1.t <= -z3.Q(1, 1000)), z3.Or(s2.t >= z3.Q(1, 1000), s2.t <= -z3.Q(1, 1000))))
            mm = m2 if r2 == "sat" else m
            cex = [_fval(mm, R(x)) for x in co]
        return r, cex
    return h


def real_car_wcs(co):
    """An astropy CAR WCS realising world = M (x, y) + t (degrees)."""
    from astropy.wcs import WCS
    a, b, c, d, e, f = [float(v) for v in co]
    M = np.array([[a, b], [d, e]])
    # native = M (pix - crpix); lon = crval1 + native_x; lat = native_y  (CAR, reference latitude 0)
    crval1 = 180.0
    crpix = np.linalg.solve(M, np.array([crval1 - c, -f]))
    w = WCS(naxis=2)
    w.wcs.ctype = ["RA---CAR", "DEC--CAR"]
    w.wcs.crval = [crval1, 0.0]
    w.wcs.crpix = [float(crpix[0]), float(crpix[1])]
    w.wcs.cd = M
    w.wcs.set()
    return w


def bounds_replay(naxis1, naxis2, co):
    """Real WcsSampler._image_bounds with a real astropy WCS: by how much (radians) does a footprint corner stick out of
    the returned box?  -> (excess, bounds, corner)"""
    w = real_car_wcs(co)
    smp = tsm.WcsSampler(np.zeros((naxis2, naxis1), dtype=np.float32), w)
    lon_min, lon_max, lat_min, lat_max = [float(v) for v in smp._image_bounds()]
    worst = (0.0, None)
    for x in (0.5, naxis1 + 0.5):
        for y in (0.5, naxis2 + 0.5):
            wl, wb = w.wcs_pix2world(np.array([[x, y]]), 1)[0]
            wl, wb = math.radians(wl), math.radians(wb)
            ex = max(lon_min - wl, wl - lon_max, lat_min - wb, wb - lat_max)
            if ex > worst[0]:
                worst = (ex, (x, y, wl, wb))
    # the same image through the model, to validate the affine stand-in against astropy
    return worst[0], (lon_min, lon_max, lat_min, lat_max), worst[1]


SIG_BOUNDS = "samplers.py:WcsSampler._image_bounds:refined-grid-misses-the-extreme"
SIZES = {"quick": [(n1, n2, ang) for (n1, n2) in [(1, 1), (2, 2), (2, 40), (31, 31), (32, 32), (33, 64), (5, 17), (64, 3), (100, 100)] for ang in (0, 90)] +
                  [(2, 2, 37), (31, 31, 37), (32, 32, 37), (33, 64, 37)],
         "thorough": [(n1, n2, ang) for n1 in (1, 2, 3, 7, 16, 30, 31, 32, 33, 47, 63, 64, 100, 257, 1000) for n2 in (1, 2, 31, 32, 33, 100, 1000) for ang in (0, 90, 180, 270, 37, 23, 127, 323, 209)]}


def job_bounds(run, sizes):
    t0 = time.time()
    stats = {}
    bad = []
    npaths = 0
    for (n1, n2, ang) in sizes:
        for ctx, out in symx.explore(harness_bounds(n1, n2, ang), stats=stats, max_paths=400, timeout_ms=120000, seed=run.seed):
            npaths += 1
            if not isinstance(out, tuple):
                run.ob("image-bounds[%dx%d,%d deg].path" % (n1, n2, ang), "inconclusive", "E2:symx", "exploration ended with %r" % (out,))
                continue
            r, cex = out
            if r == "sat":
                bad.append(((n1, n2), cex))
                break
            if r != "unsat":
                run.ob("image-bounds[%dx%d,%d deg].path" % (n1, n2, ang), "inconclusive", "E2:symx", "solver %s" % r)
    reported = set()
    for (n1, n2), co in bad:
        ex, bounds, corner = bounds_replay(n1, n2, co)
        nm = "image-bounds[%dx%d]" % (n1, n2)
        if ex > 1e-9:
            small = "small" if min(n1, n2) <= 31 else "large"
            sig = SIG_BOUNDS + ":" + small
            what = ("%dx%d image with the plate-carree WCS CD=[[%.6g, %.6g], [%.6g, %.6g]] deg/pixel at (%.6g, %.6g): the footprint corner at pixel (%.1f, %.1f) = (lon %.9f, lat %.9f) rad lies %.3g rad outside "
                    "the box %r returned by WcsSampler._image_bounds(), so the tile filter built from it can drop tiles holding image data" % (
                        n1, n2, co[0], co[1], co[3], co[4], co[2], co[5], corner[0], corner[1], corner[2], corner[3], ex, bounds))
            text = ("# real WcsSampler._image_bounds with a real astropy CAR WCS\nimport sys\nsys.path.insert(0, %r)\nimport props.C07 as P\nex, bounds, corner = P.bounds_replay(%d, %d, %r)\n"
                    "print('bounds', bounds, 'corner', corner, 'outside by', ex)\nsys.exit(1 if ex > 1e-9 else 0)\n") % (core.VERIF, n1, n2, co)
            if sig in reported:
                run.ob(nm, "violated", "E2:symx", what)
                continue
            reported.add(sig)
            run.violation(nm, sig, what, text, "E2:symx")
        else:
            run.error(nm, "symbolic counterexample %r does not reproduce with the real astropy WCS (excess %.3g)" % (co, ex))
    if not bad:
        run.ob("image-bounds%r" % (sizes,), "unsat", "E2:symx", "(width, height, rotation) %r, plate-carree WCS with symbolic scales (both signs) and reference values: the box returned by _image_bounds contains the four footprint corners "
               "(hence, the map being affine, the whole footprint); %d paths, %.0fs" % (sizes, npaths, time.time() - t0), queries=stats.get("queries", 0), solver_s=stats.get("solver_s", 0.0))
    else:
        run.queries += stats.get("queries", 0)
        run.solver_s += stats.get("solver_s", 0.0)


def job_any(run, kind, *args):
    {"tiles": job_tiles, "H": job_H, "chunks": job_chunks, "bounds": job_bounds, "interior": job_interior}[kind](run, *args)


# ------------------------------------------------------------------ _image_bounds: latitude extremum INSIDE the image

class PoleLikeWCS:
    """lat = lat0 - k ((x - xc)^2 + (y - yc)^2), lon affine in x: a latitude maximum at the symbolic interior point
    (xc, yc), as for an image containing a celestial pole.  Differences of two samples are linear in (xc, yc)."""

    def __init__(self, xc, yc, k, lat0, lon_a, lon_c):
        self.p = (xc, yc, k, lat0, lon_a, lon_c)
        self.q = xc * xc + yc * yc if not symx.is_sym(xc) else None

    def wcs_pix2world(self, pix, origin):
        if origin != 1:
            raise HarnessError("_image_bounds calls wcs_pix2world with origin %r" % (origin,))
        xc, yc, k, lat0, lon_a, lon_c = self.p
        pix = np.asarray(pix, dtype=object)
        out = np.empty((pix.shape[0], 2), dtype=object)
        for i in range(pix.shape[0]):
            x, y = Fraction(float(pix[i, 0])).limit_denominator(10 ** 7), Fraction(float(pix[i, 1])).limit_denominator(10 ** 7)
            out[i, 0] = lon_a * x + lon_c
            # lat0 - k (x^2 + y^2) + 2 k (x xc + y yc)  [- k (xc^2 + yc^2): the same constant for every sample, folded into lat0]
            out[i, 1] = lat0 - k * (x * x + y * y) + (2 * k * x) * xc + (2 * k * y) * yc
        return out


def harness_interior(naxis1, naxis2, axis):
    """-> per path: is the refined latitude maximum taken within one pixel (per axis) of the true interior extremum?
    The extremum's coordinate along `axis` (1 = columns, 2 = rows) is symbolic within one cell of the coarse 32x32
    grid in the middle of the image; the other coordinate is a fixed off-grid value (keeps the path count small)."""
    def h(ctx):
        step1, step2 = Fraction(naxis1, 31), Fraction(naxis2, 31)
        if axis == 1:
            xc = SymReal(z3.Real("xc"))
            yc = Fraction(1, 2) + 15 * step2 + step2 * Fraction(3, 10)
            ctx.assume(z3.And(xc.t >= _rv(Fraction(1, 2) + 15 * step1), xc.t <= _rv(Fraction(1, 2) + 16 * step1)))
        else:
            yc = SymReal(z3.Real("yc"))
            xc = Fraction(1, 2) + 15 * step1 + step1 * Fraction(3, 10)
            ctx.assume(z3.And(yc.t >= _rv(Fraction(1, 2) + 15 * step2), yc.t <= _rv(Fraction(1, 2) + 16 * step2)))
        k = Fraction(1, 10 ** 6 * max(naxis1, naxis2))
        lat0 = SymReal(z3.Real("lat_peak"))
        ctx.assume(z3.And(lat0.t >= 10, lat0.t <= 80))
        seen = []

        class Spy(PoleLikeWCS):
            def wcs_pix2world(self, pix, origin):
                out = PoleLikeWCS.wcs_pix2world(self, pix, origin)
                seen.append((np.asarray(pix, dtype=float).copy(), out))
                return out

        smp = tsm.WcsSampler(np.zeros((naxis2, naxis1), dtype=np.float32), Spy(xc, yc, k, lat0, Fraction(1, 1000), Fraction(100)))
        saved = tsm.np
        tsm.np = _NPObj()
        try:
            lon_min, lon_max, lat_min, lat_max = smp._image_bounds()
        finally:
            tsm.np = saved
        # lat_max is one of the sampled values: find the sample it is (path conditions decided which one)
        D2R = Fraction(math.pi / 180)
        where = None
        for pix, out in seen:
            for i in range(pix.shape[0]):
                if symx.is_sym(out[i, 1]) and z3.eq(z3.simplify(R(out[i, 1]) * _rv(D2R)), z3.simplify(R(lat_max))):
                    where = (Fraction(float(pix[i, 0])).limit_denominator(10 ** 7), Fraction(float(pix[i, 1])).limit_denominator(10 ** 7))
        if where is None:
            raise HarnessError("_image_bounds returns a maximum latitude that is none of the sampled values")
        xs, ys = where
        claim = z3.And(R(xc) - _rv(xs) <= 1, _rv(xs) - R(xc) <= 1, R(yc) - _rv(ys) <= 1, _rv(ys) - R(yc) <= 1)
        r, m = ctx.prove(claim)
        cex = None
        if r == "sat":
            cex = dict(xc=_fval(m, R(xc)), yc=_fval(m, R(yc)), sample=(float(xs), float(ys)))
        return r, cex
    return h


def interior_replay(naxis1, naxis2, xc, yc):
    """Real _image_bounds with a real astropy TAN image whose pole sits at pixel (xc, yc): how far (in pixels of
    latitude, i.e. arc / pixel scale) does the returned maximum latitude fall short of the pole?"""
    from astropy.wcs import WCS
    scale = 0.01
    w = WCS(naxis=2)
    w.wcs.ctype = ["RA---TAN", "DEC--TAN"]
    w.wcs.crval = [0.0, 90.0]
    w.wcs.crpix = [float(xc), float(yc)]
    w.wcs.cdelt = [-scale, scale]
    w.wcs.set()
    smp = tsm.WcsSampler(np.zeros((naxis2, naxis1), dtype=np.float32), w)
    lon_min, lon_max, lat_min, lat_max = [float(v) for v in smp._image_bounds()]
    short_deg = 90.0 - math.degrees(lat_max)
    return short_deg / scale, lat_max


INTERIOR_SIZES = {"quick": [(64, 64, 1), (64, 64, 2), (8, 640, 2), (640, 8, 1)],
                  "thorough": [(n1, n2, ax) for (n1, n2) in [(64, 64), (8, 640), (640, 8), (100, 37), (12, 2000), (2000, 12), (33, 500), (257, 129)] for ax in (1, 2)]}


def job_interior(run, sizes):
    t0 = time.time()
    stats = {}
    npaths = 0
    bad = []
    for (n1, n2, axis) in sizes:
        for ctx, out in symx.explore(harness_interior(n1, n2, axis), stats=stats, max_paths=3000, timeout_ms=120000, seed=run.seed):
            npaths += 1
            if not isinstance(out, tuple):
                run.ob("image-bounds-interior[%dx%d].path" % (n1, n2), "inconclusive", "E2:symx", "exploration ended with %r" % (out,))
                continue
            r, cex = out
            if r == "sat":
                bad.append(((n1, n2), cex))
                break
            if r != "unsat":
                run.ob("image-bounds-interior[%dx%d].path" % (n1, n2), "inconclusive", "E2:symx", "solver %s" % r)
    run.queries += stats.get("queries", 0)
    run.solver_s += stats.get("solver_s", 0.0)
    reported = False
    for (n1, n2), cex in bad:
        nm = "image-bounds-interior[%dx%d]" % (n1, n2)
        short_px, lat_max = interior_replay(n1, n2, cex["xc"], cex["yc"])
        if short_px > 1.5:
            what = ("%dx%d TAN image with the celestial pole at pixel (%.2f, %.2f): the maximum latitude returned by WcsSampler._image_bounds() is %.2f pixels short of the pole (refined samples around the coarse extremum do not come "
                    "within a pixel of it; model: nearest refined sample %r), so tiles around the pole that hold image data are filtered out" % (n1, n2, cex["xc"], cex["yc"], short_px, cex["sample"]))
            if reported:
                run.ob(nm, "violated", "E2:symx", what)
                continue
            reported = True
            run.violation(nm, "samplers.py:WcsSampler._image_bounds:interior-extremum-undersampled", what,
                          "import sys\nsys.path.insert(0, %r)\nimport props.C07 as P\npx, lat = P.interior_replay(%d, %d, %r, %r)\nprint('short of the pole by', px, 'pixels; lat_max', lat)\nsys.exit(1 if px > 1.5 else 0)\n" % (
                              core.VERIF, n1, n2, cex["xc"], cex["yc"]), "E2:symx")
        else:
            run.ob(nm, "inconclusive", "E2:symx", "the quadratic model places the refined maximum %r more than a pixel from the extremum (%.2f, %.2f) but a real TAN image with the pole there is only %.2f pixels short: not reported" % (
                cex["sample"], cex["xc"], cex["yc"], short_px))
    if not bad:
        run.ob("image-bounds-interior%r" % (sizes,), "unsat", "E2:symx", "latitude maximum at a symbolic interior pixel (xc, yc) (quadratic, pole-like): the refined sample taken as the maximum lies within one pixel per axis of it; "
               "%d paths, %.0fs" % (npaths, time.time() - t0))
