"""C14 — FITS pyramids carry the leaves' true data range up to the root and the WTML (E2: symx + symnp).

Inductive structure (Appendix A-8):
  leaf step    real PyramidIO.write_image -> Image.save of a leaf without explicit range: DATAMIN/DATAMAX = finite
               nan-min/max of the tile (bounds every pixel, attained), nothing written for an all-NaN tile;
  parent step  real TileMerger.walk_callback on children whose recorded ranges are symbolic (hypothesis: they equal the
               range of the leaves below): the parent's recorded range = min / max of the children's recorded ranges,
               NOT the range of the merged (averaged) array; re-loading the parent through ImageLoader.load_path
               returns exactly the recorded values (so the hypothesis holds one level up);
  root         real Builder.cascade copies the root header values to ImageSet.data_min / data_max.
"""
from vlib.core import soft_attr as core_u
import numpy as _np
import z3

import astropy.io.fits as afits
import toasty.builder as tb
import toasty.image as ti
import toasty.merge as tm
import toasty.pyramid as tp
from toasty.image import Image, ImageLoader
from toasty.merge import TileMerger, averaging_merger
from toasty.pyramid import Pos, PyramidIO, pos_children
from vlib import e2, symfs, symnp, symx
from vlib.symnp import FElem
from vlib.symx import I, R

DTYPES = {"F32": "float32", "F64": "float64", "I16": "int16"}


class ParentStep(e2.Case):
    def __init__(self, mode):
        self.mode = mode
        self.name = "parent-range-%s" % mode
        self.max_paths = 400
        self.conform_paths = 3

    def run(self, w):
        dt = DTYPES[self.mode]
        lo = 0 if self.mode == "I16" else None
        fs = symfs.SymFS()
        P = Pos(3, 2, 5)
        present = [bool(w.bool("present%d" % k)) for k in range(4)]
        B = [w.array("B%d" % k, (256, 256), dt, lo=lo) if present[k] else None for k in range(4)]
        has = [bool(w.bool("hasrange%d" % k)) if present[k] else False for k in range(4)]
        cmin = [w.real("cmin%d" % k) if has[k] else None for k in range(4)]
        cmax = [w.real("cmax%d" % k) if has[k] else None for k in range(4)]
        for k in range(4):
            if has[k]:
                w.assume(cmin[k] <= cmax[k]) if w.symbolic else None
        with w.patched(ti), w.patched(tm, names=("np", "min", "max")), fs.installed(w):
            pio = PyramidIO("/t", default_format="fits")
            for k, cpos in enumerate(pos_children(P)):
                if present[k]:
                    hdr = {}
                    if has[k]:
                        hdr = {"DATAMIN": cmin[k], "DATAMAX": cmax[k]}
                    fs.put_tile(pio.tile_path(cpos, makedirs=False), B[k], hdr)
            merger = TileMerger(pio, averaging_merger)
            merger.walk_callback(P)
            path = pio.tile_path(P, makedirs=False)
            f = fs.files.get(path)
            reloaded = None
            if f is not None:
                img = ImageLoader().load_path(path)
                reloaded = (img.data_min, img.data_max)
        hdr = None if f is None else f["header"]
        out = dict(stored=None if f is None else f["arr"], hmin=None if hdr is None else hdr.get("DATAMIN"),
                   hmax=None if hdr is None else hdr.get("DATAMAX"), reloaded=reloaded, present=present, has=has,
                   cmin=cmin, cmax=cmax, events=[e[0] for e in fs.log if e[0] in ("save", "unlink")])
        if not w.symbolic:
            mins = [cmin[k] for k in range(4) if has[k]]
            maxs = [cmax[k] for k in range(4) if has[k]]
            out["ref_min"] = min(mins) if mins else None
            out["ref_max"] = max(maxs) if maxs else None
        return out

    def same_path(self, so, ro):
        return so["events"] == ro["events"]

    def claims(self, w, outs):
        has, cmin, cmax = outs["has"], outs["cmin"], outs["cmax"]
        if outs["stored"] is None:
            return
        if any(has):
            ks = [k for k in range(4) if has[k]]
            wmin = R(cmin[ks[0]])
            wmax = R(cmax[ks[0]])
            for k in ks[1:]:
                wmin = z3.If(R(cmin[k]) < wmin, R(cmin[k]), wmin)
                wmax = z3.If(R(cmax[k]) > wmax, R(cmax[k]), wmax)
            ok_present = outs["hmin"] is not None and outs["hmax"] is not None
            w.claim("range-recorded", ok_present, probe=lambda ro, val: ro["hmin"] is not None and ro["hmax"] is not None,
                    what="parent FITS tile lacks DATAMIN/DATAMAX although a child carries them")
            if ok_present:
                w.claim_eq("datamin-is-min-of-children", outs["hmin"], wmin, probe=("hmin", None), ref=("ref_min", None),
                           what="parent DATAMIN must be the minimum of the children's recorded DATAMIN (range of the leaves), not of the averaged data")
                w.claim_eq("datamax-is-max-of-children", outs["hmax"], wmax, probe=("hmax", None), ref=("ref_max", None),
                           what="parent DATAMAX must be the maximum of the children's recorded DATAMAX")
                rl = outs["reloaded"]
                w.claim_eq("reload-min", rl[0], outs["hmin"], probe=lambda ro, val: ro["reloaded"][0], what="load_path must hand back the recorded DATAMIN")
                w.claim_eq("reload-max", rl[1], outs["hmax"], probe=lambda ro, val: ro["reloaded"][1], what="load_path must hand back the recorded DATAMAX")
        else:
            # no child carries a range: the tile's own finite range is recorded (bounds every defined pixel)
            r = w.int("r", 0, 255)
            c = w.int("c", 0, 255)
            w.pixel(r, c)
            e = symnp.lift(outs["stored"].get((r, c)), True)
            if outs["hmin"] is not None:
                hm = symnp.lift(outs["hmin"], True)
                w.claim("fallback-min-bounds-pixels", z3.Or(e.nan, z3.And(z3.Not(hm.nan), hm.val <= e.val)),
                        probe=lambda ro, val: True)
            if outs["hmax"] is not None:
                hx = symnp.lift(outs["hmax"], True)
                w.claim("fallback-max-bounds-pixels", z3.Or(e.nan, z3.And(z3.Not(hx.nan), hx.val >= e.val)),
                        probe=lambda ro, val: True)


class LeafSave(e2.Case):
    """A leaf written through write_image without an explicit range."""

    def __init__(self, mode):
        self.mode = mode
        self.name = "leaf-range-%s" % mode
        self.max_paths = 40

    def run(self, w):
        dt = DTYPES[self.mode]
        fs = symfs.SymFS()
        arr = w.array("leaf", (256, 256), dt)
        with w.patched(ti), fs.installed(w):
            pio = PyramidIO("/t", default_format="fits")
            pos = Pos(4, 3, 9)
            pio.write_image(pos, Image.from_array(arr, default_format="fits"))
            path = pio.tile_path(pos, makedirs=False)
            f = fs.files.get(path)
            reloaded = None
            if f is not None:
                img = ImageLoader().load_path(path)
                reloaded = (img.data_min, img.data_max)
        hdr = None if f is None else f["header"]
        out = dict(exists=f is not None, hmin=None if hdr is None else hdr.get("DATAMIN"),
                   hmax=None if hdr is None else hdr.get("DATAMAX"), arr=arr, reloaded=reloaded)
        if not w.symbolic:
            import warnings
            with warnings.catch_warnings():
                warnings.simplefilter("ignore")
                a = _np.asarray(arr, dtype=float)
                out["ref_min"] = None if _np.all(_np.isnan(a)) else float(_np.nanmin(a))
                out["ref_max"] = None if _np.all(_np.isnan(a)) else float(_np.nanmax(a))
        return out

    def same_path(self, so, ro):
        return so["exists"] == ro["exists"] and (so["hmin"] is None) == (ro["hmin"] is None)

    def claims(self, w, outs):
        r = w.int("r", 0, 255)
        c = w.int("c", 0, 255)
        w.pixel(r, c)
        e = symnp.lift(outs["arr"].get((r, c)), True)
        if not outs["exists"]:
            w.claim("unwritten-leaf-is-all-nan", e.nan, probe=lambda ro, val: ro["exists"] or ro["ref_min"] is None,
                    what="leaf not written although it has a defined pixel")
            return
        w.claim("leaf-has-range", outs["hmin"] is not None and outs["hmax"] is not None,
                probe=lambda ro, val: ro["hmin"] is not None and ro["hmax"] is not None,
                what="a stored leaf with finite data must record DATAMIN and DATAMAX")
        if outs["hmin"] is None or outs["hmax"] is None:
            return
        hm = symnp.lift(outs["hmin"], True)
        hx = symnp.lift(outs["hmax"], True)
        w.claim("leaf-min-bounds-every-pixel", z3.Or(e.nan, z3.And(z3.Not(hm.nan), hm.val <= e.val)),
                probe=lambda ro, val: close_or_le(ro["hmin"], ro["ref_min"]), what="leaf DATAMIN exceeds a defined pixel value")
        w.claim("leaf-max-bounds-every-pixel", z3.Or(e.nan, z3.And(z3.Not(hx.nan), hx.val >= e.val)),
                probe=lambda ro, val: close_or_le(ro["ref_max"], ro["hmax"]), what="leaf DATAMAX is below a defined pixel value")
        w.claim_eq("leaf-min-is-nanmin", outs["hmin"], outs["hmin"], probe=("hmin", None), ref=("ref_min", None))
        w.claim_eq("leaf-max-is-nanmax", outs["hmax"], outs["hmax"], probe=("hmax", None), ref=("ref_max", None))
        rl = outs["reloaded"]
        w.claim_eq("reload-min", rl[0], outs["hmin"], probe=lambda ro, val: ro["reloaded"][0])
        w.claim_eq("reload-max", rl[1], outs["hmax"], probe=lambda ro, val: ro["reloaded"][1])


class LeafUpdate(e2.Case):
    """A leaf that is written, then UPDATED through update_image with a second contribution (multi-input tiling):
    the range recorded afterwards must bound every pixel of what is stored afterwards."""

    def __init__(self, mode):
        self.mode = mode
        self.name = "leaf-update-range-%s" % mode
        self.max_paths = 60

    def run(self, w):
        dt = DTYPES[self.mode]
        fs = symfs.SymFS()
        first = w.array("first", (256, 256), dt)
        second = w.array("second", (256, 256), dt)
        pr, pc = w.int("pr", 0, 255), w.int("pc", 0, 255)
        if w.symbolic:
            w.pixel(pr, pc)
            w.assume(z3.Not(symnp.lift(first.get((pr, pc)), True).nan))      # the first write stores a tile
        with w.patched(ti), fs.installed(w):
            pio = PyramidIO("/t", default_format="fits")
            pos = Pos(4, 3, 9)
            img1 = Image.from_array(first, default_format="fits")
            pio.write_image(pos, img1)
            with pio.update_image(pos, masked_mode=img1.mode, default="masked") as basis:
                Image.from_array(second, default_format="fits").update_into_maskable_buffer(basis, slice(None), slice(None), slice(None), slice(None))
            path = pio.tile_path(pos, makedirs=False)
            f = fs.files.get(path)
        hdr = None if f is None else f["header"]
        out = dict(exists=f is not None, hmin=None if hdr is None else hdr.get("DATAMIN"), hmax=None if hdr is None else hdr.get("DATAMAX"),
                   stored=None if f is None else f["arr"], first=first, second=second)
        if not w.symbolic and f is not None:
            import warnings
            with warnings.catch_warnings():
                warnings.simplefilter("ignore")
                a = _np.asarray(f["arr"], dtype=float)
                out["ref_min"] = None if _np.all(_np.isnan(a)) else float(_np.nanmin(a))
                out["ref_max"] = None if _np.all(_np.isnan(a)) else float(_np.nanmax(a))
        return out

    def same_path(self, so, ro):
        return so["exists"] == ro["exists"] and (so["hmin"] is None) == (ro["hmin"] is None)

    def claims(self, w, outs):
        r = w.int("r", 0, 255)
        c = w.int("c", 0, 255)
        w.pixel(r, c)
        w.claim("updated-leaf-exists", outs["exists"], probe=lambda ro, val: ro["exists"], what="the updated leaf is not stored")
        if not outs["exists"] or outs["hmin"] is None or outs["hmax"] is None:
            w.claim("updated-leaf-has-range", False if outs["exists"] else True, probe=lambda ro, val: ro["hmin"] is not None and ro["hmax"] is not None,
                    what="the updated leaf records no DATAMIN / DATAMAX")
            return
        e = symnp.lift(outs["stored"].get((r, c)), True)
        hm = symnp.lift(outs["hmin"], True)
        hx = symnp.lift(outs["hmax"], True)
        w.claim("updated-leaf-min-bounds-every-stored-pixel", z3.Or(e.nan, z3.And(z3.Not(hm.nan), hm.val <= e.val)),
                probe=lambda ro, val: close_or_le(ro["hmin"], ro["ref_min"]), what="after update_image the leaf's DATAMIN exceeds a defined stored pixel (stale range of the earlier content)")
        w.claim("updated-leaf-max-bounds-every-stored-pixel", z3.Or(e.nan, z3.And(z3.Not(hx.nan), hx.val >= e.val)),
                probe=lambda ro, val: close_or_le(ro["ref_max"], ro["hmax"]), what="after update_image the leaf's DATAMAX is below a defined stored pixel (stale range of the earlier content)")
        w.claim_eq("updated-leaf-min-is-nanmin", outs["hmin"], outs["hmin"], probe=("hmin", None), ref=("ref_min", None))
        w.claim_eq("updated-leaf-max-is-nanmax", outs["hmax"], outs["hmax"], probe=("hmax", None), ref=("ref_max", None))


def close_or_le(a, b):
    return a is not None and b is not None and (float(a) <= float(b) or e2.close(a, b))


class TagFloat(float):
    def __new__(cls, v, sym):
        o = float.__new__(cls, v)
        o.sym = sym
        return o


class RootToImageSet(e2.Case):
    """Real Builder.cascade: ImageSet.data_min/max are the root tile's recorded values."""
    name = "root-range-to-imageset"
    max_paths = 4

    def run(self, w):
        a = w.real("rootmin")
        b = w.real("rootmax")
        a2 = w.real("rootmin_second_cascade")
        b2 = w.real("rootmax_second_cascade")
        opened = []
        if w.symbolic:
            # ImageSet.data_min is a traitlets Float: carry the symbolic value on a float subclass (identity data flow)
            a, b = TagFloat(1.25, a), TagFloat(7.5, b)
            a2, b2 = TagFloat(-3.5, a2), TagFloat(11.0, b2)

        class H(dict):
            pass

        class Hdu:
            header = H(DATAMIN=a, DATAMAX=b)
            data = _np.arange(16.0).reshape(4, 4)

        class Hdul(list):
            def __enter__(self):
                return self

            def __exit__(self, *x):
                return False

        def fake_open(path, *aa, **k):
            opened.append(path)
            return Hdul([Hdu()])

        calls = []
        saved = (afits.open, tm.cascade_images)
        afits.open = fake_open
        tm.cascade_images = lambda pio, start, merger, **kw: calls.append((start, merger))
        try:
            pio = PyramidIO("/t", default_format="fits")
            b_ = tb.Builder(pio)
            b_.imgset.tile_levels = 3
            b_.cascade()
            dmin, dmax = b_.imgset.data_min, b_.imgset.data_max
            # the same Builder cascades AGAIN after more data were blended into the pyramid (the root now records another range)
            Hdu.header = H(DATAMIN=a2, DATAMAX=b2)
            b_.cascade()
            dmin2, dmax2 = b_.imgset.data_min, b_.imgset.data_max
        finally:
            afits.open, tm.cascade_images = saved
        if w.symbolic:
            if not all(isinstance(v, TagFloat) for v in (dmin, dmax, dmin2, dmax2)):
                raise symx.Unsupported("Builder.cascade computes with the header values (not a plain copy)")
            dmin, dmax, a, b = dmin.sym, dmax.sym, a.sym, b.sym
            dmin2, dmax2, a2, b2 = dmin2.sym, dmax2.sym, a2.sym, b2.sym
        return dict(dmin=dmin, dmax=dmax, a=a, b=b, opened=opened[:1], calls=calls[:1], dmin2=dmin2, dmax2=dmax2, a2=a2, b2=b2, n_calls=len(calls))

    def claims(self, w, outs):
        w.claim_eq("imageset-data-min", outs["dmin"], outs["a"], probe=("dmin", None), ref=("a", None),
                   what="ImageSet.data_min must be the root tile's DATAMIN")
        w.claim_eq("imageset-data-max", outs["dmax"], outs["b"], probe=("dmax", None), ref=("b", None),
                   what="ImageSet.data_max must be the root tile's DATAMAX")
        w.claim_eq("imageset-data-min-after-second-cascade", outs["dmin2"], outs["a2"], probe=("dmin2", None), ref=("a2", None),
                   what="after a second cascade through the same Builder, ImageSet.data_min must be the root tile's current DATAMIN")
        w.claim_eq("imageset-data-max-after-second-cascade", outs["dmax2"], outs["b2"], probe=("dmax2", None), ref=("b2", None),
                   what="after a second cascade through the same Builder, ImageSet.data_max must be the root tile's current DATAMAX")
        ok = outs["opened"] == ["/t/0/0/0_0.fits"] and len(outs["calls"]) == 1 and outs["calls"][0][0] == 3
        w.claim("root-tile-opened", ok, probe=lambda ro, val: ro["opened"] == ["/t/0/0/0_0.fits"] and len(ro["calls"]) == 1)


def cases(tier):
    return [ParentStep(m) for m in DTYPES] + [LeafSave("F32"), LeafSave("F64"), LeafUpdate("F32"), LeafUpdate("F64"), RootToImageSet()]


def check(run):
    run.uses(tm.TileMerger.walk_callback, core_u(tm.TileMerger, "_get_min_max_of_children"), tm.averaging_merger, ti.Image.save, tp.PyramidIO.update_image,
             ti.Image.from_array, ti.ImageLoader.load_path, core_u(ti.ImageLoader, "_get_header_value_or_none"),
             tp.PyramidIO.write_image, tp.PyramidIO.read_image, tb.Builder.cascade)
    run.bound(children="16 presence patterns x every subset of present children carrying a recorded range", ranges="symbolic reals",
              pixels="symbolic (r, c) of the 256x256 tile for the bounding claims", modes="F32, F64, I16 FITS tiles")
    run.assume("codecs = identity incl. FITS header values (astropy's single-precision formatting of header floats is outside the claim)",
               "builtins min/max inside toasty.merge replaced by branch-free symbolic equivalents (same semantics on reals)",
               "np.nanmin/np.nanmax modelled by their defining facts (bounds every non-NaN element, attained) instantiated at the inspected pixel and the witnesses",
               "no +-inf in the data")
    run.outside("header float formatting by astropy", "+-inf data")
    run.composition.append("leaf step + parent step + reload identity => by induction over levels every tile records the range of the leaves below it; root step copies it to the ImageSet (Appendix A-8)")
    e2.run_cases_parallel(run, __name__)
