"""C19 — an error while processing any tile is reported, never swallowed by parallelism (E3: BMC with a symbolic fault).

The C03 stage models and the C01 walk model are re-built from the real code with ONE failing callback: the failing
item / tile is a solver variable; what the worker then does is EXTRACTED from the real worker function (the exception
leaves it = the process dies with a non-zero exit code; or it swallows the exception and exits 0 / keeps going /
keeps going and exits non-zero at the end); its item is lost.  Whether the entry
point notices is EXTRACTED: the real entry points are run against recording fakes whose workers report a non-zero exit
code / are not alive, and the model raises exactly where the real code reads that status and raises.
Assertion for ALL schedules and every fault position: the entry point terminates by raising — it neither returns
normally nor waits forever.  Counterexample schedules are replayed on the real code with the failure injected.
"""
from vlib.core import soft_attr as core_u
import time

import z3

import toasty.pyramid as tp
from vlib import bmc, mpmodel
from vlib.core import HarnessError
from props.stages import STAGES
import props.C01 as C01
import props.C03 as C03
from queue import Empty


def stage_detects(stage, n_items, n_workers):
    """Does the real entry point raise when its (joined) workers report a non-zero exit code?"""
    rec = mpmodel.extract_producer(lambda: stage.run_entry(n_items, n_workers, lambda k: None), exitcode=1, alive=False)
    if rec.raised is not None and rec.raised.split(":")[0] in ("AttributeError", "TypeError", "NameError", "NotImplementedError", "HarnessError"):
        # that is a limit of the recording fakes (or a crash of the entry point), not the code noticing the failed worker
        raise HarnessError("%s: the entry point raised %s against failing fake processes: cannot tell whether it detects worker failures" % (stage.name, rec.raised))
    return rec.raised is not None, rec


def job_stage(run, stage_name, n_items, n_workers):
    stage = [s for s in STAGES if s.name == stage_name][0]
    check_stage(run, stage, n_items, n_workers)


def job_walk(run, cfg_name, n_workers, cap):
    cfg = {c.name: c for c in (C01.S1, C01.S2, C01.S2W, C01.S3)}[cfg_name]
    check_walk(run, cfg, n_workers, cap)


def check_stage(run, stage, n_items, n_workers):
    name = "%s[I=%d,W=%d]" % (stage.name, n_items, n_workers)
    script, rec = C03.producer_script(stage, n_items, n_workers)
    table = C03.worker_table(stage, ([op for op in script if op[0] == 'put'] or [(0, 0, None)])[0][2])
    detects, rec2 = stage_detects(stage, n_items, n_workers)
    ts = mpmodel.stage_ts(script, table, n_workers, fault=True, detects=detects)
    U = bmc.Unrolled(ts, ts.max_steps)
    puts = [op for op in script if op[0] == "put"]
    run.extra.setdefault("models", {})[name] = dict(script=[str(op[0]) for op in script], reads_exit_status=any(op[0] == "exitcode" for op in script),
                                                      raises_on_failed_worker=detects, worker_on_failing_item=table.get("on_raise"), steps=ts.max_steps)
    fin = U.final()
    queries = [
        ("failure-is-visible", U.exists(lambda s: z3.And(s["pc"] == ts.end_pc, s["raised"] == 0)),
         "a callback raised in a worker but the entry point returns normally"),
        ("no-hang", (lambda s: z3.And(z3.Not(U.enabled(s, progress_only=True)), s["pc"] != ts.end_pc))(U.final()), "a callback raised in a worker and the entry point waits forever"),
    ]
    for qn, bad, what in queries:
        r, m, dt = U.check(bad)
        nm = "%s.%s" % (name, qn)
        if r == "unsat":
            run.ob(nm, "unsat", "E3:bmc", "all schedules x every failing item; exit status read and raised on: %s" % detects, queries=1, solver_s=dt)
        elif r == "sat":
            fi = m.eval(ts.fault_item, model_completion=True).as_long()
            fkey = stage.message_key(puts[fi][2])
            trace = U.trace(m)
            obs = C03.replay_trace(stage, n_items, n_workers, trace, fault_key=fkey)
            swallowed = bool(obs.get("returned"))
            hang = not (obs.get("returned") or obs.get("raised"))
            if swallowed or hang:
                text = ("# schedule + failing item found by the solver, replayed on the real %s (deterministic thread scheduler, failure injected)\n"
                        "import sys\nsys.path.insert(0, %r)\nimport props.C03 as P\nfrom props.stages import STAGES\n"
                        "st = [s for s in STAGES if s.name == %r][0]\nscript, rec = P.producer_script(st, %d, %d)\nputs = [op for op in script if op[0] == 'put']\n"
                        "obs = P.replay_trace(st, %d, %d, %r, fault_key=st.message_key(puts[%d][2]))\nprint({k: obs.get(k) for k in ('returned', 'raised', 'calls', 'procs')})\n"
                        "sys.exit(1 if (obs.get('returned') or not obs.get('raised')) else 0)\n"
                        ) % (stage.name, str(__import__("vlib.core").core.VERIF), stage.name, n_items, n_workers, n_items, n_workers, trace, fi)
                run.violation(nm, "%s:worker-failure-swallowed" % stage.name,
                              "%s(parallel): %s; real run with the callback of item %r raising: returned=%s raised=%s hang=%s workers=%s" % (
                                  stage.name, what, fkey, obs.get("returned"), obs.get("raised"), hang, obs["procs"]), text, "E3:bmc+detsched", queries=1, solver_s=dt)
            else:
                run.error(nm, "solver schedule did not reproduce on the real code: %s" % ({k: obs.get(k) for k in ("returned", "raised", "drive")},))
        else:
            run.ob(nm, "inconclusive", "E3:bmc", "solver answered %s after %.0fs" % (r, dt), queries=1, solver_s=dt)
    # twin: a run in which the failure is raised exists and the real code raises under it
    r, m, dt = U.check(z3.And(fin["pc"] == ts.end_pc, fin["raised"] == 1))
    nm = "%s.twin" % name
    if r == "sat":
        fi = m.eval(ts.fault_item, model_completion=True).as_long()
        obs = C03.replay_trace(stage, n_items, n_workers, U.trace(m), fault_key=stage.message_key(puts[fi][2]))
        run.replays += 1
        if obs.get("raised"):
            run.ob(nm, "twin-sat", "E3:bmc+detsched", "under a model schedule with item %d failing the REAL entry point raises: %s" % (fi, obs["raised"]), queries=1, solver_s=dt)
        else:
            run.error(nm, "model says the failure is raised, the real code does not: %s" % ({k: obs.get(k) for k in ("returned", "raised", "drive")},))
    else:
        run.ob(nm, "inconclusive", "E3:bmc", "no run in which the failure becomes visible exists in the model (%s)" % r)


def job_backpressure(run, stage_name, n_workers):
    stage = [s for s in STAGES if s.name == stage_name][0]
    check_backpressure(run, stage, n_workers)


def check_backpressure(run, stage, n_workers):
    """A put() with a time-out on the bounded queue can raise queue.Full while a failed worker is dead and the others
    are busy.  How the entry point reacts is EXTRACTED (does it raise, does it drop workers from the list whose exit
    codes it reads later); the stage model gets a put-timeout transition accordingly and is checked with more items
    than the queue holds."""
    name = "%s[W=%d].back-pressure" % (stage.name, n_workers)
    small = stage.item_counts["quick"][0]
    full = mpmodel.extract_full_reaction(lambda: stage.run_entry(small, n_workers, lambda k: None), n_workers)
    if full is None:
        run.ob(name, "confirmed", "E3:extraction", "the producer's put() has no time-out: a full queue blocks it, there is no queue.Full path (covered by the no-hang obligation)")
        return
    script0, _rec = C03.producer_script(stage, small, n_workers)
    maxsize = mpmodel.script_maxsize(script0)
    n_items = maxsize + 3
    try:
        script, rec = C03.producer_script(stage, n_items, n_workers)
    except Exception as e:
        run.ob(name, "inconclusive", "E3:extraction", "put() uses a time-out (reaction to queue.Full: %s) but the stage cannot be run with %d items (queue of %d): not decided (%s)" % (full, n_items, maxsize, e))
        return
    table = C03.worker_table(stage, ([op for op in script if op[0] == 'put'] or [(0, 0, None)])[0][2])
    detects, _r = stage_detects(stage, small, n_workers)
    ts = mpmodel.stage_ts(script, table, n_workers, fault=True, detects=detects, full=full)
    ts.param_constraints.append(z3.ULT(ts.fault_item, 2))
    U = bmc.Unrolled(ts, ts.max_steps, timeout_ms=1500000)
    puts = [op for op in script if op[0] == "put"]
    run.extra.setdefault("models", {})[name] = dict(reaction_to_queue_full=full, items=n_items, queue_maxsize=maxsize, steps=ts.max_steps)
    queries = [
        ("failure-is-visible", U.exists(lambda s: z3.And(s["pc"] == ts.end_pc, s["raised"] == 0)), "a callback raised in a worker but the entry point returns normally"),
        ("no-hang", (lambda s: z3.And(z3.Not(U.enabled(s, progress_only=True)), s["pc"] != ts.end_pc))(U.final()), "a callback raised in a worker and the entry point waits forever"),
    ]
    for qn, bad, what in queries:
        U.solver.set("timeout", 1500000 if qn == "failure-is-visible" else 300000)
        r, m, dt = U.check(bad)
        nm = "%s.%s" % (name, qn)
        if r == "unsat":
            run.ob(nm, "unsat", "E3:bmc", "%d items on a queue of %d, all schedules incl. put() time-outs, failing item among the first two; reaction to queue.Full: %s" % (n_items, maxsize, full), queries=1, solver_s=dt)
        elif r == "sat":
            fi = m.eval(ts.fault_item, model_completion=True).as_long()
            fkey = stage.message_key(puts[fi][2])
            trace = U.trace(m)
            obs = C03.replay_trace(stage, n_items, n_workers, trace, fault_key=fkey)
            swallowed = bool(obs.get("returned"))
            hang = not (obs.get("returned") or obs.get("raised"))
            if swallowed or hang:
                text = ("# schedule + failing item found by the solver (with a put() time-out on the full queue), replayed on the real %s\n"
                        "import sys\nsys.path.insert(0, %r)\nimport props.C03 as P\nfrom props.stages import STAGES\n"
                        "st = [s for s in STAGES if s.name == %r][0]\nscript, rec = P.producer_script(st, %d, %d)\nputs = [op for op in script if op[0] == 'put']\n"
                        "obs = P.replay_trace(st, %d, %d, %r, fault_key=st.message_key(puts[%d][2]))\nprint({k: obs.get(k) for k in ('returned', 'raised', 'calls', 'procs')})\n"
                        "sys.exit(1 if (obs.get('returned') or not obs.get('raised')) else 0)\n"
                        ) % (stage.name, str(__import__("vlib.core").core.VERIF), stage.name, n_items, n_workers, n_items, n_workers, trace, fi)
                run.violation(nm, "%s:worker-failure-swallowed-after-put-timeout" % stage.name,
                              "%s(parallel) with %d items on a queue of %d: %s after a put() time-out dropped the dead worker from the list whose exit codes are read; real run with the callback of item %r raising: returned=%s raised=%s hang=%s" % (
                                  stage.name, n_items, maxsize, what, fkey, obs.get("returned"), obs.get("raised"), hang), text, "E3:bmc+detsched", queries=1, solver_s=dt)
            else:
                run.error(nm, "solver schedule did not reproduce on the real code: %s" % ({k: obs.get(k) for k in ("returned", "raised", "drive")},))
        else:
            run.ob(nm, "inconclusive", "E3:bmc", "solver answered %s after %.0fs" % (r, dt), queries=1, solver_s=dt)


def walk_detection(cfg, n_workers):
    """Does the real dispatcher raise when a receive times out while a worker is not alive? Does it raise on exit codes?"""
    def responder():
        raise Empty()
    state = {"n": 0}

    def responder_once():
        state["n"] += 1
        if state["n"] > 3:
            raise mpmodel.Stop()
        raise Empty()

    rec = mpmodel.Recorder()
    rec.alive_value, rec.exitcode_value = False, 1
    fake = mpmodel.recording_mp(rec, {1: responder_once})
    raised = None
    with mpmodel.patched_mp(fake):
        try:
            cfg.pyramid({t["pos"] for t in cfg.tree if t["seed"]}).walk(lambda pos: None, parallel=n_workers)
        except mpmodel.Stop:
            pass
        except Exception as e:
            raised = "%s: %s" % (type(e).__name__, e)
    return raised is not None


def check_walk(run, cfg, n_workers, cap):
    name = "walk-%s[W=%d]" % (cfg.name, n_workers)
    R, facts = mpmodel_learn_cached(run)
    table = C01.walk_worker_table()
    shutdown, done_max, nstart, seeds, loop_polls, apex_breaks = C01.shutdown_script(cfg, n_workers)
    loop_detects = walk_detection(cfg, n_workers)
    ts = mpmodel.walk_ts(cfg.tree, n_workers, R, table["post_item"], done_max, shutdown, fault=True, max_live_seeds=cap, apex_breaks=apex_breaks,
                         loop_detects_dead=loop_detects, flag_read=table.get("flag_read", "after_empty"), early_set=C01.EARLY_SET.get(cfg.name, []), on_raise=table.get("on_raise", "die"))
    U = bmc.Unrolled(ts, ts.max_steps, timeout_ms=500000)
    run.extra.setdefault("models", {})[name] = dict(dispatcher_raises_on_dead_worker=loop_detects, shutdown=[str(o) for o in shutdown], steps=ts.max_steps)
    fin = U.final()
    queries = [
        ("failure-is-visible", U.exists(lambda s: z3.And(s["pcd"] == ts.end_pcd, s["raised"] == 0)), "a callback raised in a worker but walk() returns normally"),
        ("no-hang", (lambda s: z3.And(z3.Not(U.enabled(s, progress_only=True)), s["pcd"] != ts.end_pcd))(U.final()), "a callback raised in a worker and walk() waits forever"),
    ]
    for qn, bad, what in queries:
        r, m, dt = U.check(bad)
        nm = "%s.%s" % (name, qn)
        if r == "unsat":
            run.ob(nm, "unsat", "E3:bmc", "all schedules x liveness patterns x every failing tile; dispatcher raises on a dead worker: %s" % loop_detects, queries=1, solver_s=dt)
        elif r == "sat":
            fi = m.eval(ts.fault_item, model_completion=True).as_long()
            fpos = cfg.tree[fi]["pos"]
            live_seeds = [t["pos"] for i, t in enumerate(cfg.tree) if t["seed"] and z3.is_true(m.eval(ts.live_seed[i], model_completion=True))]
            trace = C01.annotate(U, m, ts)
            obs = C01.replay_walk(cfg, live_seeds, n_workers, trace, fault_pos=fpos)
            swallowed = bool(obs.get("returned"))
            hang = not (obs.get("returned") or obs.get("raised"))
            if swallowed or hang:
                text = ("# schedule, liveness pattern and failing tile found by the solver, replayed on the real Pyramid.walk (failure injected)\n"
                        "import sys\nsys.path.insert(0, %r)\nimport props.C01 as P\nfrom toasty.pyramid import Pos\n"
                        "cfg = {c.name: c for c in (P.S1, P.S2, P.S2W, P.S3)}[%r]\nobs = P.replay_walk(cfg, %r, %d, %r, fault_pos=%r)\n"
                        "print({k: obs.get(k) for k in ('returned', 'raised', 'events')})\nsys.exit(1 if (obs.get('returned') or not obs.get('raised')) else 0)\n"
                        ) % (str(__import__("vlib.core").core.VERIF), cfg.name, live_seeds, n_workers, trace, fpos)
                run.violation(nm, "walk:worker-failure-%s" % ("swallowed" if swallowed else "hangs"),
                              "walk(parallel): %s; real run with the callback of %r raising: returned=%s raised=%s hang=%s" % (what, tuple(fpos), obs.get("returned"), obs.get("raised"), hang),
                              text, "E3:bmc+detsched", queries=1, solver_s=dt)
            else:
                run.error(nm, "solver schedule did not reproduce on the real code: %s" % ({k: obs.get(k) for k in ("returned", "raised", "drive")},))
        else:
            run.ob(nm, "inconclusive", "E3:bmc", "solver answered %s after %.0fs" % (r, dt), queries=1, solver_s=dt)
    r, m, dt = U.check(z3.And(fin["pcd"] == ts.end_pcd, fin["raised"] == 1))
    nm = "%s.twin" % name
    if r == "sat":
        fi = m.eval(ts.fault_item, model_completion=True).as_long()
        live_seeds = [t["pos"] for i, t in enumerate(cfg.tree) if t["seed"] and z3.is_true(m.eval(ts.live_seed[i], model_completion=True))]
        obs = C01.replay_walk(cfg, live_seeds, n_workers, C01.annotate(U, m, ts), fault_pos=cfg.tree[fi]["pos"])
        run.replays += 1
        if obs.get("raised"):
            run.ob(nm, "twin-sat", "E3:bmc+detsched", "under a model schedule with tile %s failing the REAL walk raises: %s" % (cfg.tree[fi]["name"], obs["raised"]), queries=1, solver_s=dt)
        else:
            run.error(nm, "model says the failure is raised, the real walk does not: %s" % ({k: obs.get(k) for k in ("returned", "raised", "drive")},))
    else:
        run.ob(nm, "inconclusive", "E3:bmc", "no run in which the failure becomes visible exists in the model (%s)" % r)


_LEARNED = {}


def mpmodel_learn_cached(run):
    if "R" not in _LEARNED:
        _LEARNED["R"] = C01.learn(run)
    return _LEARNED["R"]


def serial_propagates(run):
    """Serial modes propagate exceptions naturally: executed for real (one failing item each)."""
    for st in STAGES:
        seen = []

        def on_item(k, seen=seen):
            seen.append(k)
            if len(seen) == 1:
                raise RuntimeError("injected")
        try:
            st.run_serial(st.item_counts["quick"][0], on_item)
            run.violation("%s.serial-propagates" % st.name, "%s:serial-swallows" % st.name, "serial %s swallowed an exception" % st.name, "raise SystemExit(1)\n", "E3")
        except RuntimeError:
            run.ob("%s.serial-propagates" % st.name, "confirmed", "execution", "serial %s re-raises the callback's exception" % st.name)


def check(run):
    for st in STAGES:
        run.uses(st.entry, st.worker)
    run.uses(core_u(tp.Pyramid, "_walk_parallel"), core_u(tp, "_mp_walk_worker"))
    import toasty.par_util as pu
    if hasattr(pu, "check_worker_exit_codes"):
        run.uses(pu.check_worker_exit_codes)
    run.bound(stages="leaf visits, transform, multi-TAN, multi-WCS: 1-2 items, 2 workers (thorough: up to 5 items, 3 workers)", walk="trees S1 (<= 2 live seeds quick), S2, S3; 2 workers",
              fault="exactly one failing callback; the failing item / tile and the schedule are solver variables", schedules="ALL interleavings, complete step bound")
    run.assume("a callback that raises kills its worker process (non-zero exit code, its item lost) as multiprocessing does", "multiprocessing model as in C03 / C01",
               "the entry point notices a failure exactly where the real code reads Process.exitcode / is_alive and raises (extracted by running it against failing fake processes)")
    run.outside("failures other than an exception in the per-item code (e.g. a killed process, unpicklable items)", "more than one fault")
    only = getattr(run, "only", None)
    serial_propagates(run)
    from vlib.core import run_parallel
    jobs = [(st.name, n_items, w) for st in STAGES if not only or any(o in st.name for o in only)
            for n_items in st.item_counts[run.tier] for w in C03.WORKERS[run.tier]]
    plans = [(C01.S1, 2, 2), (C01.S3, 2, None)]
    if run.tier == "thorough":
        plans += [(C01.S2, 2, None), (C01.S1, 2, None), (C01.S2, 3, None)]
    wjobs = [(cfg.name, w, cap) for cfg, w, cap in plans if not only or any(o == "walk" or cfg.name.startswith(o) for o in only)]
    run_parallel(run, __name__, "job_any", [("walk",) + j for j in wjobs] + [("stage",) + j for j in jobs] + [("backpressure", st.name, 2) for st in STAGES if not only or any(o in st.name or o == "back-pressure" for o in only)], timeout_s=3000 if run.tier == "quick" else 20000)


def job_any(run, kind, *args):
    {"walk": job_walk, "stage": job_stage, "backpressure": job_backpressure}[kind](run, *args)
