"""C06 — TOAST sampling writes the sampler's values at each tile's own pixel centres (E2: symx + symnp).

Real functions executed: toast.sample_layer / sample_layer_filtered, ToastSampler.__init__ / visit_callback,
toast_tile_get_coords, generate_tiles(_filtered) / _postfix_corner / _div4 / _create_level1_tiles, Pyramid.new_toast(_filtered)
/ visit_leaves / _visit_leaves_serial / count_leaf_tiles and the reducer, Image.from_array / update_into_maskable_buffer,
PyramidIO.write_image / update_image / read_image / tile_path — over the in-memory tile store.
The compiled `subsample` is replaced by an uninterpreted coordinate function (fresh lon/lat arrays per call, arguments
recorded) and the sampler by an uninterpreted image per call (arguments recorded): the claims are (1) the sampler is
handed exactly the coordinate arrays computed from THAT tile's corners/orientation, (2) the file written under the
tile's position holds the sampler's result in display orientation (rows reversed iff the stored format is bottom-up),
(3) update mode merges by the C15 semantics, (4) one file per (accepted) leaf, nothing else.
"""
from vlib.core import soft_attr as core_u
import numpy as _np
import z3

import toasty.image as ti
import toasty.pyramid as tp
import toasty.toast as tt
from toasty.pyramid import Pos, PyramidIO
from toasty.toast import ToastCoordinateSystem
from vlib import e2, symfs, symnp, symx
from vlib.stubs import no_progress_bar
from vlib.symx import I

SAMPLE = {"F32": ("float32", 0), "RGB": ("uint8", 3), "F64": ("float64", 0)}
FLOATS = ("F32", "F64")


class Layer(e2.Case):
    def __init__(self, depth, kind, default_fmt, fmt_override, clobber, planetary, filtered):
        self.depth, self.kind, self.dfmt, self.ofmt = depth, kind, default_fmt, fmt_override
        self.clobber, self.planetary, self.filtered = clobber, planetary, filtered
        self.name = "layer-d%d-%s-%s%s-%s%s%s" % (depth, kind, default_fmt, ("-as-" + fmt_override) if fmt_override else "",
                                                   "clobber" if clobber else "update", "-planet" if planetary else "",
                                                   "-filtered" if filtered else "")
        self.max_paths = 200
        self.conform_paths = 2

    def run(self, w):
        dt, ch = SAMPLE[self.kind]
        shape = (256, 256) + ((ch,) if ch else ())
        fs = symfs.SymFS()
        coordsys = ToastCoordinateSystem.PLANETARY if self.planetary else ToastCoordinateSystem.ASTRONOMICAL
        ntiles = 4 ** self.depth
        t = w.int("t", 0, ntiles - 1)
        t = int(t)                               # one path per inspected tile
        tx, ty = t % (2 ** self.depth), t // (2 ** self.depth)
        pos = Pos(self.depth, tx, ty)
        fmask = w.int("fmask", 0, 15) if self.filtered else None
        sub_calls, samp_calls = [], []

        def fake_subsample(ul, ur, lr, ll, n, increasing):
            k = len(sub_calls)
            lon = w.array("lon%d" % k, (256, 256), "float64", nonan=True)
            lat = w.array("lat%d" % k, (256, 256), "float64", nonan=True)
            sub_calls.append(dict(corners=_np.array([ul, ur, lr, ll], dtype=float), n=n, inc=bool(increasing), lon=lon, lat=lat))
            return lon, lat

        def sampler(lon, lat):
            k = len(samp_calls)
            mine = [c for c in sub_calls if c["lon"] is lon]
            inspected = bool(mine) and want_corners is not None and _np.allclose(mine[0]["corners"], want_corners, rtol=0, atol=1e-12)
            # only the inspected tile gets fully arbitrary content (NaN allowed); the others are arbitrary non-NaN
            out = w.array("samp%d" % k, shape, dt, nonan=not inspected)
            samp_calls.append(dict(lon=lon, lat=lat, out=out))
            return out

        def tile_filter(tile):
            p = tile.pos
            while p.n > 1:
                p = Pos(p.n - 1, p.x // 2, p.y // 2)
            b = (fmask >> (p.y * 2 + p.x)) & 1 if not w.symbolic else None
            if w.symbolic:
                return bool(symx.SymInt((I(fmask) / (1 << (p.y * 2 + p.x))) % 2) == 1)
            return b == 1

        old = None
        want_corners = _np.array(tt.create_single_tile(pos, coordsys=coordsys).corners, dtype=float) if self.depth >= 1 else None
        want_inc = tt.create_single_tile(pos, coordsys=coordsys).increasing if self.depth >= 1 else None
        saved_sub = tt.subsample
        tt.subsample = fake_subsample
        saved_pb = (tt.progress_bar, tp.progress_bar, tp.__dict__.get("print"))
        tt.progress_bar = tp.progress_bar = no_progress_bar
        tp.print = lambda *a, **k: None
        exc = None
        try:
            with w.patched(ti), w.patched(tt), fs.installed(w):
                pio = PyramidIO("/t", default_format=self.dfmt)
                path = pio.tile_path(pos, format=self.ofmt or self.dfmt, makedirs=False)
                upd_override = (not self.clobber) and (not self.filtered) and self.ofmt is not None
                if not self.clobber and not self.filtered and not upd_override:
                    # update mode starts from an arbitrary existing tile at the inspected position (or none)
                    if bool(w.bool("had_tile")):
                        och = 4 if self.kind == "RGB" else ch
                        old = w.array("old", (256, 256) + ((och,) if och else ()), dt)
                        fs.put_tile(path, old, {})
                if self.filtered:
                    tt.sample_layer_filtered(pio, tile_filter, sampler, self.depth, coordsys=coordsys, parallel=1)
                elif self.clobber:
                    tt.sample_layer(pio, sampler, self.depth, coordsys=coordsys, format=self.ofmt, parallel=1)
                else:
                    from toasty.pyramid import Pyramid
                    p = Pyramid.new_toast(self.depth, coordsys=coordsys)
                    # update mode with a format override: whichever format the tile ends up in, its rows must follow
                    # THAT format's vertical parity
                    proc = tt.ToastSampler(pio, sampler, False, format=self.ofmt) if upd_override else tt.ToastSampler(pio, sampler, False)
                    p.visit_leaves(proc.visit_callback, parallel=1)
        finally:
            tt.subsample = saved_sub
            tt.progress_bar, tp.progress_bar = saved_pb[0], saved_pb[1]
            if saved_pb[2] is None:
                del tp.print
            else:
                tp.print = saved_pb[2]
        # which subsample call belongs to the inspected tile?
        ks = [k for k, c in enumerate(sub_calls) if _np.allclose(c["corners"], want_corners, rtol=0, atol=1e-12) and c["inc"] == want_inc]
        f = fs.files.get(path)
        stored_fmt = self.ofmt or self.dfmt
        if (not self.clobber) and (not self.filtered) and self.ofmt is not None:
            alt = path[:path.rindex(".") + 1] + self.dfmt
            both = [(fm, fs.files.get(pp)) for fm, pp in ((self.ofmt, path), (self.dfmt, alt)) if fs.files.get(pp) is not None]
            if len(both) == 1:
                stored_fmt, f = both[0]
            elif len(both) == 2:
                stored_fmt, f = "both", None
        saves = [p_ for (kk, p_) in fs.log if kk == "save"]
        accepted = None
        if self.filtered:
            accepted = bool(symx.SymInt((I(fmask) / (1 << ((ty >> (self.depth - 1)) * 2 + (tx >> (self.depth - 1))))) % 2) == 1) if w.symbolic else \
                ((fmask >> ((ty >> (self.depth - 1)) * 2 + (tx >> (self.depth - 1)))) & 1) == 1
        return dict(pos=pos, path=path, stored=None if f is None else f["arr"], ks=ks, sub_calls=sub_calls, samp_calls=samp_calls,
                    saves=saves, nfiles=len([p_ for p_ in fs.files if not p_.endswith(".lock")]), old=old, accepted=accepted,
                    locks_left=len(fs.locks), files=sorted(fs.files), fmask=fmask, stored_fmt=stored_fmt)

    def same_path(self, so, ro):
        return (so["stored"] is None) == (ro["stored"] is None)

    def claims(self, w, o):
        depth = self.depth
        ntiles = 4 ** depth
        stored_fmt = o.get("stored_fmt", self.ofmt or self.dfmt)
        w.claim("stored-in-one-format", stored_fmt != "both", probe=lambda ro, val: ro.get("stored_fmt") != "both", what="the tile was written in two formats")
        bu = stored_fmt == "fits"
        if self.filtered and not o["accepted"]:
            w.claim("rejected-tile-not-written", o["stored"] is None and o["ks"] == [], probe=lambda ro, val: ro["stored"] is None,
                    what="a tile rejected by the filter was sampled/written")
            return
        ks = o["ks"]
        w.claim("coords-computed-once-from-own-corners", len(ks) == 1 and o["sub_calls"][ks[0]]["n"] == 256 if ks else False,
                probe=lambda ro, val: len(ro["ks"]) == 1, what="no (or several) coordinate computation with the tile's own corners/orientation")
        if len(ks) != 1:
            return
        k = ks[0]
        sc = o["sub_calls"][k]
        # the sampler call that received exactly these coordinate arrays
        js = [j for j, c in enumerate(o["samp_calls"]) if c["lon"] is sc["lon"] and c["lat"] is sc["lat"]]
        w.claim("sampler-gets-own-coords", len(js) == 1, probe=lambda ro, val: len(_match(ro)) == 1,
                what="sampler not called with (lon, lat) of the tile's own pixel centres, in that order")
        if len(js) != 1:
            return
        samp = o["samp_calls"][js[0]]["out"]
        if not self.filtered:
            exp = ntiles - (0 if o["stored"] is not None else 1)
            w.claim("one-file-per-leaf", o["nfiles"] == exp and len(o["samp_calls"]) == ntiles and o["locks_left"] == 0,
                    probe=lambda ro, val: ro["nfiles"] == ntiles - (0 if ro["stored"] is not None else 1) and len(ro["samp_calls"]) == ntiles,
                    what="number of tile files != 4^depth (one per leaf)")
        dt, ch = SAMPLE[self.kind]
        och = ch
        if self.kind == "RGB" and not self.clobber:
            och = 4
        r = w.int("r", 0, 255)
        c = w.int("c", 0, 255)
        idx = (r, c)
        chv = None
        if och:
            chv = w.int("ch", 0, och - 1)
            idx = (r, c, chv)
        w.pixel(*idx)
        w.pixel(r, c)
        sr = (255 - I(r)) if bu else I(r)
        w.pixel(sr, I(c))
        w.pixel(255 - I(r), I(c))
        if self.clobber:
            want = samp.get((sr, I(c)) + ((I(chv),) if och else ()))
            und = None
        else:
            old = o["old"]
            if self.kind == "RGB":
                src = symnp.elem_ite(I(chv) == 3, z3.IntVal(255), samp.get((sr, I(c), z3.If(I(chv) == 3, 0, I(chv)))))
                want = src
            else:
                sv = samp.get((sr, I(c)))
                oldv = old.get((I(r), I(c))) if old is not None else symnp.nan_elem()
                want = symnp.elem_ite(sv.nan, oldv, sv)
        if o["stored"] is not None:
            w.claim_eq("tile-pixel", o["stored"].get(idx), want, probe=("stored", idx),
                       ref=lambda ro, val: _ref_pixel(ro, val, self, bu, r, c, chv),
                       what="sampled tile %s: stored pixel (display orientation, rows reversed iff bottom-up format) != sampler value at that pixel of the same tile" % self.name)
        else:
            u = symnp.lift(want, True).nan if self.kind in FLOATS else z3.BoolVal(False)
            w.claim("unstored-only-if-undefined", u,
                    probe=lambda ro, val: ro["stored"] is not None or (self.kind in FLOATS and _isnan(_ref_pixel(ro, val, self, bu, r, c, chv))),
                    what="sampled tile missing although the sampler produced a defined pixel")


def _isnan(v):
    try:
        return bool(v != v)
    except Exception:
        return False


def _match(ro):
    ks = ro["ks"]
    if len(ks) != 1:
        return []
    sc = ro["sub_calls"][ks[0]]
    return [j for j, c in enumerate(ro["samp_calls"]) if c["lon"] is sc["lon"] and c["lat"] is sc["lat"]]


def _ref_pixel(ro, val, case, bu, r, c, chv):
    js = _match(ro)
    samp = ro["samp_calls"][js[0]]["out"]
    rr, cc = int(val(r)), int(val(c))
    sr = 255 - rr if bu else rr
    if case.clobber:
        return samp[(sr, cc) + ((int(val(chv)),) if chv is not None else ())]
    if case.kind == "RGB":
        k = int(val(chv))
        return 255 if k == 3 else samp[sr, cc, k]
    v = samp[sr, cc]
    if v != v:
        return ro["old"][rr, cc] if ro["old"] is not None else float("nan")
    return v


class DepthZero(e2.Case):
    """depth 0 is documented for `toasty tile-allsky` (one whole-sphere tile)."""
    name = "layer-depth0"
    max_paths = 4

    def run(self, w):
        fs = symfs.SymFS()
        calls = []

        def sampler(lon, lat):
            calls.append(1)
            return w.array("samp0", (256, 256), "float32")

        saved_pb = (tt.progress_bar, tp.progress_bar, tp.__dict__.get("print"))
        tt.progress_bar = tp.progress_bar = no_progress_bar
        tp.print = lambda *a, **k: None
        err = None
        try:
            with w.patched(ti), fs.installed(w):
                pio = PyramidIO("/t", default_format="npy")
                try:
                    tt.sample_layer(pio, sampler, 0, parallel=1)
                except Exception as e:   # noqa: the failure itself is the observation
                    err = "%s: %s" % (type(e).__name__, e)
        finally:
            tt.progress_bar, tp.progress_bar = saved_pb[0], saved_pb[1]
            if saved_pb[2] is None:
                del tp.print
            else:
                tp.print = saved_pb[2]
        return dict(err=err, nfiles=len(fs.files), files=sorted(fs.files))

    def claims(self, w, o):
        w.claim("depth0-produces-the-single-tile", o["err"] is None and o["files"] == ["/t/0/0/0_0.npy"],
                probe=lambda ro, val: ro["err"] is None and ro["files"] == ["/t/0/0/0_0.npy"],
                sig="toast.py:ToastSampler.visit_callback:depth0-tile-is-None",
                what="sample_layer(depth=0) fails (%s): the level-0 tile has no Tile geometry, although depth 0 is documented (docs/cli/tile-allsky.rst)" % o["err"])


def cases(tier):
    out = [
        Layer(1, "F32", "npy", None, True, False, False),
        Layer(1, "F32", "fits", None, True, False, False),
        Layer(1, "RGB", "png", None, True, True, False),
        Layer(1, "F32", "png", "fits", True, False, False),      # format override with the opposite parity
        Layer(1, "F32", "fits", "npy", True, False, False),
        Layer(1, "F32", "fits", None, False, False, False),
        Layer(1, "F32", "npy", None, False, True, False),
        Layer(1, "RGB", "png", None, False, False, False),
        Layer(1, "F32", "fits", None, False, False, True),
        Layer(1, "F32", "npy", "fits", False, False, False),     # update mode with a format override of the opposite parity
        Layer(1, "F32", "fits", "npy", False, False, False),
        Layer(2, "F32", "fits", None, True, False, False),
        DepthZero(),
    ]
    if tier == "thorough":
        out += [Layer(2, "F32", "npy", None, False, True, False), Layer(2, "RGB", "png", None, True, False, False),
                Layer(2, "F32", "fits", None, False, False, True), Layer(3, "F32", "fits", None, True, False, False)]
    return out


def check(run):
    run.uses(tt.sample_layer, tt.sample_layer_filtered, tt.ToastSampler.__init__, tt.ToastSampler.visit_callback, tt.toast_tile_get_coords,
             tt.generate_tiles_filtered, core_u(tt, "_postfix_corner"), core_u(tt, "_div4"), core_u(tt, "_create_level1_tiles"), tt.create_single_tile,
             tp.Pyramid.visit_leaves, core_u(tp.Pyramid, "_visit_leaves_serial"), tp.PyramidIO.write_image, tp.PyramidIO.update_image,
             tp.PyramidIO.read_image, ti.Image.from_array, ti.Image.update_into_maskable_buffer)
    run.bound(depth="0, 1, 2 (quick); up to 3 (thorough): every tile of the layer inspected (one path per tile)", pixels="symbolic (r, c, channel)",
              sampler="uninterpreted image per call; scalar float and RGB", modes="clobber and update (arbitrary prior tile or none)",
              formats="npy / fits / png defaults and format overrides of the opposite parity", coordsys="both", filter="symbolic level-1 mask (filtered mode)")
    run.assume("toasty._libtoasty.subsample replaced by an uninterpreted coordinate function (C05 relates it to the tile geometry)",
               "the sampler is an arbitrary elementwise function: it is modelled as an arbitrary image per call and the identity of the coordinate arrays it receives is checked",
               "codecs = identity; filelock.SoftFileLock replaced by an in-memory stand-in", "worker-count independence via C03 (every leaf handed to exactly one worker) and the per-tile determinism shown here")
    run.outside("codecs", "sampler internals (C11)", "parallel execution (C03)")
    e2.run_cases_parallel(run, __name__)
