"""CrossHair conditions for C17: the WTML URL template, the files on disk and the returned data-set description."""
import os
import shutil
import tempfile

import toasty.builder as tb
import toasty.fits_tiler as tft
import toasty.pyramid as tp
from toasty.fits_tiler import FitsTiler, TilingMethod
from toasty.pyramid import Pos, PyramidIO

FORMATS = ["png", "jpg", "npy", "fits"]
SCHEMES = ["L/Y/YX", "LXY"]


def _expand(template, level, x, y):
    """The WWT client's expansion of a tile URL template: {1} = level, {2} = x, {3} = y."""
    return template.replace("{1}", level).replace("{2}", x).replace("{3}", y)


def _digits(s: str) -> bool:
    return 1 <= len(s) <= 2 and all(c in "0123456789" for c in s)


def _path_for(pio, level, ix, iy):
    """Path the tile for (level, ix, iy) (decimal strings) is written to + the renderings the template is expanded with.
    The string-level path builder is used when the code has one; otherwise the public tile_path(Pos)."""
    f = getattr(pio, "_tile_path", None)
    if f is not None:
        return f(level, ix, iy, format=None, makedirs=False), (level, ix, iy)
    n, x, y = int(level), int(ix), int(iy)
    return pio.tile_path(Pos(n, x, y), makedirs=False), (str(n), str(x), str(y))


def chk_template_matches_path_lyyx(level: str, ix: str, iy: str) -> bool:
    """
    L/Y/YX scheme: expanding the recorded template with (level, x, y) gives the relative path the tile is written to.

    pre: _digits(level) and _digits(ix) and _digits(iy)
    post: _
    """
    pio = PyramidIO("/base", scheme="L/Y/YX", default_format="png")
    p, (a, b, c) = _path_for(pio, level, ix, iy)
    url = pio.get_path_scheme() + "." + pio.get_default_format()
    return p == "/base/" + _expand(url, a, b, c)


def chk_template_matches_path_lxy(level: str, ix: str, iy: str) -> bool:
    """
    LXY scheme.

    pre: _digits(level) and _digits(ix) and _digits(iy)
    post: _
    """
    pio = PyramidIO("/base", scheme="LXY", default_format="fits")
    p, (a, b, c) = _path_for(pio, level, ix, iy)
    url = pio.get_path_scheme() + "." + pio.get_default_format()
    return p == "/base/" + _expand(url, a, b, c)


def chk_tile_path_renders_position(n: int, x: int, y: int, s: int, f: int, g: int) -> bool:
    """
    tile_path(Pos) = the template expanded with the decimal renderings of (n, x, y); an explicit format only changes
    the extension.

    pre: 0 <= n <= 2 and 0 <= x < 2**n and 0 <= y < 2**n
    pre: 0 <= s < 2 and f == 3 and 0 <= g < 4
    post: _
    """
    pio = PyramidIO("/base", scheme=SCHEMES[s], default_format=FORMATS[f])
    p = pio.tile_path(Pos(n, x, y), makedirs=False)
    p2 = pio.tile_path(Pos(n, x, y), format=FORMATS[g], makedirs=False)
    stem = "/base/" + _expand(pio.get_path_scheme(), str(n), str(x), str(y))
    return p == stem + "." + FORMATS[f] and p2 == stem + "." + FORMATS[g]


def chk_builder_records_pio(s: int, f: int) -> bool:
    """
    pre: 0 <= s < 2 and 0 <= f < 4
    post: _
    """
    pio = PyramidIO("/base", scheme=SCHEMES[s], default_format=FORMATS[f])
    b = tb.Builder(pio)
    return b.imgset.file_type == "." + FORMATS[f] and b.imgset.url == pio.get_path_scheme() + "." + FORMATS[f]


def chk_toast_base_records_depth(depth: int, planet: bool, filtered: bool) -> bool:
    """
    pre: 0 <= depth <= 12
    post: _
    """
    import toasty.toast as tt
    calls = []
    saved = (tt.sample_layer, tt.sample_layer_filtered)
    tt.sample_layer = lambda pio, sampler, d, **k: calls.append(("all", d))
    tt.sample_layer_filtered = lambda pio=None, tile_filter=None, sampler=None, depth=None, **k: calls.append(("filtered", depth))
    try:
        b = tb.Builder(PyramidIO("/base", default_format="png"))
        if filtered:
            b.toast_base("SAMPLER", depth, is_planet=planet, tile_filter="F")
        else:
            b.toast_base("SAMPLER", depth, is_planet=planet)
    finally:
        tt.sample_layer, tt.sample_layer_filtered = saved
    return b.imgset.tile_levels == depth and calls == [("filtered" if filtered else "all", depth)]


def chk_toast_tiler_levels(l0: int, l1: int, l2: int, n_images: int, explicit_start: int) -> bool:
    """
    The REAL FitsTiler._tile_toast over a collection of up to three images whose pixel scales suggest the TOAST levels
    l0, l1, l2 (any order), with or without an explicit start level: every input is sampled into the SAME layer, and the
    tile levels recorded in the builder (what the WTML says) are the depth of the deepest layer that received tiles.

    pre: 1 <= l0 <= 12 and 1 <= l1 <= 12 and 1 <= l2 <= 12
    pre: 1 <= n_images <= 3
    pre: 0 <= explicit_start <= 12
    post: _
    """
    import toasty.samplers as tsm
    import toasty.toast as tt
    levels = [l0, l1, l2][:n_images]

    class Wcs:
        _naxis = (7, 9)

        def __init__(self, k):
            self.k = k

        def __getitem__(self, i):
            return ("WCS", self.k)[i]

    class Img:
        def __init__(self, k):
            self.wcs = Wcs(k)

        def has_wcs(self):
            return True

        def asarray(self):
            return "DATA"

    class Coll:
        def images(self):
            return iter([Img(k) for k in range(len(levels))])

        def export_simple(self):
            return [("/data/in%d.fits" % k, 0) for k in range(len(levels))]

    class FakeWcsSampler:
        def __init__(self, data=None, wcs=None):
            self.k = wcs[1]

        def filter(self):
            return lambda tile: True

        def sampler(self):
            return ("SAMPLER", self.k)

    sampled = []
    cascaded = []
    saved = (tt.sample_layer, tt.sample_layer_filtered, tsm.WcsSampler, tp.guess_base_layer_level, tb.Builder.cascade, tb.Builder.apply_wcs_info)
    tb.Builder.apply_wcs_info = lambda self, wcs=None, width=None, height=None, **k: None
    tt.sample_layer = lambda pio, sampler, depth, **k: sampled.append(depth)
    tt.sample_layer_filtered = lambda pio=None, tile_filter=None, sampler=None, depth=None, **k: sampled.append(depth)
    tsm.WcsSampler = FakeWcsSampler
    tp.guess_base_layer_level = lambda wcs=None, **k: levels[wcs[1]]
    tb.Builder.cascade = lambda self, **k: cascaded.append(self.imgset.tile_levels)
    try:
        t = FitsTiler(Coll(), out_dir="/base/out", tiling_method=TilingMethod.TOAST)
        t.builder = tb.Builder(PyramidIO("/base/out", default_format="fits"))
        if explicit_start > 0:
            t._tile_toast(False, 1, start=explicit_start)
        else:
            t._tile_toast(False, 1)
    finally:
        tt.sample_layer, tt.sample_layer_filtered, tsm.WcsSampler, tp.guess_base_layer_level, tb.Builder.cascade, tb.Builder.apply_wcs_info = saved
    want = explicit_start if explicit_start > 0 else max(levels)
    return (len(sampled) == len(levels) and all(d == want for d in sampled) and t.builder.imgset.tile_levels == max(sampled)
            and cascaded == [want])


# ---------------------------------------------------------------- histories of FitsTiler.tile() on one output directory

def _make_tiler(method, out_dir, produced):
    class Coll:
        def export_simple(self):
            return [("/data/in.fits", 0)]

    t = FitsTiler(Coll(), out_dir=out_dir, tiling_method=method)

    def fake_tile(cli_progress, parallel, **kw):
        # stands for the real tiling work: populates the builder the way the real methods do (levels + astrometry)
        os.makedirs(out_dir, exist_ok=True)
        t.builder.imgset.tile_levels = produced["levels"]
        t.builder.imgset.center_x = produced["cx"]
        t.builder.imgset.center_y = produced["cy"]
        t.builder.imgset.base_degrees_per_tile = produced["bdpt"]

    t._tile_tan = fake_tile
    t._tile_toast = fake_tile
    return t


def _wtml_imageset(out_dir):
    from wwt_data_formats.folder import Folder
    from wwt_data_formats.imageset import ImageSet
    f = Folder.from_file(os.path.join(out_dir, "index_rel.wtml"))
    for c in f.children:
        if isinstance(c, ImageSet):
            return c
        fg = getattr(c, "foreground_image_set", None)
        if fg is not None:
            return fg
    return None


def chk_reuse_history(toast: bool, history: int, levels: int) -> bool:
    """
    history 0: fresh call; 1: a second identical call reusing the directory; 2: a second call with override=True.
    The builder handed back must describe the same data set as the index_rel.wtml in the directory.

    pre: 0 <= history <= 2
    pre: 0 <= levels <= 9
    post: _
    """
    d = "/tmp/verif-c17-%d-%d%d%d" % (os.getpid(), int(toast), history, levels)     # (tempfile's random names are intercepted by CrossHair)
    shutil.rmtree(d, ignore_errors=True)
    os.makedirs(d)
    out = os.path.join(d, "tiles")
    method = TilingMethod.TOAST if toast else TilingMethod.TAN
    produced = dict(levels=levels, cx=12.5, cy=-33.25, bdpt=0.75)
    try:
        t = _make_tiler(method, out, produced)
        t.tile(parallel=1)
        if history >= 1:
            t = _make_tiler(method, out, produced)
            t.tile(parallel=1, override=(history == 2))
        w = _wtml_imageset(out)
        b = t.builder.imgset
        return (w is not None and b.tile_levels == w.tile_levels == levels and b.url == w.url and b.file_type == w.file_type
                and b.center_x == w.center_x and b.center_y == w.center_y and b.base_degrees_per_tile == w.base_degrees_per_tile)
    finally:
        shutil.rmtree(d, ignore_errors=True)


def chk_reuse_long_history(toast: bool, lv1: int, lv2: int) -> bool:
    """
    A four-call history on one output directory in one process: fresh (pyramid of lv1 levels), reuse, override=True with
    a CHANGED input (lv2 levels, other astrometry), reuse again.  After every call the builder handed back must describe
    the index_rel.wtml now in the directory.

    pre: 0 <= lv1 <= 9 and 0 <= lv2 <= 9
    post: _
    """
    d = "/tmp/verif-c17-long-%d-%d%d%d" % (os.getpid(), int(toast), lv1, lv2)
    shutil.rmtree(d, ignore_errors=True)
    os.makedirs(d)
    out = os.path.join(d, "tiles")
    method = TilingMethod.TOAST if toast else TilingMethod.TAN
    first = dict(levels=lv1, cx=12.5, cy=-33.25, bdpt=0.75)
    second = dict(levels=lv2, cx=-7.0, cy=41.5, bdpt=1.5)
    ok = True
    try:
        for produced, override, want in ((first, False, first), (first, False, first), (second, True, second), (second, False, second)):
            t = _make_tiler(method, out, produced)
            t.tile(parallel=1, override=override)
            w = _wtml_imageset(out)
            b = t.builder.imgset
            ok = ok and (w is not None and b.tile_levels == w.tile_levels == want["levels"] and b.url == w.url and b.file_type == w.file_type
                         and b.center_x == w.center_x == want["cx"] and b.center_y == w.center_y == want["cy"]
                         and b.base_degrees_per_tile == w.base_degrees_per_tile == want["bdpt"])
        return ok
    finally:
        shutil.rmtree(d, ignore_errors=True)


def explain(func, call):
    if func == "chk_reuse_history":
        try:
            args = eval("(" + call[call.index("(") + 1:call.rindex(")")] + ",)")
            if args[1] == 1:
                return ("fits_tiler.py:FitsTiler.tile:reuse-returns-unpopulated-builder",
                        "FitsTiler.tile() on an existing output directory (no override) returns a fresh Builder whose ImageSet lacks the tile levels and astrometry recorded in index_rel.wtml (only HiPS output is restored)")
        except Exception:
            pass
    return None
