"""C08 — study tiling is a lossless, centred partition of the image into 256-pixel tiles (E2: symx + symnp).

Real functions executed: pyramid.next_highest_power_of_2, StudyTiling.__init__ / compute_for_subimage / image_to_tile /
count_populated_positions / generate_populated_positions / tile_image, Image.fill_into_maskable_buffer,
ImageMode.make_maskable_buffer, PyramidIO.write_image / tile_path, Image.save, Image.is_completely_masked.
Symbolic: image WIDTH and HEIGHT, sub-image offset/size, the image content, the inspected image pixel / tile slot and
the tile index (the tile loops are summarised by one arbitrary or one witness iteration; the loops are checked to
carry no local state between iterations on every run).
"""
import numpy as _np
import z3

import toasty.image as ti
import toasty.pyramid as tp
import toasty.study as ts
from toasty.image import Image
from toasty.pyramid import Pos, PyramidIO
from toasty.study import StudyTiling
from vlib import e2, symfs, symnp, symx
from vlib.stubs import no_progress_bar
from vlib.symx import I, SymInt, SymRange

MAXLOG = {"quick": 12, "thorough": 20}
COMBOS = {("F32", "fits"): ("float32", 0), ("F32", "npy"): ("float32", 0), ("RGB", "png"): ("uint8", 3),
          ("RGBA", "png"): ("uint8", 4), ("U8", "fits"): ("uint8", 0), ("F16x3", "npy"): ("float16", 3),
          ("I16", "fits"): ("int16", 0)}
FLOATS = ("F32", "F16x3")


def study_patches(w, rng):
    """toasty.study with symbolic-aware int/range/min/max and a silent progress bar (symbolic world only)."""
    return w.patched(ts, names=("np", "int", "range", "max", "min", "progress_bar"),
                     extra={"range": rng, "progress_bar": no_progress_bar})


def sizes(w, tier, sub):
    top = 2 ** MAXLOG[tier]
    W = w.int("W", 1, top)
    H = w.int("H", 1, top)
    w.prefer(symx.B(W <= 700) & symx.B(H <= 700)) if w.symbolic else None
    if not sub:
        return W, H, None
    sx = w.int("sx", 0)
    sy = w.int("sy", 0)
    sw = w.int("sw", 1)
    sh = w.int("sh", 1)
    w.assume(sx + sw <= W)
    w.assume(sy + sh <= H)
    return W, H, (sx, sy, sw, sh)


class Geometry(e2.Case):
    """Padded size, centring, levels, image_to_tile, count formula."""

    def __init__(self, tier, sub):
        self.tier, self.sub = tier, sub
        self.name = "geometry%s" % ("-sub" if sub else "")
        self.max_paths = 2000
        self.budget_s = 200

    def run(self, w):
        W, H, subr = sizes(w, self.tier, self.sub)
        px = w.int("px")
        py = w.int("py")
        rng = SymRange()
        with study_patches(w, rng):
            t = StudyTiling(W, H)
            base = t
            if subr:
                # history on the parent object: it may have been counted / enumerated before the sub-tiling is derived
                if w.bool("parent_queried_first"):
                    base.count_populated_positions()
                    for _tup in base.generate_populated_positions():
                        break
                t = t.compute_for_subimage(*subr)
            itt = t.image_to_tile(px, py)
            cnt = t.count_populated_positions()
        return dict(W=W, H=H, sub=subr, p2n=base._p2n, tile_size=base._tile_size, levels=base._tile_levels,
                    gx0=t._img_gx0, gy0=t._img_gy0, bgx0=base._img_gx0, bgy0=base._img_gy0, tw=t._width, th=t._height,
                    itt0=itt[0], itt1=itt[1], itt2=itt[2], itt3=itt[3], cnt=cnt, px=px, py=py, sub_levels=t._tile_levels,
                    sub_p2n=t._p2n)

    def claims(self, w, o):
        W, H = o["W"], o["H"]
        p2n = o["p2n"]
        if not isinstance(p2n, int):
            raise symx.Unsupported("padded size is not concrete on this path")
        k = p2n.bit_length() - 1
        ok = p2n >= 256 and p2n == 1 << k
        w.claim("p2n-power-of-two-ge-256", ok, probe=lambda ro, val: ro["p2n"] >= 256 and ro["p2n"] & (ro["p2n"] - 1) == 0)
        w.claim("p2n-contains-image", z3.And(I(W) <= p2n, I(H) <= p2n), probe=lambda ro, val: ro["p2n"] >= ro["W"] and ro["p2n"] >= ro["H"],
                what="padded square smaller than the image")
        w.claim("p2n-smallest", z3.Or(p2n == 256, I(W) > p2n // 2, I(H) > p2n // 2),
                probe=lambda ro, val: ro["p2n"] == 256 or ro["W"] > ro["p2n"] // 2 or ro["H"] > ro["p2n"] // 2,
                what="padded square is not the smallest power of two >= 256 containing the image")
        w.claim("levels", o["levels"] == k - 8 and o["tile_size"] == p2n // 256 and o["sub_levels"] == k - 8 and o["sub_p2n"] == p2n,
                probe=lambda ro, val: ro["levels"] == ro["p2n"].bit_length() - 9 and ro["tile_size"] == ro["p2n"] // 256)
        w.claim_eq("centred-x", o["bgx0"], SymInt((p2n - I(W)) / 2), probe=("bgx0", None), what="image not centred horizontally (offset rounded down)")
        w.claim_eq("centred-y", o["bgy0"], SymInt((p2n - I(H)) / 2), probe=("bgy0", None), what="image not centred vertically (offset rounded down)")
        if o["sub"]:
            sx, sy, sw, sh = o["sub"]
            w.claim_eq("sub-offset-x", o["gx0"], o["bgx0"] + sx, probe=("gx0", None))
            w.claim_eq("sub-offset-y", o["gy0"], o["bgy0"] + sy, probe=("gy0", None))
            w.claim_eq("sub-width", o["tw"], sw, probe=("tw", None))
            w.claim_eq("sub-height", o["th"], sh, probe=("th", None))
        gx = I(o["px"]) + I(o["gx0"])
        gy = I(o["py"]) + I(o["gy0"])
        w.claim_eq("image-to-tile-tx", o["itt0"], SymInt(gx / 256), probe=("itt0", None))
        w.claim_eq("image-to-tile-ty", o["itt1"], SymInt(gy / 256), probe=("itt1", None))
        w.claim_eq("image-to-tile-sx", o["itt2"], SymInt(gx % 256), probe=("itt2", None))
        w.claim_eq("image-to-tile-sy", o["itt3"], SymInt(gy % 256), probe=("itt3", None))
        x0, x1 = I(o["gx0"]), I(o["gx0"]) + I(o["tw"]) - 1
        y0, y1 = I(o["gy0"]), I(o["gy0"]) + I(o["th"]) - 1
        w.claim_eq("count-formula", o["cnt"], SymInt((x1 / 256 - x0 / 256 + 1) * (y1 / 256 - y0 / 256 + 1)), probe=("cnt", None),
                   what="count_populated_positions != number of tiles overlapping the image")


class Positions(e2.Case):
    """generate_populated_positions: each rectangle inside its tile and the image; every image pixel in exactly one
    (tile, slot); distinct tiles have disjoint rectangles; count = number of index pairs."""

    def __init__(self, tier, sub, witness):
        self.tier, self.sub, self.witness = tier, sub, witness
        self.name = "positions%s-%s" % ("-sub" if sub else "", "witness" if witness else "any2")
        self.max_paths = 4000
        self.budget_s = 220

    def run(self, w):
        W, H, subr = sizes(w, self.tier, self.sub)
        px = w.int("px", 0)
        py = w.int("py", 0)
        if w.symbolic:
            wits = {}
        with study_patches(w, None if not w.symbolic else SymRange()):
            t = StudyTiling(W, H)
            if subr:
                if self.witness:
                    t.count_populated_positions()    # the parent has been queried before (history on the parent object)
                t = t.compute_for_subimage(*subr)
        w.assume(px < t._width)
        w.assume(py < t._height)
        gx = px + t._img_gx0
        gy = py + t._img_gy0
        if w.symbolic:
            outs = []
            rngs = []
            for rep in range(1 if self.witness else 2):
                rng = SymRange({0: gy // 256, 1: gx // 256} if self.witness else None)
                if not self.witness and rep == 1:
                    # second arbitrary tile: fresh names
                    rng = _Renamed(rng, "b")
                with study_patches(w, rng):
                    outs.append(list(t.generate_populated_positions()))
                rngs.append(rng)
            with study_patches(w, SymRange()):
                cnt = t.count_populated_positions()
            return dict(W=W, H=H, t=t, px=px, py=py, outs=outs, rngs=rngs, cnt=cnt, gx=gx, gy=gy)
        # real world: the full enumeration
        allp = list(t.generate_populated_positions())
        return dict(W=W, H=H, t=t, px=px, py=py, allp=allp, cnt=t.count_populated_positions(), gx=gx, gy=gy)

    def claims(self, w, o):
        t = o["t"]
        gx0, gy0, tw, th = I(t._img_gx0), I(t._img_gy0), I(t._width), I(t._height)
        lev = t._tile_levels
        nt = 2 ** lev

        def rect_ok(tup):
            pos, rw, rh, ix, iy, tx, ty = tup
            return z3.And(I(rw) >= 1, I(rw) <= 256, I(rh) >= 1, I(rh) <= 256,
                          I(tx) >= 0, I(tx) + I(rw) <= 256, I(ty) >= 0, I(ty) + I(rh) <= 256,
                          I(ix) >= 0, I(ix) + I(rw) <= tw, I(iy) >= 0, I(iy) + I(rh) <= th,
                          I(ix) + gx0 == I(pos.x) * 256 + I(tx), I(iy) + gy0 == I(pos.y) * 256 + I(ty),
                          I(pos.x) >= 0, I(pos.x) < nt, I(pos.y) >= 0, I(pos.y) < nt)

        def real_rects_ok(ro):
            tt = ro["t"]
            seen = set()
            for pos, rw, rh, ix, iy, tx, ty in ro["allp"]:
                if not (1 <= rw <= 256 and 1 <= rh <= 256 and 0 <= tx and tx + rw <= 256 and 0 <= ty and ty + rh <= 256
                        and 0 <= ix and ix + rw <= tt._width and 0 <= iy and iy + rh <= tt._height
                        and ix + tt._img_gx0 == pos.x * 256 + tx and iy + tt._img_gy0 == pos.y * 256 + ty
                        and pos.n == tt._tile_levels and 0 <= pos.x < 2 ** pos.n and 0 <= pos.y < 2 ** pos.n):
                    return False
                if pos in seen:
                    return False
                seen.add(pos)
            return True

        def real_cover_ok(ro):
            n = 0
            for pos, rw, rh, ix, iy, tx, ty in ro["allp"]:
                if ix <= ro["px"] < ix + rw and iy <= ro["py"] < iy + rh:
                    n += 1
                    if (pos.x, pos.y, tx + ro["px"] - ix, ty + ro["py"] - iy) != (ro["gx"] // 256, ro["gy"] // 256, ro["gx"] % 256, ro["gy"] % 256):
                        return False
            return n == 1

        if self.witness:
            rng = o["rngs"][0]
            w.claim("witness-tile-enumerated", z3.And(*rng.membership) if rng.membership else z3.BoolVal(False),
                    probe=lambda ro, val: real_cover_ok(ro), what="the tile holding an image pixel is not enumerated: the pixel is lost")
            lst = o["outs"][0]
            w.claim("witness-yields-one", len(lst) == 1, probe=lambda ro, val: real_cover_ok(ro))
            if len(lst) == 1:
                tup = lst[0]
                pos, rw, rh, ix, iy, tx, ty = tup
                w.claim("pos-level", pos.n == lev, probe=lambda ro, val: real_rects_ok(ro))
                w.claim("rect-wellformed", rect_ok(tup), probe=lambda ro, val: real_rects_ok(ro), what="per-tile rectangle outside its tile / the image, or inconsistent offsets")
                px, py = I(o["px"]), I(o["py"])
                inside = z3.And(I(ix) <= px, px < I(ix) + I(rw), I(iy) <= py, py < I(iy) + I(rh))
                w.claim("pixel-covered-by-its-tile", inside, probe=lambda ro, val: real_cover_ok(ro), what="an image pixel is not covered by the rectangle of the tile that should hold it")
                slot = z3.And(I(tx) + px - I(ix) == I(o["gx"]) % 256, I(ty) + py - I(iy) == I(o["gy"]) % 256,
                              I(pos.x) == I(o["gx"]) / 256, I(pos.y) == I(o["gy"]) / 256)
                w.claim("pixel-slot", slot, probe=lambda ro, val: real_cover_ok(ro))
        else:
            la, lb = o["outs"]
            if len(la) == 1:
                w.claim("rect-wellformed", rect_ok(la[0]), probe=lambda ro, val: real_rects_ok(ro), what="per-tile rectangle outside its tile / the image, or inconsistent offsets")
                w.claim("pos-level", la[0][0].n == lev, probe=lambda ro, val: real_rects_ok(ro))
            if len(la) == 1 and len(lb) == 1:
                (p1, w1, h1, x1, y1, _a, _b), (p2, w2, h2, x2, y2, _c, _d) = la[0], lb[0]
                distinct = z3.Or(I(p1.x) != I(p2.x), I(p1.y) != I(p2.y))
                disjoint = z3.Or(I(x1) + I(w1) <= I(x2), I(x2) + I(w2) <= I(x1), I(y1) + I(h1) <= I(y2), I(y2) + I(h2) <= I(y1))
                w.claim("distinct-tiles-disjoint-rects", z3.Implies(distinct, disjoint), probe=lambda ro, val: _real_disjoint(ro),
                        what="two tiles claim the same image pixel")
            # count = number of index pairs the generator ranges over
            used = o["rngs"][0].used
            if len(used) == 2:
                n_y = I(used[0][2]) - I(used[0][1])
                n_x = I(used[1][2]) - I(used[1][1])
                w.claim_eq("count-equals-enumeration", o["cnt"], SymInt(n_y * n_x), probe=lambda ro, val: ro["cnt"] == len(ro["allp"]) and ro["cnt"],
                           what="count_populated_positions differs from the number of generated positions")


class _Renamed(SymRange):
    """A SymRange whose arbitrary indices get a name suffix (second independent draw)."""

    def __init__(self, base, suffix):
        SymRange.__init__(self)
        self.suffix = suffix

    def __call__(self, a, b=None, step=None):
        r = SymRange.__call__(self, a, b, step)
        if isinstance(r, symx._OneShot):
            r.__class__ = _OneShotB
        return r


class _OneShotB(symx._OneShot):
    def __iter__(self):
        fac = self.fac
        k = len(fac.used)
        idx = SymInt(z3.Int("rng%d%s" % (k, fac.suffix)))
        fac.used.append((k, self.a, self.b, idx))
        if not symx.ctx().branch(z3.And(I(self.a) <= I(idx), I(idx) < I(self.b))):
            raise symx.PathAbort()
        yield idx


def _real_disjoint(ro):
    rects = [(ix, iy, rw, rh) for pos, rw, rh, ix, iy, tx, ty in ro["allp"]]
    if len(rects) > 400:
        rects = rects[:400]
    for i in range(len(rects)):
        for j in range(i + 1, len(rects)):
            a, b = rects[i], rects[j]
            if not (a[0] + a[2] <= b[0] or b[0] + b[2] <= a[0] or a[1] + a[3] <= b[1] or b[1] + b[3] <= a[1]):
                return False
    return True


class TileImage(e2.Case):
    """tile_image writes, for an arbitrary populated tile, the image pixels at their display slots and undefined
    values everywhere else (both tile parities, sub-images too)."""

    def __init__(self, tier, mode, fmt, sub, imgfmt=None):
        # imgfmt: the default format carried by the INPUT image when it differs from the pyramid's (the tiles must
        # still be stored in the pyramid's format, which is what the data-set description records)
        self.tier, self.mode, self.fmt, self.sub, self.imgfmt = tier, mode, fmt, sub, imgfmt
        self.name = "tile-image-%s-%s%s%s" % (mode, fmt, "-sub" if sub else "", ("-from-%s-image" % imgfmt) if imgfmt else "")
        self.max_paths = 6000
        self.budget_s = 230
        self.conform_paths = 2

    def run(self, w):
        dt, ch = COMBOS[(self.mode, self.fmt)]
        W, H, subr = sizes(w, self.tier, self.sub)
        lo = 0 if self.mode == "I16" else None
        fs = symfs.SymFS()
        rng = SymRange() if w.symbolic else None
        with study_patches(w, rng), w.patched(ti), fs.installed(w):
            t = StudyTiling(W, H)
            iw, ih = W, H
            if subr:
                t.count_populated_positions()        # the parent has been queried before (history on the parent object)
                t = t.compute_for_subimage(*subr)
                iw, ih = subr[2], subr[3]
            arr = w.array("img", (ih, iw) + ((ch,) if ch else ()), dt, lo=lo)
            image = Image.from_array(arr, default_format=self.imgfmt or (self.fmt if self.fmt in ("fits", "npy") else None))
            pio = PyramidIO("/s", default_format=self.fmt)
            t.tile_image(image, pio)
            if w.symbolic:
                used = rng.used
                if len(used) != 2:
                    raise symx.PathAbort()
                ity, itx = used[0][3], used[1][3]
            else:
                ity, itx = w.int("rng0"), w.int("rng1")
            path = pio.tile_path(Pos(t._tile_levels, itx, ity), makedirs=False) if not w.symbolic else None
            if w.symbolic:
                saves = [p for (k, p) in fs.log if k == "save"]
                unl = [p for (k, p) in fs.log if k == "unlink"]
                stored = fs.files[saves[0]]["arr"] if saves else None
                npaths = (saves, unl)
                exp_path = "/s/%d/" % t._tile_levels
            else:
                stored = fs.files.get(path, {}).get("arr") if path in fs.files else None
                npaths = None
                exp_path = None
        out = dict(t=t, arr=arr, stored=stored, itx=itx, ity=ity, npaths=npaths, fsfiles=None if w.symbolic else set(fs.files))
        if not w.symbolic:
            out["ref"] = _ref_tile(arr, t, itx, ity, self.mode, self.fmt)
            out["n_tiles"] = len(fs.files)
        return out

    def same_path(self, so, ro):
        return (so["stored"] is None) == (ro["stored"] is None)

    def claims(self, w, o):
        mode, fmt = self.mode, self.fmt
        dt, ch = COMBOS[(mode, fmt)]
        och = {"RGB": 4, "RGBA": 4, "F16x3": 3}.get(mode, 0)
        t, arr = o["t"], o["arr"]
        bu = fmt == "fits"
        r = w.int("r", 0, 255)
        c = w.int("c", 0, 255)
        idx = (r, c)
        chv = None
        if och:
            chv = w.int("ch", 0, och - 1)
            idx = (r, c, chv)
        w.pixel(*idx)
        w.pixel(r, c)
        R = (255 - I(r)) if bu else I(r)           # display row of the stored row r
        ggx = I(o["itx"]) * 256 + I(c) - I(t._img_gx0)
        ggy = I(o["ity"]) * 256 + R - I(t._img_gy0)
        inimg = z3.And(ggx >= 0, ggx < I(t._width), ggy >= 0, ggy < I(t._height))
        und = symnp.nan_elem() if mode in FLOATS else z3.IntVal(0)
        if mode == "RGB":
            inside = symnp.elem_ite(I(chv) == 3, z3.IntVal(255), arr.get((ggy, ggx, z3.If(I(chv) == 3, 0, I(chv)))))
        elif och:
            inside = arr.get((ggy, ggx, I(chv)))
        else:
            inside = arr.get((ggy, ggx))
        want = symnp.elem_ite(inimg, inside, und)
        saves, unl = o["npaths"]
        w.claim("one-tile-event", len(saves) + len(unl) == 1, probe=lambda ro, val: True)
        w.claim("stored-in-the-pyramid-format", all(str(p).endswith("." + fmt) for p in list(saves) + list(unl)),
                probe=lambda ro, val: all(str(p).endswith("." + fmt) for p in ro["fsfiles"]),
                what="study tiles must be written in the PyramidIO's default format (the recorded FileType / Url), whatever format the input image carries")
        if o["stored"] is not None:
            w.claim_eq("tile-pixel", o["stored"].get(idx), want, probe=("stored", idx), ref=("ref", idx),
                       what="study tile %s/%s: stored pixel != image pixel at its display slot / undefined outside the image" % (mode, fmt))
        else:
            # the tile was not stored: every image pixel falling into it must be undefined
            if mode in FLOATS:
                u = symnp.lift(want, True).nan
            elif mode == "RGBA":
                u = self_alpha_zero(arr, ggy, ggx, inimg)
            else:
                u = symnp.lift_int(want) == 0 if mode != "RGB" else z3.Not(inimg)
            w.claim("unstored-tile-has-no-defined-pixel", u, probe=lambda ro, val: ro["stored"] is not None or _all_undef(ro["ref"], mode),
                    what="study tile %s/%s not stored although it holds a defined image pixel" % (mode, fmt))


class ConcreteRange:
    """Replacement for `range` that concretises symbolic bounds (one path per value): the loop then runs in full."""

    def __call__(self, a, b=None, step=None):
        if b is None:
            a, b = 0, a
        c = symx.ctx()
        a2 = c.concretize_int(I(a)) if symx.is_sym(a) else a
        b2 = c.concretize_int(I(b)) if symx.is_sym(b) else b
        return range(a2, b2)


class FullLoop(e2.Case):
    """The WHOLE tile loop of tile_image is executed (no one-iteration summary) for small images: state carried from
    one iteration to the next (the reused buffer, any bookkeeping variable) is therefore in scope."""

    def __init__(self, mode, fmt, sub):
        self.mode, self.fmt, self.sub = mode, fmt, sub
        self.name = "full-loop-%s-%s%s" % (mode, fmt, "-sub" if sub else "")
        self.max_paths = 4000
        self.budget_s = 270
        self.conform_paths = 2

    def run(self, w):
        dt, ch = COMBOS[(self.mode, self.fmt)]
        top = 560
        W = w.int("W", 1, top)
        H = w.int("H", 1, top)
        subr = None
        if self.sub:
            sx, sy = w.int("sx", 0), w.int("sy", 0)
            sw, sh = w.int("sw", 1), w.int("sh", 1)
            w.assume(sx + sw <= W)
            w.assume(sy + sh <= H)
            subr = (sx, sy, sw, sh)
        fs = symfs.SymFS()
        saved_masked = Image.is_completely_masked
        if w.symbolic:
            # the image has no undefined pixel, so every populated tile holds a defined pixel (C15): not masked
            Image.is_completely_masked = lambda self_img: False
        try:
            with study_patches(w, ConcreteRange() if w.symbolic else None), w.patched(ti), fs.installed(w):
                t = StudyTiling(W, H)
                iw, ih = W, H
                if subr:
                    t = t.compute_for_subimage(*subr)
                    iw, ih = subr[2], subr[3]
                arr = w.array("img", (ih, iw) + ((ch,) if ch else ()), dt, nonan=True, lo=1 if dt != "float32" else None)
                image = Image.from_array(arr, default_format=self.fmt if self.fmt in ("fits", "npy") else None)
                pio = PyramidIO("/s", default_format=self.fmt)
                t.tile_image(image, pio)
                nt = 2 ** t._tile_levels
                tx = int(w.int("tx", 0, nt - 1))
                ty = int(w.int("ty", 0, nt - 1))
                path = pio.tile_path(Pos(t._tile_levels, tx, ty), makedirs=False)
                stored = fs.files[path]["arr"] if path in fs.files else None
        finally:
            Image.is_completely_masked = saved_masked
        out = dict(t=t, arr=arr, stored=stored, itx=tx, ity=ty, nfiles=len(fs.files))
        if not w.symbolic:
            out["ref"] = _ref_tile(arr, t, tx, ty, self.mode, self.fmt)
        return out

    def same_path(self, so, ro):
        return (so["stored"] is None) == (ro["stored"] is None)

    def claims(self, w, o):
        mode, fmt = self.mode, self.fmt
        och = {"RGB": 4, "RGBA": 4, "F16x3": 3}.get(mode, 0)
        t, arr = o["t"], o["arr"]
        bu = fmt == "fits"
        r = w.int("r", 0, 255)
        c = w.int("c", 0, 255)
        idx = (r, c)
        chv = None
        if och:
            chv = w.int("ch", 0, och - 1)
            idx = (r, c, chv)
        R = (255 - I(r)) if bu else I(r)
        ggx = o["itx"] * 256 + I(c) - I(t._img_gx0)
        ggy = o["ity"] * 256 + R - I(t._img_gy0)
        inimg = z3.And(ggx >= 0, ggx < I(t._width), ggy >= 0, ggy < I(t._height))
        und = symnp.nan_elem() if mode in FLOATS else z3.IntVal(0)
        if mode == "RGB":
            inside = symnp.elem_ite(I(chv) == 3, z3.IntVal(255), arr.get((ggy, ggx, z3.If(I(chv) == 3, 0, I(chv)))))
        elif och:
            inside = arr.get((ggy, ggx, I(chv)))
        else:
            inside = arr.get((ggy, ggx))
        want = symnp.elem_ite(inimg, inside, und)
        if o["stored"] is not None:
            w.claim_eq("tile-pixel", o["stored"].get(idx), want, probe=("stored", idx), ref=("ref", idx),
                       what="study tile %s/%s (whole loop executed): stored pixel != image pixel at its display slot / undefined outside the image" % (mode, fmt))
        else:
            w.claim("unwritten-tile-holds-no-image-pixel", z3.Not(inimg), probe=lambda ro, val: ro["stored"] is not None or _all_undef(ro["ref"], mode),
                    what="study tile %s/%s not written although an image pixel falls into it" % (mode, fmt))


def self_alpha_zero(arr, ggy, ggx, inimg):
    return z3.Or(z3.Not(inimg), arr.get((ggy, ggx, z3.IntVal(3))) == 0)


def _all_undef(ref, mode):
    if mode in FLOATS:
        return bool(_np.all(_np.isnan(ref)))
    if mode in ("RGB", "RGBA"):
        return bool(_np.all(ref[..., 3] == 0))
    return not _np.any(ref)


def _ref_tile(arr, t, itx, ity, mode, fmt):
    """numpy reference from the property text: paste the image into the padded square, cut tile (itx, ity)."""
    h, wd = arr.shape[:2]
    if mode in FLOATS:
        tile = _np.full((256, 256) + arr.shape[2:], _np.nan, dtype=arr.dtype)
    elif mode in ("RGB", "RGBA"):
        tile = _np.zeros((256, 256, 4), dtype=_np.uint8)
    else:
        tile = _np.zeros((256, 256), dtype=arr.dtype)
    gx0, gy0 = t._img_gx0, t._img_gy0
    for rr in range(256):
        gy = ity * 256 + rr - gy0
        if not (0 <= gy < h):
            continue
        x_lo = max(0, gx0 - itx * 256)
        x_hi = min(256, gx0 + wd - itx * 256)
        if x_hi <= x_lo:
            continue
        src = arr[gy, itx * 256 + x_lo - gx0: itx * 256 + x_hi - gx0]
        if mode == "RGB":
            tile[rr, x_lo:x_hi, :3] = src
            tile[rr, x_lo:x_hi, 3] = 255
        else:
            tile[rr, x_lo:x_hi] = src
    return tile[::-1] if fmt == "fits" else tile


SUMMARY_OK = True


def cases(tier):
    import toasty.study as _ts
    if symx.loop_carried_names(_ts.StudyTiling.generate_populated_positions) or symx.loop_carried_names(_ts.StudyTiling.tile_image):
        # one-iteration summaries would be unsound: geometry (no loop) and whole-loop cases only
        return [Geometry(tier, False), Geometry(tier, True), FullLoop("F32", "fits", False), FullLoop("RGB", "png", False), FullLoop("F32", "npy", True)]
    out = [Geometry(tier, False), Geometry(tier, True),
           Positions(tier, False, True), Positions(tier, False, False), Positions(tier, True, True), Positions(tier, True, False)]
    for (m, f) in COMBOS:
        out.append(TileImage(tier, m, f, False))
    out.append(TileImage(tier, "F32", "fits", True))
    out.append(TileImage(tier, "F32", "fits", False, imgfmt="npy"))
    out.append(TileImage(tier, "F32", "npy", False, imgfmt="fits"))
    out.append(TileImage(tier, "RGB", "png", True))
    out.append(FullLoop("F32", "fits", False))
    out.append(FullLoop("RGB", "png", False))
    out.append(FullLoop("F32", "npy", True))
    return out


def check(run):
    run.uses(tp.next_highest_power_of_2, ts.StudyTiling.__init__, ts.StudyTiling.compute_for_subimage, ts.StudyTiling.image_to_tile,
             ts.StudyTiling.count_populated_positions, ts.StudyTiling.generate_populated_positions, ts.StudyTiling.tile_image,
             ti.Image.fill_into_maskable_buffer, ti.ImageMode.make_maskable_buffer, tp.PyramidIO.write_image, tp.PyramidIO.tile_path,
             ti.Image.save, ti.Image.is_completely_masked)
    lc = {}
    for f in (ts.StudyTiling.generate_populated_positions, ts.StudyTiling.tile_image):
        lc.update({"%s:%d" % (f.__name__, k): v for k, v in symx.loop_carried_names(f).items()})
    global SUMMARY_OK
    SUMMARY_OK = not lc
    if lc:
        run.ob("loop-independence", "inconclusive", "AST", "tile loops carry local state between iterations (%r): the one-iteration summaries are unsound and skipped; only the whole-loop cases (images <= 560 px) decide" % lc)
    else:
        run.ob("loop-independence", "confirmed", "AST", "no local name is read before assignment in a later iteration of the tile loops (generate_populated_positions, tile_image)")
    run.bound(width_height="symbolic, 1 .. 2^%d each (next_highest_power_of_2 loop unrolled by the path explorer; larger sizes outside)" % MAXLOG[run.tier],
              subimage="symbolic offset and size inside the image", pixel="symbolic image pixel / tile slot / channel", tile="arbitrary populated tile (symbolic indices) or the witness tile of the pixel",
              modes_formats=", ".join("%s/%s" % k for k in COMBOS))
    run.assume("codecs = identity (in-memory tile store)", "floats = reals + NaN flag", "int/range/min/max/progress_bar inside toasty.study replaced by symbolic-aware equivalents",
               "tile loops summarised by one arbitrary iteration starting from an arbitrary (uninterpreted) buffer content; independence checked syntactically each run")
    run.outside("image sizes beyond 2^%d" % MAXLOG[run.tier], "codecs")
    e2.run_cases_parallel(run, __name__)
