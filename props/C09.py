"""C09 — tiling images on a common TAN grid equals tiling the assembled mosaic (E2: symx + symnp).

Real functions executed: MultiTanProcessor.compute_global_pixelization / tile / _tile_serial, multi_tan._mp_tile_worker
(fed by a scripted queue), StudyTiling.__init__ / compute_for_subimage / generate_populated_positions /
count_populated_positions / apply_to_imageset, ImageDescription.ensure_negative_parity, Image.get_parity_sign /
flip_parity / update_into_maskable_buffer, image._flip_wcs_parity, PyramidIO.update_image / read_image / write_image /
clean_lockfiles / tile_path — over the in-memory tile store.
Symbolic: the inputs' sizes and integer placement offsets on the common grid, their contents (NaN allowed), the
inspected tile (witness index in every input's tile loop) and the inspected pixel.
"""
from vlib.core import soft_attr as core_u
import numpy as _np
import z3

import toasty.image as ti
import toasty.multi_tan as tmt
import toasty.pyramid as tp
import toasty.study as ts
from toasty.image import Image, ImageDescription
from toasty.pyramid import Pos, PyramidIO
from vlib import e2, symfs, symnp, symx
from vlib.stubs import FakeEvent, FakeQueue, no_progress_bar
from vlib.symx import I, R, SymInt, SymRange
from props.C16 import FakeWCS, Hdr

MAXLOG = {"quick": 10, "thorough": 13}
SCALE = 0.001


def header(parity, cx, cy, h, cd=False):
    """Header of one input: top-down (parity -1) or bottom-up (+1) storage of the same sky placement.
    (cx, cy) = 1-based CRPIX of the TOP-DOWN description.  cd=True: CD-matrix form (which wcslib re-expresses as
    CDELT = 1, PC = CD for every input, flipped or not — the form in which inputs of DIFFERENT storage parity pass the
    real code's uniform-grid test)."""
    if cd:
        return Hdr(CTYPE1="RA---TAN", CTYPE2="DEC--TAN", CRVAL1=10.0, CRVAL2=20.0, CD1_1=-SCALE, CD1_2=0.0, CD2_1=0.0,
                   CD2_2=(-SCALE if parity == -1 else SCALE), CRPIX1=cx, CRPIX2=(cy if parity == -1 else h + 1 - cy))
    if parity == -1:
        return Hdr(CTYPE1="RA---TAN", CTYPE2="DEC--TAN", CRVAL1=10.0, CRVAL2=20.0, CDELT1=-SCALE, CDELT2=-SCALE,
                   PC1_1=1.0, PC2_2=1.0, CRPIX1=cx, CRPIX2=cy)
    return Hdr(CTYPE1="RA---TAN", CTYPE2="DEC--TAN", CRVAL1=10.0, CRVAL2=20.0, CDELT1=-SCALE, CDELT2=SCALE,
               PC1_1=1.0, PC2_2=1.0, CRPIX1=cx, CRPIX2=h + 1 - cy)


class Mosaic(e2.Case):
    def __init__(self, tier, k, fmt, parity, reverse, via_worker):
        self.tier, self.k, self.fmt, self.parity, self.reverse, self.via_worker = tier, k, fmt, parity, reverse, via_worker
        self.mixed = isinstance(parity, tuple)
        self.parities = tuple(parity) if self.mixed else (parity,) * k
        self.name = "mosaic-%dx-%s-%s%s%s" % (k, fmt, ("mixed-inputs[%s]" % ",".join("bu" if p == 1 else "td" for p in parity)) if self.mixed else ("bottomup-inputs" if parity == 1 else "topdown-inputs"),
                                               "-reversed" if reverse else "", "-worker" if via_worker else "")
        self.max_paths = 6000
        self.budget_s = 260
        self.conform_paths = 2

    def run(self, w):
        K = self.k
        top = 2 ** MAXLOG[self.tier]
        ws = [w.int("w%d" % k, 1, top) for k in range(K)]
        hs = [w.int("h%d" % k, 1, top) for k in range(K)]
        ox = [w.int("ox%d" % k, 0, top) for k in range(K)]
        oy = [w.int("oy%d" % k, 0, top) for k in range(K)]
        for k in range(K):
            w.assume(ox[k] + ws[k] <= top)
            w.assume(oy[k] + hs[k] <= top)
        if w.symbolic:
            w.prefer(z3.And(*[z3.And(I(ws[k]) <= 300, I(hs[k]) <= 300, I(ox[k]) <= 300, I(oy[k]) <= 300) for k in range(K)]))
        arrs = [w.array("in%d" % k, (hs[k], ws[k]), "float32") for k in range(K)]
        tx = w.int("tx", 0)
        ty = w.int("ty", 0)
        order = list(range(K))
        if self.reverse:
            order = order[::-1]
        parities, mixed = self.parities, self.mixed
        fs = symfs.SymFS()

        def mkwcs(k):
            # CRPIX (1-based, top-down description) such that top-down pixel (0, 0) sits at grid position (ox, oy)
            return FakeWCS(header(parities[k], 1 - ox[k], 1 - oy[k], hs[k], cd=mixed))

        class Coll:
            def descriptions(self_c):
                for k in order:
                    d = ImageDescription(mode=ti.ImageMode.F32, shape=(hs[k], ws[k]), wcs=mkwcs(k))
                    d.collection_id = "in%d" % k
                    yield d

            def images(self_c):
                for k in order:
                    im = Image.from_array(arrs[k], wcs=mkwcs(k), default_format="fits")
                    im.collection_id = "in%d" % k
                    yield im

        rec = {}

        class Imgset:
            pass

        class FakeBuilder:
            imgset = Imgset()

            def apply_wcs_info(self_b, wcs, width, height):
                rec["wcs"], rec["width"], rec["height"] = wcs, width, height

        class RecPio(PyramidIO):
            def clean_lockfiles(self_p, level):
                rec["clean_level"] = level
                return PyramidIO.clean_lockfiles(self_p, level)

        rng = SymRange({0: ty, 1: tx}, cycle=2) if w.symbolic else None
        saved = (tmt.WCS, tmt.progress_bar, ti.__dict__.get("WCS"))
        import astropy.wcs as awcs
        saved_awcs = awcs.WCS
        tmt.WCS = FakeWCS
        awcs.WCS = FakeWCS
        tmt.progress_bar = no_progress_bar
        try:
            with w.patched(ti), w.patched(tmt, names=("np", "int", "min", "max")), \
                    w.patched(ts, names=("np", "int", "range", "max", "min", "progress_bar"), extra={"range": rng, "progress_bar": no_progress_bar}), \
                    fs.installed(w):
                awcs.WCS = FakeWCS      # (symfs installs its own header recorder; the parity code needs the CD->PC model)
                proc = tmt.MultiTanProcessor(Coll())
                proc.compute_global_pixelization(FakeBuilder())
                tiling = proc._tiling
                pio = RecPio("/m", default_format=self.fmt)
                if self.via_worker:
                    q = FakeQueue()
                    q.script = list(zip(Coll().images(), proc._descs)) + [None]
                    ev = FakeEvent()
                    ev.set()
                    tmt._mp_tile_worker(q, ev, pio, {})
                    pio.clean_lockfiles(tiling._tile_levels)
                else:
                    proc.tile(pio, parallel=1)
                path = pio.tile_path(Pos(tiling._tile_levels, tx, ty), makedirs=False)
                f = fs.files.get(path)
        finally:
            tmt.WCS, tmt.progress_bar = saved[0], saved[1]
            awcs.WCS = saved_awcs
        hdr = rec["wcs"].to_header() if "wcs" in rec else {}
        out = dict(ws=ws, hs=hs, ox=ox, oy=oy, arrs=arrs, tx=tx, ty=ty, stored=None if f is None else f["arr"],
                   width=rec.get("width"), height=rec.get("height"), crpix1=hdr.get("CRPIX1"), crpix2=hdr.get("CRPIX2"),
                   cdelt1=hdr.get("CDELT1"), cdelt2=hdr.get("CDELT2"), ctype1=hdr.get("CTYPE1"), crval1=hdr.get("CRVAL1"),
                   levels=tiling._tile_levels, p2n=tiling._p2n, gx0=tiling._img_gx0, gy0=tiling._img_gy0,
                   imgset_levels=getattr(FakeBuilder.imgset, "tile_levels", None), clean_level=rec.get("clean_level"),
                   lock_log=list(fs.lock_log), locks_left=len(fs.locks), path=path,
                   lockfiles_left=[p for p in fs.files if p.endswith(".lock")])
        if not w.symbolic:
            out["ref"] = _ref_tile(out, self.fmt, self.parities)
        return out

    def same_path(self, so, ro):
        return (so["stored"] is None) == (ro["stored"] is None)

    def claims(self, w, o):
        K = self.k
        ws, hs, ox, oy, arrs = o["ws"], o["hs"], o["ox"], o["oy"], o["arrs"]
        minx = I(ox[0])
        miny = I(oy[0])
        maxx = I(ox[0]) + I(ws[0])
        maxy = I(oy[0]) + I(hs[0])
        for k in range(1, K):
            minx = z3.If(I(ox[k]) < minx, I(ox[k]), minx)
            miny = z3.If(I(oy[k]) < miny, I(oy[k]), miny)
            maxx = z3.If(I(ox[k]) + I(ws[k]) > maxx, I(ox[k]) + I(ws[k]), maxx)
            maxy = z3.If(I(oy[k]) + I(hs[k]) > maxy, I(oy[k]) + I(hs[k]), maxy)
        Wm, Hm = maxx - minx, maxy - miny
        w.claim_eq("mosaic-width", o["width"], SymInt(Wm), probe=("width", None), what="data-set width != width of the assembled mosaic")
        w.claim_eq("mosaic-height", o["height"], SymInt(Hm), probe=("height", None), what="data-set height != height of the assembled mosaic")
        # astrometry of the mosaic: same grid, reference pixel shifted to the mosaic's own pixel (0, 0)
        w.claim_eq("mosaic-crpix1", o["crpix1"], SymInt(1 - minx), probe=("crpix1", None), what="CRPIX1 handed to the builder is not that of the mosaic")
        w.claim_eq("mosaic-crpix2", o["crpix2"], SymInt(1 - miny), probe=("crpix2", None), what="CRPIX2 handed to the builder is not that of the mosaic")
        w.claim("mosaic-grid-headers", o["ctype1"] == "RA---TAN" and o["crval1"] == 10.0,
                probe=lambda ro, val: ro["ctype1"] == "RA---TAN" and ro["crval1"] == 10.0)
        p2n = o["p2n"]
        w.claim("levels", o["levels"] == p2n.bit_length() - 9 and o["imgset_levels"] == o["levels"] and o["clean_level"] == o["levels"],
                probe=lambda ro, val: ro["imgset_levels"] == ro["levels"] and ro["clean_level"] == ro["levels"],
                what="tile levels recorded in the image set / lock-file clean-up level differ from the tiling's depth")
        w.claim("p2n-is-mosaic-tiling", z3.And(p2n >= Wm, p2n >= Hm, z3.Or(p2n == 256, Wm > p2n // 2, Hm > p2n // 2),
                                             I(o["gx0"]) == (p2n - Wm) / 2, I(o["gy0"]) == (p2n - Hm) / 2),
                probe=lambda ro, val: True, what="global tiling is not the study tiling of the mosaic")
        w.claim("no-locks-left", o["locks_left"] == 0 and o["lockfiles_left"] == [] and _locks_ok(o),
                probe=lambda ro, val: ro["locks_left"] == 0 and ro["lockfiles_left"] == [], what="lock files remain / locks taken on another tile path")
        # pixel content of the inspected tile
        r = w.int("r", 0, 255)
        c = w.int("c", 0, 255)
        w.pixel(r, c)
        bu = self.fmt == "fits"
        Rr = (255 - I(r)) if bu else I(r)
        gx = I(o["tx"]) * 256 + I(c) - I(o["gx0"])            # mosaic pixel coordinates (top-down)
        gy = I(o["ty"]) * 256 + Rr - I(o["gy0"])
        want = symnp.nan_elem()
        covered_defined = []
        for k in range(K):
            px = gx - (I(ox[k]) - minx)
            py = gy - (I(oy[k]) - miny)
            inside = z3.And(px >= 0, px < I(ws[k]), py >= 0, py < I(hs[k]))
            srow = (I(hs[k]) - 1 - py) if self.parities[k] == 1 else py     # stored row of the input array
            e = arrs[k].get((srow, px))
            d = z3.And(inside, z3.Not(e.nan))
            covered_defined.append((d, e))
        # overlapping inputs agree where both are defined (hypothesis of the order-independence claim)
        for a in range(K):
            for b in range(a + 1, K):
                w.assume(z3.Implies(z3.And(covered_defined[a][0], covered_defined[b][0]), covered_defined[a][1].val == covered_defined[b][1].val))
        for d, e in reversed(covered_defined):
            want = symnp.elem_ite(d, e, want)
        if o["stored"] is not None:
            w.claim_eq("tile-pixel", o["stored"].get((r, c)), want, probe=("stored", (r, c)), ref=("ref", (r, c)),
                       what="%s: deepest-level tile pixel != pixel of the assembled mosaic tiled as a study" % self.name)
        else:
            w.claim("unstored-tile-undefined", symnp.lift(want, True).nan,
                    probe=lambda ro, val: ro["stored"] is not None or bool(_np.isnan(ro["ref"][int(val(r)), int(val(c))])),
                    what="%s: tile missing although the mosaic has a defined pixel in it" % self.name)


def _locks_ok(o):
    want = o["path"] + ".lock"
    log = o["lock_log"]
    if len(log) % 2:
        return False
    for i in range(0, len(log), 2):
        if log[i] != ("acquire", want) or log[i + 1] != ("release", want):
            return False
    return True


def _ref_tile(o, fmt, parities):
    """numpy reference from the property text: paste the (top-down) inputs into one mosaic, tile it as a study."""
    K = len(o["ws"])
    minx, miny = min(o["ox"]), min(o["oy"])
    Wm = max(o["ox"][k] + o["ws"][k] for k in range(K)) - minx
    Hm = max(o["oy"][k] + o["hs"][k] for k in range(K)) - miny
    M = _np.full((Hm, Wm), _np.nan, dtype=_np.float32)
    for k in range(K):
        td = o["arrs"][k][::-1] if parities[k] == 1 else o["arrs"][k]
        y0, x0 = o["oy"][k] - miny, o["ox"][k] - minx
        sub = M[y0:y0 + td.shape[0], x0:x0 + td.shape[1]]
        _np.putmask(sub, ~_np.isnan(td), td)
    p2n = 256
    while p2n < max(Wm, Hm):
        p2n *= 2
    gx0, gy0 = (p2n - Wm) // 2, (p2n - Hm) // 2
    tile = _np.full((256, 256), _np.nan, dtype=_np.float32)
    tx, ty = o["tx"], o["ty"]
    for rr in range(256):
        gy = ty * 256 + rr - gy0
        if not (0 <= gy < Hm):
            continue
        lo = max(0, gx0 - tx * 256)
        hi = min(256, gx0 + Wm - tx * 256)
        if hi > lo:
            tile[rr, lo:hi] = M[gy, tx * 256 + lo - gx0: tx * 256 + hi - gx0]
    return tile[::-1] if fmt == "fits" else tile


def cases(tier):
    out = [Mosaic(tier, 2, "fits", 1, False, False), Mosaic(tier, 2, "fits", 1, True, False), Mosaic(tier, 2, "fits", -1, False, False),
           Mosaic(tier, 2, "npy", 1, False, False), Mosaic(tier, 2, "npy", -1, True, False), Mosaic(tier, 2, "fits", 1, False, True),
           Mosaic(tier, 1, "fits", 1, False, False),
           # inputs of different storage parity on one grid (CD-matrix headers): each input must be brought to top-down on its own
           Mosaic(tier, 2, "fits", (1, -1), False, False), Mosaic(tier, 2, "npy", (-1, 1), False, False)]
    if tier == "thorough":
        out += [Mosaic(tier, 3, "fits", 1, False, False), Mosaic(tier, 3, "fits", -1, True, False), Mosaic(tier, 3, "npy", 1, False, True)]
    return out


def check(run):
    run.uses(tmt.MultiTanProcessor.compute_global_pixelization, tmt.MultiTanProcessor.tile, core_u(tmt.MultiTanProcessor, "_tile_serial"), core_u(tmt, "_mp_tile_worker"),
             ts.StudyTiling.__init__, ts.StudyTiling.compute_for_subimage, ts.StudyTiling.generate_populated_positions,
             ts.StudyTiling.count_populated_positions, ts.StudyTiling.apply_to_imageset, ti.ImageDescription.ensure_negative_parity,
             ti.Image.flip_parity, ti.Image.get_parity_sign, core_u(ti, "_flip_wcs_parity"), ti.Image.update_into_maskable_buffer,
             tp.PyramidIO.update_image, tp.PyramidIO.read_image, tp.PyramidIO.write_image, tp.PyramidIO.clean_lockfiles)
    lc = symx.loop_carried_names(tmt.MultiTanProcessor._tile_serial)
    # the outer loop over inputs is executed in full; only the inner tile loop is summarised
    run.bound(inputs="%s inputs" % ("2 (and 1)" if run.tier == "quick" else "up to 3"), sizes="symbolic widths/heights and integer grid offsets, mosaic up to 2^%d pixels per side" % MAXLOG[run.tier],
              tile="the inspected tile is a symbolic position; it is the witness index in every input's tile loop", pixel="symbolic (r, c)",
              parities="all inputs bottom-up, all top-down, or mixed (one of each, CD-matrix headers); fits (bottom-up) and npy (top-down) tiles", orders="given and reversed input order", worker="serial body and the worker function's body")
    run.assume("integer pixel offsets between the inputs (fractional CRPIX differences go through floor/ceil and are outside the claim)",
               "overlapping inputs agree where both are defined (hypothesis of order independence)",
               "astropy WCS <-> header modelled by the stand-in validated in C16 (CD headers come back as CDELT=1, PC=CD)",
               "inputs of mixed storage parity are claimed for CD-matrix headers; with CDELT/PC headers a flipped input's header comes back in another form and the real code rejects the set with a 'not on uniform WCS grid' exception (visible failure)",
               "wwt_data_formats.ImageSet.set_position_from_wcs (external package) is not executed: the header/width/height handed to it are checked",
               "codecs = identity; SoftFileLock replaced by an in-memory stand-in; cross-process contention is C10's subject")
    run.outside("fractional offsets", "set_position_from_wcs internals", "parallel interleavings (C03/C10)")
    e2.run_cases_parallel(run, __name__)
