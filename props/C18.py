"""C18 — publishing is crash-safe (E1: CrossHair on the real publish()/LocalPipelineIo/refresh_impl, symbolic crash point)."""
from vlib.core import soft_attr as core_u
import os

import toasty.pipeline as tpl
import toasty.pipeline.cli as tcli
import toasty.pipeline.local_io as tlio
from vlib import chx

HARNESS = os.path.join(os.path.dirname(__file__), "chx_C18.py")
QUICK = ([("chk_publish_crash_n%d" % n, 150) for n in (1, 2, 3, 4)] + [("chk_publish_index_last", 90), ("chk_publish_lookalike_names", 400),
         ("chk_publish_two_images_2_2", 150), ("chk_refresh_skip_rule", 40)])
THOROUGH = QUICK + [("chk_publish_crash_n%d" % n, 1200) for n in (5, 6, 7)] + [
    ("chk_publish_two_images_3_2", 900), ("chk_publish_two_images_2_3", 900), ("chk_publish_two_images_3_3", 1200)]


def check(run):
    run.uses(tpl.PipelineManager.publish, tlio.LocalPipelineIo.put_item, tlio.LocalPipelineIo.check_exists,
             core_u(tlio.LocalPipelineIo, "_make_item_name"), tcli.refresh_impl)
    run.bound(files="<= 4 per image (quick), <= 7 (thorough); index.wtml at any listing position or absent",
              crash="before or in the middle of any single transfer (symbolic transfer number), or none",
              runs="a crashed run followed by a re-run with an arbitrary new listing order", images="<= 2 approved images, <= 3 files each")
    run.assume("os / open / shutil inside toasty.pipeline and toasty.pipeline.local_io replaced by an in-memory file system",
               "a crash in the middle of a transfer leaves that one file partial (open(...,'wb') truncates, copy incomplete); other store entries are unaffected",
               "print replaced by a no-op")
    run.outside("AzurePipelineIo (network back end) is not executed; only the local store's put_item/check_exists",
                "file names other than index.wtml are interchangeable (f0.png ...), except one look-alike (index_rel.wtml / Index.wtml.bak) at a symbolic position")
    run.composition.append("crash-safety across runs: one run from any post-crash state re-transfers every file of the still-approved image (Appendix A-9); machine-checked for one crash + one re-run")
    chx.run_conditions(run, HARNESS, THOROUGH if run.tier == "thorough" else QUICK)
