"""The four producer/worker stages of toasty (leaf visits, transforms, multi-TAN tiling, multi-WCS tiling), described
once for C03 (exactly-once hand-off and termination) and C19 (errors are not swallowed).

Each Stage knows how to run the REAL entry point with a given number of items and workers and an instrumented
per-item action, and how to call the REAL worker function for the reaction-table probe.
"""
import types

import toasty.multi_tan as tmt
import toasty.multi_wcs as tmw
import toasty.pyramid as tp
import toasty.transform as ttr
from toasty.pyramid import Pos, Pyramid
from vlib.stubs import no_progress_bar

for _m in (tp, ttr, tmt, tmw):
    _m.progress_bar = no_progress_bar
tp.print = lambda *a, **k: None


class Stage:
    name = "?"
    item_counts = {"quick": [2], "thorough": [2, 4]}
    extract_count = None         # a larger item count for extraction-only obligations (no BMC): many messages
    entry = None
    worker = None

    def run_entry(self, n_items, n_workers, on_item):
        raise NotImplementedError

    def call_worker(self, inq, ev, on_cb, outq):
        """The real worker, started with the arguments the real entry point gives it (extracted), its queue / shutdown
        event replaced by the probe's; the per-item action is the same hook run_entry / run_serial use (on_cb(key))."""
        from vlib import mpmodel
        n = self.item_counts["quick"][0]
        return mpmodel.call_worker_as_entry_does(lambda: self.run_entry(n, 2, on_cb), inq, ev, outq)

    def item_key(self, item):
        return item

    make_item = None
    serial_items = None


class VisitLeaves(Stage):
    name = "visit_leaves"
    item_counts = {"quick": [2], "thorough": [2, 4]}
    extract_count = 13
    entry = tp.Pyramid._visit_leaves_parallel
    worker = tp._mp_visit_worker

    def _pyramid(self, n_items):
        if n_items == 4:
            return Pyramid.new_generic(1)
        if n_items > 4:
            # n_items leaves at level 2 (for the back-pressure obligation: more items than the bounded queue holds)
            leaves = [Pos(2, x, y) for y in range(4) for x in range(4)][:n_items]
            keep = set(leaves) | {Pos(1, p.x // 2, p.y // 2) for p in leaves}
            if n_items == self.extract_count:
                # a HISTORY on the Pyramid object: counted and visited at a shallower depth first, then deepened by the user
                p = Pyramid.new_toast_filtered(1, lambda t: t.pos in keep)
                p.count_leaf_tiles(), p.count_live_tiles(), p.count_operations()
                p.visit_leaves(lambda pos, tile: None, parallel=1)
                p.depth = 2
                return p
            return Pyramid.new_toast_filtered(2, lambda t: t.pos in keep)
        keep = {Pos(1, 0, 0), Pos(1, 1, 1), Pos(1, 1, 0)}
        keep = set(list(sorted(keep))[:n_items]) if n_items < 3 else keep
        return Pyramid.new_toast_filtered(1, lambda t: t.pos in keep)

    def run_entry(self, n_items, n_workers, on_item):
        self._pyramid(n_items).visit_leaves(lambda pos, tile: on_item(pos), parallel=n_workers)

    def run_serial(self, n_items, on_item):
        self._pyramid(n_items).visit_leaves(lambda pos, tile: on_item(pos), parallel=1)

    def message_key(self, msg):
        return msg[0]


class Transform(Stage):
    name = "transform"
    item_counts = {"quick": [1], "thorough": [1, 5]}
    extract_count = 85
    entry = ttr._transform_parallel
    worker = ttr._transform_mp_worker

    def run_entry(self, n_items, n_workers, on_item):
        depth = {1: 0, 5: 1, 21: 2, 85: 3}[n_items]
        ttr._do_a_transform("PIO", depth, lambda: "BUF", lambda buf, pos, pin, pout: on_item(pos), parallel=n_workers)

    def run_serial(self, n_items, on_item):
        depth = {1: 0, 5: 1, 21: 2, 85: 3}[n_items]
        ttr._do_a_transform("PIO", depth, lambda: "BUF", lambda buf, pos, pin, pout: on_item(pos), parallel=1)

    def message_key(self, msg):
        return msg


class _FakeImage:
    def __init__(self, k, hook):
        self.k, self.hook = k, hook
        self.height = 4
        self.mode = "MODE"
        self.wcs = "WCS"

    def get_parity_sign(self):
        self.hook(self.k)
        return -1

    def asarray(self):
        self.hook(self.k)
        return "ARRAY"


class _FakeDesc:
    def __init__(self):
        self.sub_tiling = types.SimpleNamespace(generate_populated_positions=lambda: [], count_populated_positions=lambda: 0)
        self.chunks = []
        self.imin = self.imax = 0


class _FakePio:
    def get_default_vertical_parity_sign(self):
        return -1

    def clean_lockfiles(self, level):
        pass


class MultiTan(Stage):
    name = "multi_tan"
    extract_count = 9
    entry = tmt.MultiTanProcessor._tile_parallel
    worker = tmt._mp_tile_worker

    def _proc(self, n_items, on_item):
        images = [_FakeImage(k, on_item) for k in range(n_items)]
        coll = types.SimpleNamespace(images=lambda: iter(images))
        proc = tmt.MultiTanProcessor(coll)
        proc._descs = [_FakeDesc() for _ in range(n_items)]
        proc._tiling = types.SimpleNamespace(_tile_levels=0)
        proc._n_todo = n_items
        return proc

    def run_entry(self, n_items, n_workers, on_item):
        self._proc(n_items, on_item).tile(_FakePio(), parallel=n_workers)

    def run_serial(self, n_items, on_item):
        self._proc(n_items, on_item).tile(_FakePio(), parallel=1)

    def item_key(self, item):
        return item[0].k if isinstance(item, tuple) else item

    message_key = item_key

    @staticmethod
    def make_item(k, hook):
        return (_FakeImage(k, lambda kk: hook()), _FakeDesc())


class MultiWcs(Stage):
    name = "multi_wcs"
    extract_count = 9
    entry = tmw.MultiWcsProcessor._tile_parallel
    worker = tmw._mp_tile_worker

    def _proc(self, n_items, on_item):
        images = [_FakeImage(k, on_item) for k in range(n_items)]
        coll = types.SimpleNamespace(images=lambda: iter(images))
        proc = tmw.MultiWcsProcessor(coll)
        proc._descs = [_FakeDesc() for _ in range(n_items)]
        proc._combined_wcs = "CWCS"
        proc._combined_shape = (4, 4)
        proc._n_todo = n_items
        proc._tiling = types.SimpleNamespace(_tile_levels=0)
        return proc

    def run_entry(self, n_items, n_workers, on_item):
        self._proc(n_items, on_item).tile(_FakePio(), "REPROJECT", parallel=n_workers)

    def run_serial(self, n_items, on_item):
        self._proc(n_items, on_item).tile(_FakePio(), "REPROJECT", parallel=1)

    def item_key(self, item):
        return item[0].k if isinstance(item, tuple) else item

    message_key = item_key

    @staticmethod
    def make_item(k, hook):
        return (_FakeImage(k, lambda kk: hook()), _FakeDesc(), "CWCS")


STAGES = [VisitLeaves(), Transform(), MultiTan(), MultiWcs()]
