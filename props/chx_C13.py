"""CrossHair conditions for C13 (quadtree enumeration and counts) and the serial half of C01.

Every condition calls toasty's real functions; recursion / the reducer are cut inductively by replacing the
module-global recursive name (or Pyramid._make_iter_reducer) with a stub standing for the inductive hypothesis.
"""
from typing import List

import toasty.pyramid as tp
import toasty.toast as tt
from toasty.pyramid import (Pos, Pyramid, PyramidReductionIterator, depth2tiles, generate_pos, is_subtile,
                            pos_children, pos_parent, tiles_at_depth)
from toasty.toast import Tile, ToastCoordinateSystem
from vlib.stubs import FakeRiter, quiet

quiet(tp, tt)

_orig_pp = tp._postfix_pos
_orig_pc = tt._postfix_corner
_orig_is_subtile = tp.is_subtile


# ------------------------------------------------------------------ 1. position algebra

def chk_parent_child(n: int, x: int, y: int) -> bool:
    """
    pre: 0 <= n
    pre: 0 <= x
    pre: 0 <= y
    post: _
    """
    p = Pos(n, x, y)
    kids = pos_children(p)
    ok = len(kids) == 4 and isinstance(kids, list)
    for i, c in enumerate(kids):
        pp, ix, iy = pos_parent(c)
        ok = ok and pp == p and ix == i % 2 and iy == i // 2 and c.n == n + 1
        ok = ok and c.x == 2 * x + i % 2 and c.y == 2 * y + i // 2
    ok = ok and kids[0] != kids[1] and kids[0] != kids[2] and kids[0] != kids[3]
    ok = ok and kids[1] != kids[2] and kids[1] != kids[3] and kids[2] != kids[3]
    return ok


def chk_parent_inverse(n: int, x: int, y: int) -> bool:
    """
    pre: 1 <= n
    pre: 0 <= x
    pre: 0 <= y
    post: _
    """
    p = Pos(n, x, y)
    pp, ix, iy = pos_parent(p)
    return (pos_children(pp)[2 * iy + ix] == p and pp.n == n - 1 and 0 <= ix <= 1 and 0 <= iy <= 1
            and pp.x * 2 + ix == x and pp.y * 2 + iy == y)


def chk_parent_root_rejected(x: int, y: int, n: int) -> bool:
    """
    pre: n <= 0
    post: _
    """
    try:
        pos_parent(Pos(n, x, y))
    except ValueError:
        return True
    return False


def chk_subtile_closed_form(n: int, x: int, y: int, m: int, u: int, v: int) -> bool:
    """
    pre: 0 <= m <= n <= 5
    pre: 0 <= x < 2**n and 0 <= y < 2**n
    pre: 0 <= u < 2**m and 0 <= v < 2**m
    post: _
    """
    return is_subtile(Pos(n, x, y), Pos(m, u, v)) == ((x >> (n - m)) == u and (y >> (n - m)) == v)


def chk_subtile_step(n: int, x: int, y: int, m: int, u: int, v: int) -> bool:
    """
    One level of the real recursion with the recursive call standing for its hypothesis.

    pre: 0 <= m and 0 <= n
    pre: 0 <= x and 0 <= y and 0 <= u and 0 <= v
    post: _
    """
    calls = []

    def stub(d, s):
        calls.append((d, s))
        return ("HYP", d, s)

    tp.is_subtile = stub
    try:
        try:
            r = _orig_is_subtile(Pos(n, x, y), Pos(m, u, v))
        except ValueError:
            return n < m and calls == []
    finally:
        tp.is_subtile = _orig_is_subtile
    if n < m:
        return False
    if n == m:
        return r == (x == u and y == v) and calls == []
    return r == ("HYP", Pos(n - 1, x // 2, y // 2), Pos(m, u, v)) and len(calls) == 1


# ------------------------------------------------------------------ 2. generators, one level

def chk_postfix_pos_level(n: int, x: int, y: int, depth: int) -> bool:
    """
    pre: 0 <= n <= 30 and 0 <= depth <= 31
    pre: 0 <= x < 4 and 0 <= y < 4
    post: _
    """
    pos = Pos(n, x, y)

    def stub(p, d):
        yield ("SUB", p, d)

    tp._postfix_pos = stub
    try:
        out = list(_orig_pp(pos, depth))
    finally:
        tp._postfix_pos = _orig_pp
    if n > depth:
        return out == []
    kids = pos_children(pos)
    return out == [("SUB", k, depth) for k in kids] + [pos]


def chk_generate_pos_root(depth: int) -> bool:
    """
    pre: 0 <= depth <= 3
    post: _
    """
    seen = []

    def stub(p, d):
        seen.append((p, d))
        yield "ALL"

    tp._postfix_pos = stub
    try:
        out = list(generate_pos(depth))
    finally:
        tp._postfix_pos = _orig_pp
    return seen == [(Pos(0, 0, 0), depth)] and out == ["ALL"]


def chk_postfix_corner_level(n: int, x: int, y: int, depth: int, accept: bool, bottom_only: bool, inc: bool) -> bool:
    """
    pre: 1 <= n <= 30 and 0 <= depth <= 31
    pre: 0 <= x < 4 and 0 <= y < 4
    post: _
    """
    corners = ((0.1, 0.2), (0.3, 0.2), (0.3, 0.0), (0.1, 0.0))
    tile = Tile(Pos(n, x, y), corners, inc)
    calls = []

    def filt(t):
        calls.append(t)
        return accept

    def stub(t, d, f, b):
        yield ("SUB", t.pos, d, f is filt, b, t.increasing)

    tt._postfix_corner = stub
    try:
        out = list(_orig_pc(tile, depth, filt, bottom_only))
    finally:
        tt._postfix_corner = _orig_pc
    if n > depth:
        return out == [] and calls == []
    if n > 1:
        if len(calls) != 1 or calls[0] is not tile:
            return False
        if not accept:
            return out == []
    else:
        if calls != []:
            return False
    kids = pos_children(Pos(n, x, y))
    want = [("SUB", k, depth, True, bottom_only, inc) for k in kids]
    if n == depth or not bottom_only:
        want.append(tile)
    return out == want


def chk_generate_tiles_filtered_top(depth: int, m1: int, bottom_only: bool, planetary: bool) -> bool:
    """
    The level-1 loop: filter called once per level-1 tile in the order (0,0),(1,0),(0,1),(1,1); recursion entered
    exactly for the accepted ones.

    pre: 0 <= depth <= 5
    pre: 0 <= m1 < 16
    post: _
    """
    calls = []

    def filt(t):
        calls.append(t.pos)
        return ((m1 >> (t.pos.y * 2 + t.pos.x)) & 1) == 1

    def stub(t, d, f, b):
        yield ("SUB", t.pos, d, f is filt, b)

    tt._postfix_corner = stub
    cs = ToastCoordinateSystem.PLANETARY if planetary else ToastCoordinateSystem.ASTRONOMICAL
    try:
        out = list(tt.generate_tiles_filtered(depth, filt, bottom_only, coordsys=cs))
    finally:
        tt._postfix_corner = _orig_pc
    l1 = [Pos(1, 0, 0), Pos(1, 1, 0), Pos(1, 0, 1), Pos(1, 1, 1)]
    want = [("SUB", p, depth, True, bottom_only) for p in l1 if ((m1 >> (p.y * 2 + p.x)) & 1) == 1]
    return calls == l1 and out == want


# ------------------------------------------------------------------ 3. sub-pyramid

def _ancestors(apex):
    out = []
    p = apex
    while p.n > 0:
        p = pos_parent(p)[0]
        out.append(p)
    return out


def chk_subpyramid_generic(an: int, ax: int, ay: int, depth: int) -> bool:
    """
    pre: 0 <= an <= 2 and an <= depth <= 3
    pre: 0 <= ax < 2**an and 0 <= ay < 2**an
    post: _
    """
    apex = Pos(an, ax, ay)
    p = Pyramid.new_generic(depth)
    if an > 0:
        p.subpyramid(apex)
    got = list(p._generator())
    full = list(generate_pos(depth))
    want = [(q, None) for q in full if q.n >= an and is_subtile(q, apex)]
    if an > 0:
        want += [(q, None) for q in _ancestors(apex)]
    else:
        want = [(q, None) for q in full]
    return got == want


def chk_position_filter(an: int, ax: int, ay: int, n: int, x: int, y: int) -> bool:
    """
    pre: 0 <= an <= 3 and 0 <= n <= 4
    pre: 0 <= ax < 2**an and 0 <= ay < 2**an
    pre: 0 <= x < 2**n and 0 <= y < 2**n
    post: _
    """
    apex = Pos(an, ax, ay)
    f = tp._make_position_filter(apex)
    pos = Pos(n, x, y)
    if n > an:
        return f(pos) is True      # documented laziness: everything deeper is accepted
    return f(pos) == is_subtile(apex, pos)


def _sub_toast(apex, depth, user):
    if user is not None:
        full = Pyramid.new_toast_filtered(depth, user)
        sub = Pyramid.new_toast_filtered(depth, user)
    else:
        full = Pyramid.new_toast(depth)
        sub = Pyramid.new_toast(depth)
    sub.subpyramid(apex)
    pairs = list(sub._generator())
    got = [q for q, _t in pairs]
    allp = [q for q, _t in full._generator()]
    an = apex.n
    below = [q for q in allp if q.n >= an and is_subtile(q, apex)]
    if user is not None and below == []:
        # filter disjoint from the sub-pyramid: only ancestors may appear
        return all(q.n < an for q in got)
    want = below + [q for q in allp if q.n < an and is_subtile(apex, q)]
    ok = all((t is None and q.n == 0) or (t is not None and t.pos == q) for q, t in pairs)
    return ok and got == want


def chk_subpyramid_toast(an: int, ax: int, ay: int, depth: int) -> bool:
    """
    TOAST sub-pyramid = the members of the full enumeration below the apex, then its ancestors.

    pre: 1 <= an <= 2 and an <= depth <= 3
    pre: 0 <= ax < 2**an and 0 <= ay < 2**an
    post: _
    """
    return _sub_toast(Pos(an, ax, ay), depth, None)


def _user_mask(um):
    def user(t):
        q = t.pos
        return True if q.n != 2 else ((um >> ((q.x % 2) + 2 * (q.y % 2))) & 1) == 1
    return user


def chk_subpyramid_toast_userfilter(an: int, ax: int, ay: int, depth: int, um: int) -> bool:
    """
    ... and composes with a user filter (symbolic mask over the level-2 tiles by index parity) by conjunction.
    Quick: the mask may reject the two upper children only.

    pre: 1 <= an <= 2 and an <= depth <= 2
    pre: 0 <= ax < 2**an and 0 <= ay < 2**an
    pre: 12 <= um < 16
    post: _
    """
    return _sub_toast(Pos(an, ax, ay), depth, _user_mask(um))


def chk_subpyramid_toast_userfilter_wide(an: int, ax: int, ay: int, depth: int, um: int) -> bool:
    """
    pre: 1 <= an <= 2 and an <= depth <= 2
    pre: 0 <= ax < 2**an and 0 <= ay < 2**an
    pre: 0 <= um < 16
    post: _
    """
    return _sub_toast(Pos(an, ax, ay), depth, _user_mask(um))


def _user_mask12(um1, um2):
    def user(t):
        q = t.pos
        if q.n == 1:
            return ((um1 >> (q.x + 2 * q.y)) & 1) == 1
        if q.n == 2:
            return ((um2 >> ((q.x % 2) + 2 * (q.y % 2))) & 1) == 1
        return True
    return user


def chk_subpyramid_toast_userfilter_ancestors(ax: int, ay: int, depth: int, um1: int) -> bool:
    """
    The user filter may reject tiles ABOVE the apex (symbolic mask over the four level-1 tiles): what the full pyramid
    prunes there is not in the full result, so it is not in the sub-pyramid's either.

    pre: depth == 2
    pre: 0 <= ax < 4 and 0 <= ay < 4
    pre: 0 <= um1 < 16
    post: _
    """
    return _sub_toast(Pos(2, ax, ay), depth, _user_mask12(um1, 15))


def chk_subpyramid_toast_userfilter_ancestors_wide(ax: int, ay: int, um1: int, um2: int) -> bool:
    """
    pre: 0 <= ax < 4 and 0 <= ay < 4
    pre: 0 <= um1 < 16 and 0 <= um2 < 16
    post: _
    """
    return _sub_toast(Pos(2, ax, ay), 3, _user_mask12(um1, um2))


# ------------------------------------------------------------------ 4. reducer step invariant

class _FakePyr:
    def __init__(self, depth, apex, seq):
        self.depth = depth
        self._apex = apex
        self._seq = seq

    def _generator(self):
        for p in self._seq:
            yield p, ("INFO", p)


def chk_reducer_step(k: int, px: int, py: int, slots: List[int], qkind: int, dx: int, dy: int, down: int, v: int) -> bool:
    """
    State S "just finished P at level k" (arbitrary slot contents), next generator item Q obeying the generator
    contract (parent of P, or first-descendant chain under a later sibling of P); one real __next__ + set_data.

    pre: 1 <= k <= 3
    pre: 0 <= px < 2**k and 0 <= py < 2**k
    pre: len(slots) == 4 * k
    pre: 0 <= qkind <= 1
    pre: 0 <= dx <= 1 and 0 <= dy <= 1 and 0 <= down <= 2
    post: _
    """
    depth = 6
    P = Pos(k, px, py)
    ppos, ix, iy = pos_parent(P)
    if qkind == 0:
        Q = ppos
    else:
        if 2 * dy + dx <= 2 * iy + ix:
            return True  # not a later sibling: outside the generator contract
        Q = Pos(k, ppos.x * 2 + dx, ppos.y * 2 + dy)
        for _ in range(down):
            Q = pos_children(Q)[0]
    r = PyramidReductionIterator(_FakePyr(depth, Pos(0, 0, 0), [Q]), default_value=-1)
    chain = []
    a = P
    while a.n > 0:
        a = pos_parent(a)[0]
        chain.append(a)
    chain = chain[::-1]
    r._levels = [[chain[j].x, chain[j].y] + list(slots[4 * j:4 * j + 4]) for j in range(k)]
    r._most_recent_pos = P
    r._got_data = True
    before = [list(e) for e in r._levels]
    pos, info, is_leaf, data = next(r)
    ok = pos == Q and is_leaf == (Q.n == depth) and info == ("INFO", Q)
    if qkind == 0:
        ok = ok and data == before[k - 1][2:] and len(r._levels) == k - 1
    else:
        ok = ok and data == [-1, -1, -1, -1] and len(r._levels) == Q.n
        ok = ok and r._levels[:k] == before
    r.set_data(v)
    if Q.n > 0:
        qp, qx, qy = pos_parent(Q)
        e = r._levels[qp.n]
        ok = ok and e[0] == qp.x and e[1] == qp.y and e[2 + 2 * qy + qx] == v
        for s in range(4):
            if s != 2 * qy + qx:
                want = before[qp.n][2 + s] if qp.n < k else -1
                ok = ok and e[2 + s] == want
        # all other entries untouched
        for j in range(min(qp.n, k)):
            ok = ok and r._levels[j] == before[j]
    else:
        ok = ok and r.result() == v
        try:
            next(r)
            ok = False
        except StopIteration:
            pass
    return ok


def chk_reducer_apex_stop(an: int, ax: int, ay: int, v: int, above: bool) -> bool:
    """
    After the apex the reduction stops with the value set; an item above the apex stops with the default.

    pre: 0 <= an <= 3
    pre: 0 <= ax < 2**an and 0 <= ay < 2**an
    post: _
    """
    apex = Pos(an, ax, ay)
    if above:
        if an == 0:
            return True
        seq = [pos_parent(apex)[0]]
        r = PyramidReductionIterator(_FakePyr(5, apex, seq), default_value=-7)
        items = list(r)
        return items == [] and r.result() == -7
    seq = [apex] + _ancestors(apex)
    r = PyramidReductionIterator(_FakePyr(5, apex, seq), default_value=-7)
    n = 0
    for pos, info, is_leaf, data in r:
        n += 1
        if pos != apex or data != [-7, -7, -7, -7]:
            return False
        r.set_data(v)
    return n == 1 and r.result() == v


def chk_reducer_public_sequence(m1: int, m2a: int, depth2: bool, v0: int, v1: int, v2: int, v3: int) -> bool:
    """
    Public-iterator cross-check of the step invariant (no private attribute used): arbitrary values set for the
    children arrive in the parent's child_data in slot order 2*iy+ix, defaults for children never yielded.

    pre: 0 <= m1 < 16 and 0 <= m2a < 16
    post: _
    """
    depth = 2 if depth2 else 1
    vals = [v0, v1, v2, v3]
    seq = []
    for i in range(4):
        if (m1 >> i) & 1:
            c = Pos(1, i % 2, i // 2)
            if depth2 and i == 0:
                for j in range(4):
                    if (m2a >> j) & 1:
                        seq.append(Pos(2, j % 2, j // 2))
            seq.append(c)
    seq.append(Pos(0, 0, 0))
    r = PyramidReductionIterator(_FakePyr(depth, Pos(0, 0, 0), seq), default_value=None)
    ok = True
    count = 0
    for pos, info, is_leaf, data in r:
        count += 1
        ok = ok and is_leaf == (pos.n == depth)
        if pos.n == 2:
            ok = ok and data == [None] * 4
            r.set_data(100 + 2 * pos.y + pos.x)
        elif pos.n == 1:
            if depth2 and pos == Pos(1, 0, 0):
                ok = ok and data == [(100 + j) if (m2a >> j) & 1 else None for j in range(4)]
            else:
                ok = ok and data == [None] * 4
            r.set_data(vals[2 * pos.y + pos.x])
        else:
            ok = ok and data == [vals[i] if (m1 >> i) & 1 else None for i in range(4)]
            r.set_data("ROOT")
    return ok and count == len(seq) and r.result() == "ROOT"


# ------------------------------------------------------------------ 5. combine steps (fake one-item reducer)

def _one_item_pyramid(pos, depth, is_leaf, data):
    p = Pyramid.new_toast_filtered(depth, lambda t: True)
    holder = []

    def mk(default_value=None):
        r = FakeRiter([(pos, None, is_leaf, data)])
        holder.append((r, default_value))
        return r

    p._make_iter_reducer = mk
    return p, holder


def chk_combine_leaf_and_live_counts(is_leaf: bool, a: int, b: int, c: int, d: int) -> bool:
    """
    pre: a >= 0 and b >= 0 and c >= 0 and d >= 0
    post: _
    """
    data = [a, b, c, d]
    p, h = _one_item_pyramid(Pos(3, 1, 2), 5, is_leaf, data)
    leaves = p.count_leaf_tiles()
    p2, h2 = _one_item_pyramid(Pos(3, 1, 2), 5, is_leaf, data)
    live = p2.count_live_tiles()
    s = a + b + c + d
    if is_leaf:
        return leaves == 1 and live == 1 and h[0][1] == 0 and h2[0][1] == 0
    return leaves == s and live == (s + 1 if s > 0 else 0) and h[0][1] == 0 and h2[0][1] == 0


def chk_combine_operations(is_leaf: bool, l0: bool, l1: bool, l2: bool, l3: bool, o0: int, o1: int, o2: int, o3: int) -> bool:
    """
    pre: o0 >= 0 and o1 >= 0 and o2 >= 0 and o3 >= 0
    post: _
    """
    data = [(l0, o0), (l1, o1), (l2, o2), (l3, o3)]
    p, h = _one_item_pyramid(Pos(3, 1, 2), 5, is_leaf, data)
    ops = p.count_operations()
    rec = h[0][0].data[-1]
    if is_leaf:
        return ops == 0 and rec == (True, 0) and h[0][1] == (False, 0)
    live = l0 or l1 or l2 or l3
    return rec == (live, o0 + o1 + o2 + o3 + (1 if live else 0)) and ops == rec[1] and h[0][1] == (False, 0)


def chk_invariant_preserved(is_leaf: bool, lv0: int, lv1: int, lv2: int, lv3: int, op0: int, op1: int, op2: int, op3: int) -> bool:
    """
    Hypothesis I(c): ops_c + leaves_c = live_c and (is_live_c <=> leaves_c > 0) and (leaves_c = 0 => ops_c = 0)
    for the four children  ==>  I(parent), using the three REAL counter bodies on the same child results.

    pre: lv0 >= 0 and lv1 >= 0 and lv2 >= 0 and lv3 >= 0
    pre: op0 >= 0 and op1 >= 0 and op2 >= 0 and op3 >= 0
    pre: (lv0 > 0 or op0 == 0) and (lv1 > 0 or op1 == 0) and (lv2 > 0 or op2 == 0) and (lv3 > 0 or op3 == 0)
    post: _
    """
    leaves_c = [lv0, lv1, lv2, lv3]
    ops_c = [op0, op1, op2, op3]
    live_c = [leaves_c[i] + ops_c[i] for i in range(4)]
    pos = Pos(2, 1, 1)
    p, h = _one_item_pyramid(pos, 4, is_leaf, leaves_c)
    leaves = p.count_leaf_tiles()
    p, h = _one_item_pyramid(pos, 4, is_leaf, live_c)
    live = p.count_live_tiles()
    p, h = _one_item_pyramid(pos, 4, is_leaf, [(leaves_c[i] > 0, ops_c[i]) for i in range(4)])
    ops = p.count_operations()
    is_live, ops2 = h[0][0].data[-1]
    return ops + leaves == live and is_live == (leaves > 0) and ops2 == ops and (leaves > 0 or ops == 0)


def chk_walk_serial_step(is_leaf: bool, l0: bool, l1: bool, l2: bool, l3: bool, total: int) -> bool:
    """
    One real loop iteration of _walk_serial: callback iff (not leaf and some child live); value handed upward.

    pre: 0 <= total <= 3
    post: _
    """
    pos = Pos(2, 3, 1)
    p = Pyramid.new_toast_filtered(4, lambda t: True)
    p.count_operations = lambda: total
    made = []

    def mk(default_value=None):
        r = FakeRiter([(pos, None, is_leaf, [l0, l1, l2, l3])])
        made.append((r, default_value))
        return r

    p._make_iter_reducer = mk
    seen = []
    p._walk_serial(seen.append, False)
    if total == 0:
        return seen == [] and made == []
    live = True if is_leaf else (l0 or l1 or l2 or l3)
    want = [pos] if (not is_leaf and live) else []
    return seen == want and made[0][0].data == [live] and made[0][1] is False


def chk_visit_leaves_serial_step(is_leaf: bool, total: int) -> bool:
    """
    pre: 0 <= total <= 3
    post: _
    """
    pos = Pos(2, 3, 1)
    tile = ("TILE", pos)
    p = Pyramid.new_toast_filtered(2, lambda t: True)
    p.count_leaf_tiles = lambda: total
    made = []

    def mk(default_value=None):
        r = FakeRiter([(pos, tile, is_leaf, [None] * 4)])
        made.append(r)
        return r

    p._make_iter_reducer = mk
    seen = []
    p.visit_leaves(lambda q, t: seen.append((q, t)), parallel=1)
    if total == 0:
        return seen == [] and made == []
    return seen == ([(pos, tile)] if is_leaf else []) and len(made[0].data) == 1


# ------------------------------------------------------------------ 6. closed forms

def chk_closed_form_recurrence(d: int) -> bool:
    """
    pre: 0 <= d <= 30
    post: _
    """
    return (depth2tiles(d + 1) == 4 * depth2tiles(d) + 1 and tiles_at_depth(d + 1) == 4 * tiles_at_depth(d)
            and depth2tiles(0) == 1 and tiles_at_depth(0) == 1 and depth2tiles(-1) == 0
            and depth2tiles(d) == depth2tiles(d - 1) + tiles_at_depth(d))


def chk_unfiltered_counts(an: int, ax: int, ay: int, depth: int, toast: bool) -> bool:
    """
    Analytic counts of unfiltered (sub-)pyramids = what the reducer path computes = what is visited.

    pre: 0 <= an <= 2 and an <= depth <= 3
    pre: 0 <= ax < 2**an and 0 <= ay < 2**an
    post: _
    """
    apex = Pos(an, ax, ay)

    def mk(force_filter):
        if toast:
            p = Pyramid.new_toast_filtered(depth, lambda t: True) if force_filter else Pyramid.new_toast(depth)
        else:
            p = Pyramid.new_generic(depth)
        if an > 0:
            p.subpyramid(apex)
        return p

    p = mk(False)
    if toast and an > 0:
        # TOAST sub-pyramids always carry the position filter, so the reducer path is taken
        pass
    leaves, live, ops = p.count_leaf_tiles(), p.count_live_tiles(), p.count_operations()
    k = depth - an
    ok = leaves == 4 ** k and live == (4 ** (k + 1) - 1) // 3 and ops == (4 ** k - 1) // 3
    if toast:
        q = mk(True)
        ok = ok and (q.count_leaf_tiles(), q.count_live_tiles(), q.count_operations()) == (leaves, live, ops)
    w = []
    mk(False).walk(w.append, parallel=1)
    v = []
    mk(False).visit_leaves(lambda pos, t: v.append(pos), parallel=1)
    ok = ok and len(w) == ops and len(set(w)) == ops and len(v) == leaves and len(set(v)) == leaves
    ok = ok and all(q.n == depth and is_subtile(q, apex) for q in v)
    ok = ok and all(an <= q.n < depth and is_subtile(q, apex) for q in w)
    return ok


def _history_one_object(an, ax, ay, depth, kind, count_first, visit_first):
    """
    One Pyramid object through a history: (optionally) counted / visited as a whole, THEN restricted with subpyramid(apex),
    then counted, walked and leaf-visited again, twice. Every answer after the restriction must be the answer a fresh
    object gives (state kept on the object between calls must not leak), and counts must equal what is visited.
    """
    apex = Pos(an, ax, ay)

    def mk():
        if kind == 0:
            return Pyramid.new_generic(depth)
        if kind == 1:
            return Pyramid.new_toast(depth)
        return Pyramid.new_toast_filtered(depth, lambda t: True)

    p = mk()
    ok = True
    if count_first:
        full = (p.count_leaf_tiles(), p.count_live_tiles(), p.count_operations())
        ok = ok and full == (4 ** depth, (4 ** (depth + 1) - 1) // 3, (4 ** depth - 1) // 3)
    if visit_first:
        w0, v0 = [], []
        p.walk(w0.append, parallel=1)
        p.visit_leaves(lambda pos, t: v0.append(pos), parallel=1)
        ok = ok and len(w0) == (4 ** depth - 1) // 3 and len(v0) == 4 ** depth
    if an > 0:
        p.subpyramid(apex)
    k = depth - an
    want = (4 ** k, (4 ** (k + 1) - 1) // 3, (4 ** k - 1) // 3)
    for _round in range(2):
        got = (p.count_leaf_tiles(), p.count_live_tiles(), p.count_operations())
        w, v = [], []
        p.walk(w.append, parallel=1)
        p.visit_leaves(lambda pos, t: v.append(pos), parallel=1)
        ok = ok and got == want and len(w) == want[2] and len(set(w)) == want[2] and len(v) == want[0] and len(set(v)) == want[0]
        ok = ok and all(q.n == depth and is_subtile(q, apex) for q in v) and all(an <= q.n < depth and is_subtile(q, apex) for q in w)
    return ok


def chk_history_k0_c0v1(an: int, ax: int, ay: int, depth: int) -> bool:
    """
    pre: 0 <= an <= 2 and an <= depth <= 2 and depth >= 0
    pre: 0 <= ax < 2**an and 0 <= ay < 2**an
    post: _
    """
    return _history_one_object(an, ax, ay, depth, 0, False, True)


def chk_history_k0_c1v0(an: int, ax: int, ay: int, depth: int) -> bool:
    """
    pre: 0 <= an <= 2 and an <= depth <= 2 and depth >= 0
    pre: 0 <= ax < 2**an and 0 <= ay < 2**an
    post: _
    """
    return _history_one_object(an, ax, ay, depth, 0, True, False)


def chk_history_k0_c1v1(an: int, ax: int, ay: int, depth: int) -> bool:
    """
    pre: 0 <= an <= 2 and an <= depth <= 2 and depth >= 0
    pre: 0 <= ax < 2**an and 0 <= ay < 2**an
    post: _
    """
    return _history_one_object(an, ax, ay, depth, 0, True, True)


def chk_history_k1_c0v1(an: int, ax: int, ay: int, depth: int) -> bool:
    """
    pre: 0 <= an <= 2 and an <= depth <= 2 and depth >= 1
    pre: 0 <= ax < 2**an and 0 <= ay < 2**an
    post: _
    """
    return _history_one_object(an, ax, ay, depth, 1, False, True)


def chk_history_k1_c1v0(an: int, ax: int, ay: int, depth: int) -> bool:
    """
    pre: 0 <= an <= 2 and an <= depth <= 2 and depth >= 1
    pre: 0 <= ax < 2**an and 0 <= ay < 2**an
    post: _
    """
    return _history_one_object(an, ax, ay, depth, 1, True, False)


def chk_history_k1_c1v1(an: int, ax: int, ay: int, depth: int) -> bool:
    """
    pre: 0 <= an <= 2 and an <= depth <= 2 and depth >= 1
    pre: 0 <= ax < 2**an and 0 <= ay < 2**an
    post: _
    """
    return _history_one_object(an, ax, ay, depth, 1, True, True)


def chk_history_k2_c0v1(an: int, ax: int, ay: int, depth: int) -> bool:
    """
    pre: 0 <= an <= 2 and an <= depth <= 2 and depth >= 1
    pre: 0 <= ax < 2**an and 0 <= ay < 2**an
    post: _
    """
    return _history_one_object(an, ax, ay, depth, 2, False, True)


def chk_history_k2_c1v0(an: int, ax: int, ay: int, depth: int) -> bool:
    """
    pre: 0 <= an <= 2 and an <= depth <= 2 and depth >= 1
    pre: 0 <= ax < 2**an and 0 <= ay < 2**an
    post: _
    """
    return _history_one_object(an, ax, ay, depth, 2, True, False)


def chk_history_k2_c1v1(an: int, ax: int, ay: int, depth: int) -> bool:
    """
    pre: 0 <= an <= 2 and an <= depth <= 2 and depth >= 1
    pre: 0 <= ax < 2**an and 0 <= ay < 2**an
    post: _
    """
    return _history_one_object(an, ax, ay, depth, 2, True, True)


# ------------------------------------------------------------------ 7. end-to-end with symbolic filter masks

def _idx(pos):
    return pos.y * (2 ** pos.n) + pos.x


def _ref(depth, acc, apex, pos):
    """(live?, post-order of live non-leaf tiles at or below apex, leaves in order, number of live tiles)."""
    if pos.n > 0 and not acc(pos):
        return False, [], [], 0
    in_scope = is_subtile(pos, apex) if pos.n >= apex.n else is_subtile(apex, pos)
    if not in_scope:
        return False, [], [], 0
    if pos.n == depth:
        return True, [], [pos], 1
    order, leaves, nlive = [], [], 0
    live = False
    for c in pos_children(pos):
        l, o, lv, nl = _ref(depth, acc, apex, c)
        order += o
        leaves += lv
        nlive += nl
        live = live or l
    if live and pos.n >= apex.n:
        order.append(pos)
        nlive += 1
    return live, order, leaves, nlive


def _e2e(depth, acc, apex):
    def mk():
        p = Pyramid.new_toast_filtered(depth, lambda t: acc(t.pos))
        if apex.n > 0:
            p.subpyramid(apex)
        return p

    _l, order, leaves, nlive = _ref(depth, acc, apex, Pos(0, 0, 0))
    seen = []
    mk().walk(seen.append, parallel=1)
    vis = []
    mk().visit_leaves(lambda pos, t: vis.append((pos, t.pos if t is not None else None)), parallel=1)
    ok = seen == order and vis == [(q, q) for q in leaves]
    ok = ok and mk().count_operations() == len(order) and mk().count_leaf_tiles() == len(leaves)
    ok = ok and mk().count_live_tiles() == nlive and len(order) + len(leaves) == nlive
    return ok


def _e2e_unfiltered(depth, apex, generic):
    """No tile filter at all (the pyramid's _tile_filter stays None unless the sub-pyramid installs one): generic and
    TOAST pyramids, whole or restricted to a sub-pyramid — walk order, leaf visits and the three counters."""
    def mk():
        p = Pyramid.new_generic(depth) if generic else Pyramid.new_toast(depth)
        if apex.n > 0:
            p.subpyramid(apex)
        return p

    _l, order, leaves, nlive = _ref(depth, lambda pos: True, apex, Pos(0, 0, 0))
    seen = []
    mk().walk(seen.append, parallel=1)
    vis = []
    mk().visit_leaves(lambda pos, t: vis.append((pos, t.pos if t is not None else None)), parallel=1)
    if generic:
        ok = seen == order and vis == [(q, None) for q in leaves]
    else:
        ok = seen == order and vis == [(q, q if q.n > 0 else None) for q in leaves]
    ok = ok and mk().count_operations() == len(order) and mk().count_leaf_tiles() == len(leaves)
    ok = ok and mk().count_live_tiles() == nlive and len(order) + len(leaves) == nlive
    return ok


def chk_e2e_unfiltered_generic(an: int, ax: int, ay: int, depth: int) -> bool:
    """
    pre: 0 <= an <= 2 and an <= depth <= 3
    pre: 0 <= ax < 2**an and 0 <= ay < 2**an
    post: _
    """
    return _e2e_unfiltered(depth, Pos(an, ax, ay), True)


def chk_e2e_unfiltered_toast(an: int, ax: int, ay: int, depth: int) -> bool:
    """
    pre: 0 <= an <= 2 and an <= depth <= 3 and depth >= 1
    pre: 0 <= ax < 2**an and 0 <= ay < 2**an
    post: _
    """
    return _e2e_unfiltered(depth, Pos(an, ax, ay), False)


def chk_e2e_depth1(m1: int, an: int, ax: int, ay: int) -> bool:
    """
    pre: 0 <= m1 < 16
    pre: 0 <= an <= 1 and 0 <= ax < 2**an and 0 <= ay < 2**an
    post: _
    """
    acc = lambda pos: ((m1 >> _idx(pos)) & 1) == 1
    return _e2e(1, acc, Pos(an, ax, ay))


def chk_e2e_depth2(m1: int, m2: int) -> bool:
    """
    Depth 2 with the accepted level-1 tiles restricted to tiles 0 and 1 (symbolic which), level-2 mask free.

    pre: 0 <= m1 < 4
    pre: 0 <= m2 < 2**16
    post: _
    """
    def acc(pos):
        if pos.n == 1:
            return ((m1 >> _idx(pos)) & 1) == 1
        return ((m2 >> _idx(pos)) & 1) == 1

    return _e2e(2, acc, Pos(0, 0, 0))


def _acc12(m1, m2):
    def acc(pos):
        if pos.n == 1:
            return ((m1 >> _idx(pos)) & 1) == 1
        return ((m2 >> _idx(pos)) & 1) == 1
    return acc


def chk_e2e_depth2_apex1(m1: int, m2: int, ax: int, ay: int) -> bool:
    """
    Depth 2, any sub-pyramid apex at level 1, free level-1 and level-2 filter masks.

    pre: 0 <= m1 < 16
    pre: 0 <= m2 < 2**16
    pre: 0 <= ax < 2 and 0 <= ay < 2
    post: _
    """
    return _e2e(2, _acc12(m1, m2), Pos(1, ax, ay))


def chk_e2e_depth2_apex2_q0(m1: int, m2: int, ax: int, ay: int) -> bool:
    """
    Depth 2, sub-pyramid apex = any level-2 tile under level-1 tile 0, free filter masks.

    pre: 0 <= m1 < 16
    pre: 0 <= m2 < 2**16
    pre: 0 <= ax < 2 and 0 <= ay < 2
    post: _
    """
    return _e2e(2, _acc12(m1, m2), Pos(2, ax, ay))


def chk_e2e_depth2_apex2_q1(m1: int, m2: int, ax: int, ay: int) -> bool:
    """
    Depth 2, sub-pyramid apex = any level-2 tile under level-1 tile 1, free filter masks.

    pre: 0 <= m1 < 16
    pre: 0 <= m2 < 2**16
    pre: 2 <= ax < 4 and 0 <= ay < 2
    post: _
    """
    return _e2e(2, _acc12(m1, m2), Pos(2, ax, ay))


def chk_e2e_depth2_apex2_q2(m1: int, m2: int, ax: int, ay: int) -> bool:
    """
    Depth 2, sub-pyramid apex = any level-2 tile under level-1 tile 2, free filter masks.

    pre: 0 <= m1 < 16
    pre: 0 <= m2 < 2**16
    pre: 0 <= ax < 2 and 2 <= ay < 4
    post: _
    """
    return _e2e(2, _acc12(m1, m2), Pos(2, ax, ay))


def chk_e2e_depth2_apex2_q3(m1: int, m2: int, ax: int, ay: int) -> bool:
    """
    Depth 2, sub-pyramid apex = any level-2 tile under level-1 tile 3, free filter masks.

    pre: 0 <= m1 < 16
    pre: 0 <= m2 < 2**16
    pre: 2 <= ax < 4 and 2 <= ay < 4
    post: _
    """
    return _e2e(2, _acc12(m1, m2), Pos(2, ax, ay))


def chk_e2e_depth2_pair02(m2: int, sel: int) -> bool:
    """
    Depth 2, level-1 tiles 0 and 2 (sel bit 0) or 1 and 2 (sel bit 1) accepted, free level-2 mask.

    pre: 0 <= m2 < 2**16
    pre: 0 <= sel <= 1
    post: _
    """
    return _e2e(2, _acc12(5 if sel == 0 else 6, m2), Pos(0, 0, 0))


def chk_e2e_depth2_pair3(m2: int, sel: int) -> bool:
    """
    Depth 2, level-1 tile 3 together with tile 0 / 1 / 2 (sel), free level-2 mask.

    pre: 0 <= m2 < 2**16
    pre: 0 <= sel <= 2
    post: _
    """
    return _e2e(2, _acc12(8 | (1 << sel), m2), Pos(0, 0, 0))
