"""C20 — each input file contributes the HDU / WCS key the user selected (E1: CrossHair on the real collection code)."""
from vlib.core import soft_attr as core_u
import os

import toasty.collection as tc
from vlib import chx

HARNESS = os.path.join(os.path.dirname(__file__), "chx_C20.py")
QUICK = [("chk_scan_scalar_or_none", 90), ("chk_scan_list_index_3files", 120), ("chk_scan_list_key_3files", 120), ("chk_scan_list_both_2files", 120), ("chk_scan_list_single_file", 60), ("chk_first_image_hdu", 120), ("chk_agree_list_index_3files", 170), ("chk_agree_list_both_2files", 170), ("chk_agree_scalar_or_none", 120),
         ("chk_load_single_path", 30), ("chk_repeated_paths_index", 240), ("chk_repeated_paths_index_and_key", 170), ("chk_cli_hdu_index", 120), ("chk_cli_wcs_key", 60), ("chk_cli_end_to_end", 90)]
THOROUGH = QUICK + [("chk_agree_list_index_4files", 1500), ("chk_scan_list_both_3files", 1500)]


def check(run):
    run.uses(core_u(tc.SimpleFitsCollection, "_scan_hdus"), core_u(tc.SimpleFitsCollection, "_load"), tc.SimpleFitsCollection.export_simple,
             tc.SimpleFitsCollection.descriptions, tc.SimpleFitsCollection.images, tc.load,
             tc.CollectionLoader.create_from_args, tc.CollectionLoader.load_paths)
    run.bound(files="<= 3 positions, the same file possibly listed several times", hdus_per_file="3 (4 for the first-image search, symbolic kinds)", selection="scalar / per-file list / None, symbolic values",
              wcs_keys="' ', 'A', 'B' (symbolic choice), scalar / list / None", cli="--hdu-index with 1..3 integers <= 12; --wcs-key with 1..2 letters")
    run.assume("astropy.io.fits.open replaced by a fake HDU list whose __getitem__ accepts int/str/tuple only (as astropy does) and whose HDUs carry (file, index)",
               "astropy.wcs.WCS replaced by a recorder of (header, key); BinTableHDU replaced by a stand-in class (type identity is what the code tests)")
    run.outside("astropy's own FITS parsing; non-2D WCS reduction (celestial sub-setting); tile_fits() forwarding (one-line pass-through to collection.load)")
    chx.run_conditions(run, HARNESS, THOROUGH if run.tier == "thorough" else QUICK)
