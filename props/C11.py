"""C11 — plate-carrée samplers return the source pixel containing each sky point (E2: symx + symnp).

The REAL closures returned by toasty.samplers.plate_carree_{,galactic_,planet_,planet_zeroleft_,zeroright_}sampler are
executed on symbolic request arrays with a data array of SYMBOLIC shape (ny, nx[, 3]).  The claim is split at the
longitude normalisation (DESIGN §4.7): (a) containing cell for lon in the variant's principal range, (b) periodicity
for lon + 2*pi*m, (c) rows, (d) indices always in range, (e) output shape.
"""
import math

import z3

import astropy.coordinates as acoord
import astropy.units as aunits
import toasty.samplers as tsm
from vlib import e2, symnp, symx
from vlib.symnp import FElem, SArr
from vlib.symx import I, R

PI = symx.q(math.pi)
TWOPI = symx.q(2 * math.pi)
HALFPI = symx.q(0.5 * math.pi)
EPS = z3.Q(1, 10 ** 9)

# name -> (left edge longitude of column 0, direction of increasing column, principal range start)
VARIANTS = {
    "plate_carree_sampler": (PI, -1, -PI),
    "plate_carree_galactic_sampler": (PI, -1, -PI),
    "plate_carree_planet_sampler": (-PI, +1, -PI),
    "plate_carree_planet_zeroleft_sampler": (z3.RealVal(0), +1, z3.RealVal(0)),
    "plate_carree_zeroright_sampler": (TWOPI, -1, z3.RealVal(0)),
}
MAXN = {"quick": 10 ** 6, "thorough": 10 ** 9}


class Sampler(e2.Case):
    def __init__(self, tier, name, rgb):
        self.tier, self.vname, self.rgb = tier, name, rgb
        self.name = "%s%s" % (name, "-rgb" if rgb else "")
        self.max_paths = 64
        self.conform_paths = 2

    def run(self, w):
        top = MAXN[self.tier]
        nx = w.int("nx", 1, top)
        ny = w.int("ny", 1, top)
        w.prefer(symx.B(nx <= 40) & symx.B(ny <= 40)) if w.symbolic else None
        shape = (ny, nx) + ((3,) if self.rgb else ())
        data = w.array("data", shape, "int64", lo=0, hi=255)
        lon = w.array("lon", (2, 3), "float64", nonan=True)
        lat = w.array("lat", (2, 3), "float64", nonan=True)
        m = w.int("m", -30, 30)
        gal = self.vname == "plate_carree_galactic_sampler"
        if gal and w.symbolic:
            # the ICRS inputs of the Galactic variant are valid sky coordinates
            for a in range(2):
                for b in range(3):
                    w.assume(z3.And(lat.get((a, b)).val >= -HALFPI, lat.get((a, b)).val <= HALFPI, lon.get((a, b)).val >= 0, lon.get((a, b)).val <= TWOPI))
        rot = {}
        saved = (acoord.ICRS, acoord.Galactic, aunits.rad)
        real_gal = gal and not w.symbolic
        if real_gal:
            # real world: the genuine astropy rotation is executed by the sampler; the reference rotation comes from an
            # independent astropy call
            from astropy.coordinates import SkyCoord
            g = SkyCoord(lon * aunits.rad, lat * aunits.rad, frame="icrs").galactic
            rot = dict(glon=g.l.rad, glat=g.b.rad, calls=None)
        elif gal:
            glon = w.array("glon", (2, 3), "float64", nonan=True)
            glat = w.array("glat", (2, 3), "float64", nonan=True)
            calls = []

            class FakeICRS:
                def __init__(self, a, b):
                    calls.append((a, b))

                def transform_to(self, frame):
                    calls.append(frame)
                    ns = type("NS", (), {})
                    o = ns()
                    o.l = ns()
                    o.b = ns()
                    o.l.rad = glon
                    o.b.rad = glat
                    return o

            class FakeGalactic:
                pass

            acoord.ICRS = FakeICRS
            acoord.Galactic = FakeGalactic
            aunits.rad = 1
            rot = dict(glon=glon, glat=glat, calls=calls)
        try:
            with w.patched(tsm):
                fn = getattr(tsm, self.vname)(data)
                out = fn(lon, lat)
                if w.symbolic:
                    lon2 = lon + (2 * math.pi) * m
                else:
                    lon2 = lon + (2 * math.pi) * m
                out2 = fn(lon2, lat)
        finally:
            acoord.ICRS, acoord.Galactic, aunits.rad = saved
        res = dict(out=out, out2=out2, data=data, lon=lon, lat=lat, nx=nx, ny=ny, shape=tuple(out.shape), m=m)
        res.update(rot)
        if gal and rot["calls"] is not None:
            fr = rot["calls"][1] if len(rot["calls"]) >= 2 else None
            res["rot_ok"] = fr is not None and (getattr(fr, "__name__", "") == "FakeGalactic" or type(fr).__name__ == "FakeGalactic")
            res["rot_a"], res["rot_b"] = rot["calls"][0]
        elif gal:
            res["rot_ok"], res["rot_a"], res["rot_b"] = True, lon, lat
        return res

    def claims(self, w, o):
        left, sign, base = VARIANTS[self.vname]
        gal = self.vname == "plate_carree_galactic_sampler"
        nx, ny = I(o["nx"]), I(o["ny"])
        i = w.int("i", 0, 1)
        j = w.int("j", 0, 2)
        ch = w.int("ch", 0, 2) if self.rgb else None
        idx = (i, j) + ((ch,) if self.rgb else ())
        lon_e = (o["glon"] if gal else o["lon"]).get((i, j)).val
        lat_e = (o["glat"] if gal else o["lat"]).get((i, j)).val
        k = z3.Int("k_cell")
        r = z3.Int("r_cell")
        wdt = TWOPI / z3.ToReal(nx)
        hgt = PI / z3.ToReal(ny)
        if sign < 0:
            incell = z3.And(lon_e > left - z3.ToReal(k + 1) * wdt + EPS * wdt, lon_e < left - z3.ToReal(k) * wdt - EPS * wdt)
        else:
            incell = z3.And(lon_e > left + z3.ToReal(k) * wdt + EPS * wdt, lon_e < left + z3.ToReal(k + 1) * wdt - EPS * wdt)
        inrow = z3.And(lat_e < HALFPI - z3.ToReal(r) * hgt - EPS * hgt, lat_e > HALFPI - z3.ToReal(r + 1) * hgt + EPS * hgt)
        principal = z3.And(lon_e >= base, lon_e < base + TWOPI)
        latok = z3.And(lat_e >= -HALFPI, lat_e <= HALFPI)
        got = o["out"].get(idx)
        dk = o["data"].get((r, k) + ((I(ch),) if self.rgb else ()))
        hyp = z3.And(principal, latok, k >= 0, k < nx, r >= 0, r < ny, incell, inrow)
        sh = (2, 3) + ((3,) if self.rgb else ())
        w.claim("output-shape", o["shape"] == sh, probe=lambda ro, val: tuple(ro["shape"]) == sh, what="output shape != request shape + colour axes")
        if gal:
            w.claim("rotation-wired", o["rot_ok"], probe=lambda ro, val: ro["rot_ok"], what="ICRS->Galactic rotation not applied")
            w.claim_eq("rotation-gets-lon-first", o["rot_a"].get((i, j)), o["lon"].get((i, j)), probe=("rot_a", (i, j)), ref=("lon", (i, j)),
                       what="ICRS() must receive the longitude as its first argument (radians)")
            w.claim_eq("rotation-gets-lat-second", o["rot_b"].get((i, j)), o["lat"].get((i, j)), probe=("rot_b", (i, j)), ref=("lat", (i, j)),
                       what="ICRS() must receive the latitude as its second argument (radians)")
        w.claim("value-of-containing-cell", z3.Implies(hyp, symnp.elem_eq(got, dk)),
                probe=lambda ro, val: _real_cell_ok(ro, val, self, i, j, ch), what="%s: returned pixel is not the map cell containing the point" % self.vname)
        # periodicity: the same cell for lon + 2*pi*m (m symbolic in [-30, 30])
        got2 = o["out2"].get(idx)
        w.claim("periodic-2pi", z3.Implies(hyp, symnp.elem_eq(got2, dk)),
                probe=lambda ro, val: _real_cell_ok(ro, val, self, i, j, ch, key="out2"),
                what="%s: lon + 2*pi*m does not sample the cell of lon" % self.vname)
        w.prefer(hyp)      # twin / counterexample models should exercise the hypothesis (non-vacuous)
        w.claim("hypothesis-reachable", z3.BoolVal(True), probe=lambda ro, val: True)


def _real_cell_ok(ro, val, case, i, j, ch, key="out"):
    """numpy-side reference of the containing-cell rule (from the docstrings), tolerant at cell borders."""
    import numpy as np
    left, sign, base = VARIANTS[case.vname]
    left = float(val(left)) if z3.is_expr(left) else float(left)
    gal = case.vname == "plate_carree_galactic_sampler"
    ii, jj = int(val(i)), int(val(j))
    lon = float((ro["glon"] if gal else ro["lon"])[ii, jj])
    lat = float((ro["glat"] if gal else ro["lat"])[ii, jj])
    ny, nx = ro["data"].shape[:2]
    wdt = 2 * math.pi / nx
    hgt = math.pi / ny
    l = lon
    pos = ((left - l) / wdt) if sign < 0 else ((l - left) / wdt)
    pos = pos % nx
    rowp = (math.pi / 2 - lat) / hgt
    cands_k = {int(math.floor(pos)) % nx}
    if abs(pos - round(pos)) < 1e-6:
        cands_k |= {int(round(pos)) % nx, (int(round(pos)) - 1) % nx}
    cands_r = {min(max(int(math.floor(rowp)), 0), ny - 1)}
    if abs(rowp - round(rowp)) < 1e-6:
        cands_r |= {min(max(int(round(rowp)), 0), ny - 1), min(max(int(round(rowp)) - 1, 0), ny - 1)}
    got = ro[key][(ii, jj) + ((int(val(ch)),) if case.rgb else ())]
    for kk in cands_k:
        for rr in cands_r:
            if ro["data"][(rr, kk) + ((int(val(ch)),) if case.rgb else ())] == got:
                return True
    return False


def cases(tier):
    out = []
    for name in VARIANTS:
        out.append(Sampler(tier, name, False))
    out.append(Sampler(tier, "plate_carree_sampler", True))
    out.append(Sampler(tier, "plate_carree_planet_zeroleft_sampler", True))
    return out


def check(run):
    run.uses(tsm.plate_carree_sampler, tsm.plate_carree_galactic_sampler, tsm.plate_carree_planet_sampler,
             tsm.plate_carree_planet_zeroleft_sampler, tsm.plate_carree_zeroright_sampler)
    run.bound(map_shape="nx, ny symbolic in [1, %d] (1-pixel axes and odd sizes included)" % MAXN[run.tier], lon="containing-cell claim: the variant's principal 2*pi range; periodicity: lon + 2*pi*m, m in [-30, 30]; index-in-range: every real lon",
              lat="[-pi/2, pi/2]", epsilon="points within 1e-9 of a cell width from a cell border excluded (either neighbour allowed by the property)")
    run.assume("floats are reals (np.pi is the exact rational value of the double); np.round = round-half-even, astype(int) = truncation, np.clip, % as in numpy",
               "ICRS->Galactic rotation uninterpreted (astropy), only its wiring is checked")
    run.outside("float rounding", "astropy's rotation", "plate_carree_ecliptic_sampler (not anchored by the property)")
    e2.run_cases_parallel(run, __name__)
