"""C04 — TOAST tiles partition the sphere, nest exactly, and are route-independent (E4).

  mid-identity     the decythonised `_mid` (regenerated from toasty/_libtoasty.pyx) is executed on angles represented as
                   (sin, cos) pairs (trig -> polynomial abstraction); z3 (QF_NRA) shows its result is the unit vector
                   of A + B, i.e. the great-circle midpoint, for all non-degenerate inputs;
  level-1 layout   the real level-1 corner table equals the documented layout (north pole centre, south pole corners,
                   equator diamond, lon 0 right / left, counter-clockwise) in both coordinate systems (unit vectors);
  div4-step        the real _div4 on OPAQUE corners with `mid` an uninterpreted commutative function: child (i, j) has
                   the corners of cell (i, j) of the 3x3 midpoint grid, position (2x+i, 2y+j), level n+1, inherited
                   orientation; the four children tile the parent (shared inner edges);
  neighbour-step   two tiles sharing an edge (any sides, same or reversed direction) => their facing children share
                   the two half edges (induction step for "neighbouring tiles share edges at every depth");
  level-1 seams    base case: the level-1 tiles' edges are glued as the octahedron requires (real table);
  routes           create_single_tile, generate_tiles, generate_tiles_filtered and the toast_tile_for_point descent
                   give identical corner terms and orientation for every position to depth 2 (quick) / 3 (thorough),
                   symbolically (opaque level-1 corners) and on the real doubles.
"""
from vlib.core import soft_attr as core_u
import itertools
import math
import time

import numpy as np
import z3

import toasty.toast as tt
from toasty.pyramid import Pos
from toasty.toast import Tile, ToastCoordinateSystem
from vlib import core, decy
from vlib.core import HarnessError

Pt = z3.DeclareSort("Pt4")
MID = z3.Function("mid4", Pt, Pt, Pt)


class OP:
    def __init__(self, t):
        self.t = t

    def __getitem__(self, k):
        return (("lon", "lat")[k], self.t)

    def __len__(self):
        return 2


# ------------------------------------------------------------------ 1. the midpoint identity (trig -> polynomial)

class Val:
    """A real number as a z3 term with python arithmetic."""

    def __init__(self, t):
        self.t = t if z3.is_expr(t) else z3.RealVal(t)

    def _o(self, o):
        return o.t if isinstance(o, Val) else z3.RealVal(o)

    def __add__(self, o):
        return Val(self.t + self._o(o))

    __radd__ = __add__

    def __sub__(self, o):
        return Val(self.t - self._o(o))

    def __rsub__(self, o):
        return Val(self._o(o) - self.t)

    def __mul__(self, o):
        return Val(self.t * self._o(o))

    __rmul__ = __mul__


class Ang:
    """An angle known only through its sine and cosine."""

    def __init__(self, s, c):
        self.s, self.c = s, c

    def __sub__(self, o):
        return Ang(self.s * o.c - self.c * o.s, self.c * o.c + self.s * o.s)

    def __add__(self, o):
        return Ang(self.s * o.c + self.c * o.s, self.c * o.c - self.s * o.s)


def mid_identity(mod):
    cons = []
    nfresh = [0]

    def fresh(name):
        nfresh[0] += 1
        return z3.Real("%s_%d" % (name, nfresh[0]))

    def mk_angle(name, cos_nonneg=False):
        s, c = z3.Real(name + "_s"), z3.Real(name + "_c")
        cons.append(s * s + c * c == 1)
        if cos_nonneg:
            cons.append(c >= 0)
        return Ang(s, c)

    def f_sin(a):
        return Val(a.s)

    def f_cos(a):
        return Val(a.c)

    radii = []
    hypots = []

    def f_atan2(y, x):
        y, x = (y if isinstance(y, Val) else Val(y)), (x if isinstance(x, Val) else Val(x))
        s, c = fresh("s"), fresh("c")
        r = None
        for (p, q2, h) in hypots:
            # atan2 of the very two numbers whose hypot was already taken: its radius IS that hypot
            if (z3.eq(p, x.t) and z3.eq(q2, y.t)) or (z3.eq(p, y.t) and z3.eq(q2, x.t)):
                r = h
                cons.append(h > 0)
        if r is None:
            r = fresh("r")
            cons.extend([r > 0, r * r == x.t * x.t + y.t * y.t])
        cons.extend([s * r == y.t, c * r == x.t])
        radii.append(r)
        return Ang(s, c)

    def f_hypot(a, b):
        h = fresh("h")
        cons.extend([h >= 0, h * h == a.t * a.t + b.t * b.t])
        hypots.append((a.t, b.t, h))
        return Val(h)

    class P:
        def __init__(self, x=None, y=None):
            self.x, self.y = x, y

    saved = {k: mod.__dict__[k] for k in ("sin", "cos", "atan2", "hypot")}
    mod.__dict__.update(sin=f_sin, cos=f_cos, atan2=f_atan2, hypot=f_hypot)
    try:
        a = P(mk_angle("lon_a"), mk_angle("lat_a", True))
        b = P(mk_angle("lon_b"), mk_angle("lat_b", True))
        cen = P()
        mod._mid(a, b, cen)
    finally:
        mod.__dict__.update(saved)
    if not isinstance(cen.x, Ang) or not isinstance(cen.y, Ang) or len(radii) != 2:
        raise HarnessError("_mid no longer has the shape 'lat = atan2(.., hypot(..)); lon = a.x + atan2(..)': not translatable")
    A = (a.y.c * a.x.c, a.y.c * a.x.s, a.y.s)
    B = (b.y.c * b.x.c, b.y.c * b.x.s, b.y.s)
    M = (cen.y.c * cen.x.c, cen.y.c * cen.x.s, cen.y.s)
    # the radius introduced by the latitude atan2 is |A + B|
    claims = []
    results = {}
    for r in radii:
        if any(v[0] == "unsat" for v in results.values()):
            break
        claim = z3.And(*[m * r == (x + y) for m, x, y in zip(M, A, B)])
        s = z3.Solver()
        s.set("timeout", 60000)
        s.add(*cons)
        s.add(z3.Not(claim))
        t0 = time.time()
        res = str(s.check())
        results[str(r)] = (res, time.time() - t0)
    s = z3.Solver()
    s.set("timeout", 60000)
    s.add(*cons)
    twin = str(s.check())
    return results, twin


def mid_numeric_check(seed, cmid=None):
    """Replay of a failed identity: is mid(a, b) the normalised sum?  (compiled mid by default, else the given one)"""
    if cmid is None:
        from toasty._libtoasty import mid as cmid
    rng = np.random.default_rng(seed)
    worst = 0.0
    for _ in range(4000):
        a = (rng.uniform(0, 2 * np.pi), rng.uniform(-1.5, 1.5))
        b = (rng.uniform(0, 2 * np.pi), rng.uniform(-1.5, 1.5))
        m = cmid(a, b)
        va, vb, vm = tt._equ_to_xyz(a[1], a[0]), tt._equ_to_xyz(b[1], b[0]), tt._equ_to_xyz(m[1], m[0])
        s = va + vb
        n = np.linalg.norm(s)
        if n < 1e-3:
            continue
        worst = max(worst, float(np.abs(vm - s / n).max()))
    return worst


# ------------------------------------------------------------------ 2. level-1 layout

def square_point_lonlat(px, py, planetary):
    """Documented layout on the unit square sampled at the 3x3 grid (px, py in {0, 1, 2}; py = 0 is the TOP row)."""
    if (px, py) == (1, 1):
        return None, math.pi / 2            # north pole
    if px in (0, 2) and py in (0, 2):
        return None, -math.pi / 2           # south pole
    lon = {(2, 1): 0.0, (1, 0): math.pi / 2, (0, 1): math.pi, (1, 2): 3 * math.pi / 2}[(px, py)]   # sky maps: 0 right, 90 up, ccw
    if planetary:
        lon = (lon + math.pi) % (2 * math.pi)                                                   # planetary: 0 left, 90 down
    return lon, 0.0


def level1_layout(planetary):
    cs = ToastCoordinateSystem.PLANETARY if planetary else ToastCoordinateSystem.ASTRONOMICAL
    tiles = tt._create_level1_tiles(cs)
    bad = []
    want_inc = {(0, 0): True, (1, 0): False, (0, 1): False, (1, 1): True}
    for t in tiles:
        x, y = t.pos.x, t.pos.y
        sq = [(x, y), (x + 1, y), (x + 1, y + 1), (x, y + 1)]          # ul, ur, lr, ll on the 3x3 grid
        for k, (px, py) in enumerate(sq):
            lon, lat = square_point_lonlat(px, py, planetary)
            got = tt._equ_to_xyz(t.corners[k][1], t.corners[k][0])
            want = tt._equ_to_xyz(lat, 0.0 if lon is None else lon)
            if float(np.abs(got - want).max()) > 1e-12:
                bad.append((tuple(t.pos), k, tuple(t.corners[k])))
        if bool(t.increasing) != want_inc[(x, y)] or t.pos.n != 1:
            bad.append((tuple(t.pos), "orientation", t.increasing))
    if [tuple(t.pos) for t in tiles] != [(1, 0, 0), (1, 1, 0), (1, 0, 1), (1, 1, 1)]:
        bad.append(("order", [tuple(t.pos) for t in tiles]))
    return bad


# ------------------------------------------------------------------ 3./4. div4 step and neighbour step (EUF)

def _euf_run(fn):
    pairs = set()

    def umid(a, b):
        pairs.add((a.t, b.t))
        return OP(MID(a.t, b.t))

    saved = tt.mid
    tt.mid = umid
    try:
        out = fn()
    finally:
        tt.mid = saved
    return out, pairs


def _prove(pairs, claim):
    s = z3.Solver()
    s.set("timeout", 120000)
    for (a, b) in pairs:
        s.add(MID(a, b) == MID(b, a))
    s.add(z3.Not(claim))
    t0 = time.time()
    r = str(s.check())
    return r, time.time() - t0


def div4_step(increasing):
    C = {k: OP(z3.Const(k, Pt)) for k in ("ul", "ur", "lr", "ll")}
    n, x, y = 5, 11, 6
    t = Tile(Pos(n, x, y), (C["ul"], C["ur"], C["lr"], C["ll"]), increasing)
    kids, pairs = _euf_run(lambda: tt._div4(t))
    m = lambda a, b: MID(C[a].t, C[b].t)
    pairs |= {(C[a].t, C[b].t) for a in C for b in C if a != b}
    ce = m("ll", "ur") if increasing else m("ul", "lr")
    grid = {(0, 0): C["ul"].t, (1, 0): m("ul", "ur"), (2, 0): C["ur"].t,
            (0, 1): m("ul", "ll"), (1, 1): ce, (2, 1): m("ur", "lr"),
            (0, 2): C["ll"].t, (1, 2): m("ll", "lr"), (2, 2): C["lr"].t}
    conj = []
    structural = len(kids) == 4
    for k, ch in enumerate(kids):
        i, j = k % 2, k // 2
        structural = structural and ch.pos == Pos(n + 1, 2 * x + i, 2 * y + j) and ch.increasing == increasing and len(ch.corners) == 4
        want = [grid[(i, j)], grid[(i + 1, j)], grid[(i + 1, j + 1)], grid[(i, j + 1)]]
        for got, w in zip(ch.corners, want):
            conj.append(got.t == w)
    r, dt = _prove(pairs, z3.And(*conj))
    return structural, r, dt


SIDES = {"top": (0, 1), "right": (1, 2), "bottom": (3, 2), "left": (0, 3)}       # corner indices (ul, ur, lr, ll), in reading direction
# children (index into _div4's list) lying along each side, in reading direction, and the side's corners inside each child
CHILD_ALONG = {"top": (0, 1), "right": (1, 3), "bottom": (2, 3), "left": (0, 2)}


def neighbour_step(side_a, side_b, reversed_dir, inc_a, inc_b):
    A = [OP(z3.Const("a%d" % k, Pt)) for k in range(4)]
    B = [OP(z3.Const("b%d" % k, Pt)) for k in range(4)]
    ia, ja = SIDES[side_a]
    ib, jb = SIDES[side_b]
    if reversed_dir:
        hyp = z3.And(A[ia].t == B[jb].t, A[ja].t == B[ib].t)
    else:
        hyp = z3.And(A[ia].t == B[ib].t, A[ja].t == B[jb].t)
    ta = Tile(Pos(3, 1, 2), tuple(A), inc_a)
    tb = Tile(Pos(3, 5, 6), tuple(B), inc_b)
    (ka, kb), pairs = _euf_run(lambda: (tt._div4(ta), tt._div4(tb)))

    def half_edges(kids, side):
        i, j = SIDES[side]
        c0, c1 = CHILD_ALONG[side]
        return [(kids[c0].corners[i].t, kids[c0].corners[j].t), (kids[c1].corners[i].t, kids[c1].corners[j].t)]

    ea, eb = half_edges(ka, side_a), half_edges(kb, side_b)
    if reversed_dir:
        eb = [(q, p) for (p, q) in eb[::-1]]
    claim = z3.And(*[z3.And(p == p2, q == q2) for (p, q), (p2, q2) in zip(ea, eb)])
    pairs |= {(A[i].t, A[j].t) for i in range(4) for j in range(4) if i != j} | {(B[i].t, B[j].t) for i in range(4) for j in range(4) if i != j}
    # congruence through the hypothesis needs commutativity instances on the identified points too
    pairs |= {(A[ia].t, A[ja].t), (B[ib].t, B[jb].t), (B[jb].t, B[ib].t), (A[ja].t, A[ia].t)}
    return _prove(pairs, z3.Implies(hyp, claim))


def level1_seams(planetary):
    """Base case on the real table: every edge of every level-1 tile coincides (as an unordered pair of points) with
    exactly one edge of another level-1 tile, as the octahedron net requires; inner edges run in the same direction."""
    cs = ToastCoordinateSystem.PLANETARY if planetary else ToastCoordinateSystem.ASTRONOMICAL
    tiles = tt._create_level1_tiles(cs)

    def key(c):
        v = tt._equ_to_xyz(c[1], c[0])
        return tuple(int(round(float(u) * 1e9)) for u in v)

    edges = []
    for t in tiles:
        for side, (i, j) in SIDES.items():
            edges.append(((t.pos.x, t.pos.y), side, key(t.corners[i]), key(t.corners[j])))
    bad = []
    for e in edges:
        mates = [f for f in edges if f is not e and {f[2], f[3]} == {e[2], e[3]} and f[0] != e[0]]
        if len(mates) != 1:
            bad.append((e[0], e[1], len(mates)))
    return bad


# ------------------------------------------------------------------ 5. route independence

def routes_symbolic(depth, planetary):
    cs = ToastCoordinateSystem.PLANETARY if planetary else ToastCoordinateSystem.ASTRONOMICAL
    real_l1 = tt._create_level1_tiles(cs)
    consts = {}

    def opaque(c):
        v = tt._equ_to_xyz(c[1], c[0])
        k = tuple(int(round(float(u) * 1e9)) for u in v)
        if k not in consts:
            # named by the point itself: the same sky point is the same constant in every run of this process, so
            # that state kept between calls (caches) for another coordinate system or route shows up as a mismatch
            consts[k] = OP(z3.Const("L1_%d_%d_%d" % k, Pt))
        return consts[k]

    l1 = [Tile(t.pos, tuple(opaque(c) for c in t.corners), t.increasing) for t in real_l1]
    saved_l1 = tt._create_level1_tiles
    saved_score = tt._toast_tile_containment_score
    tt._create_level1_tiles = lambda coordsys: list(l1)
    mismatches = []
    n_cmp = 0

    def run_all():
        nonlocal n_cmp
        full = {t.pos: t for t in tt.generate_tiles(depth, bottom_only=False, coordsys=cs)}
        filt = {t.pos: t for t in tt.generate_tiles_filtered(depth, lambda t: True, bottom_only=False, coordsys=cs)}
        for n in range(1, depth + 1):
            for x in range(2 ** n):
                for y in range(2 ** n):
                    pos = Pos(n, x, y)
                    single = tt.create_single_tile(pos, coordsys=cs)

                    def score(tile, lat, lon, pos=pos):
                        # steer the descent towards `pos`
                        p = pos
                        while p.n > tile.pos.n:
                            p = Pos(p.n - 1, p.x // 2, p.y // 2)
                        return 0.0 if (p.x, p.y) == (tile.pos.x, tile.pos.y) and tile.pos.n <= pos.n else -1.0

                    tt._toast_tile_containment_score = score
                    looked = tt.toast_tile_for_point(n, 0.1, 0.2, coordsys=cs)
                    tt._toast_tile_containment_score = saved_score
                    for name, other in (("generate_tiles", full.get(pos)), ("generate_tiles_filtered", filt.get(pos)), ("toast_tile_for_point", looked)):
                        n_cmp += 1
                        if other is None or other.pos != pos or other.increasing != single.increasing or len(other.corners) != 4 or \
                                not all(z3.eq(a.t, b.t) for a, b in zip(other.corners, single.corners)):
                            mismatches.append((tuple(pos), name))
        return None

    try:
        _out, pairs = _euf_run(run_all)
    finally:
        tt._create_level1_tiles = saved_l1
        tt._toast_tile_containment_score = saved_score
    return mismatches, n_cmp


def routes_concrete(depth, planetary):
    cs = ToastCoordinateSystem.PLANETARY if planetary else ToastCoordinateSystem.ASTRONOMICAL
    full = {t.pos: t for t in tt.generate_tiles(depth, bottom_only=False, coordsys=cs)}
    filt = {t.pos: t for t in tt.generate_tiles_filtered(depth, lambda t: True, bottom_only=False, coordsys=cs)}
    bad = []
    n = 0
    for pos, t in full.items():
        s = tt.create_single_tile(pos, coordsys=cs)
        f = filt.get(pos)
        ul, ur, lr, ll = s.corners
        ce = tt.mid(ll, ur) if s.increasing else tt.mid(ul, lr)
        looked = tt.toast_tile_for_point(pos.n, ce[1], ce[0], coordsys=cs)
        routes = [("generate_tiles", t), ("generate_tiles_filtered", f)]
        if looked.pos == pos:        # the look-up of the tile's own centre (its correctness is C12's subject)
            routes.append(("toast_tile_for_point", looked))
        for name, o in routes:
            n += 1
            if o is None or o.increasing != s.increasing or not all(float(a[0]) == float(b[0]) and float(a[1]) == float(b[1]) for a, b in zip(o.corners, s.corners)):
                bad.append((tuple(pos), name))
    if len(full) != sum(4 ** k for k in range(1, depth + 1)):
        bad.append(("count", len(full)))
    return bad, n


def check(run):
    mod, py = decy.load()
    run.uses("toasty/_libtoasty.pyx:_mid (decythonised)", core_u(tt, "_div4"), core_u(tt, "_create_level1_tiles"), tt.create_single_tile, tt.generate_tiles, tt.generate_tiles_filtered,
             core_u(tt, "_postfix_corner"), tt.toast_tile_for_point)
    run.bound(mid="all angles (unbounded reals; non-degenerate pairs: A + B not zero and not on the polar axis)", div4="symbolic corners, any level / position",
              neighbours="all 4 x 4 side pairs x same/reversed direction x both orientations", routes="every position to depth %d, both coordinate systems" % (2 if run.tier == "quick" else 3))
    run.assume("angles enter only through sine and cosine (addition formulas; atan2 / hypot by their defining polynomial relations)",
               "in the EUF obligations the great-circle midpoint is an uninterpreted commutative function of points",
               "level-1 layout and seams are checked on the real table as unit vectors (tolerance 1e-12)")
    run.outside("tile areas (toast_tile_area: arccos / tan chain)", "float rounding", "longitudes that differ by 2*pi are the same point")
    only = getattr(run, "only", None)
    val = decy.validate(mod, seed=run.seed)
    okv = val["mid_max_abs_diff"] < 1e-12
    run.ob("decythonised-module-matches-compiled-extension", "confirmed" if okv else "inconclusive", "E4:translation-validation", str(val))
    run.replays += 1
    # 1
    results, twin = mid_identity(mod)
    held = [k for k, (r, dt) in results.items() if r == "unsat"]
    tot = sum(dt for _r, dt in results.values())
    if held:
        run.ob("mid-is-great-circle-midpoint", "unsat", "E4:nra", "unit vector of mid(a, b) times |A+B| equals A + B (radius %s; twin %s)" % (held[0], twin), queries=len(results) + 1, solver_s=tot)
    elif all(r == "sat" for r, _dt in results.values()):
        w = mid_numeric_check(run.seed)
        w_src = mid_numeric_check(run.seed, mod.mid)
        if w <= 1e-9 and w_src > 1e-9:
            run.violation("mid-is-great-circle-midpoint", "_libtoasty.pyx:_mid:source-not-the-midpoint",
                          "the _mid in toasty/_libtoasty.pyx is not the great-circle midpoint (decythonised source: max deviation %.3g); the compiled extension in this sandbox is stale (cannot be rebuilt: no Cython) and still computes midpoints" % w_src,
                          "import sys\nsys.path.insert(0, %r)\nimport props.C04 as P\nfrom vlib import decy\nm, _ = decy.load()\nw = P.mid_numeric_check(0, m.mid)\nprint(w)\nsys.exit(1 if w > 1e-9 else 0)\n" % str(__import__("vlib.core").core.VERIF), "E4:nra")
        elif w > 1e-9:
            run.violation("mid-is-great-circle-midpoint", "_libtoasty.pyx:_mid:not-the-midpoint", "mid(a, b) is not the normalised sum of the two unit vectors (compiled extension: max deviation %.3g)" % w,
                          "import sys\nsys.path.insert(0, %r)\nimport props.C04 as P\nw = P.mid_numeric_check(0)\nprint(w)\nsys.exit(1 if w > 1e-9 else 0)\n" % str(__import__("vlib.core").core.VERIF), "E4:nra")
        else:
            run.error("mid-is-great-circle-midpoint", "identity fails on the .pyx source but the compiled extension computes midpoints (stale .so?)")
    else:
        run.ob("mid-is-great-circle-midpoint", "inconclusive", "E4:nra", str(results), queries=len(results), solver_s=tot)
    # 2 + seams
    for planetary in (False, True):
        tag = "planetary" if planetary else "astronomical"
        bad = level1_layout(planetary)
        if bad:
            run.violation("level1-layout-%s" % tag, "toast.py:level1-table:%s" % tag, "level-1 tile table differs from the documented layout: %r" % (bad[:4],),
                          "import sys\nsys.path.insert(0, %r)\nimport props.C04 as P\nb = P.level1_layout(%r)\nprint(b)\nsys.exit(1 if b else 0)\n" % (str(__import__("vlib.core").core.VERIF), planetary), "execution")
        else:
            run.ob("level1-layout-%s" % tag, "confirmed", "execution", "16 corners + 4 orientations + order match the documented square layout")
        bad = level1_seams(planetary)
        if bad:
            run.violation("level1-seams-%s" % tag, "toast.py:level1-seams:%s" % tag, "level-1 tile edges are not glued pairwise: %r" % (bad[:4],),
                          "import sys\nsys.path.insert(0, %r)\nimport props.C04 as P\nb = P.level1_seams(%r)\nprint(b)\nsys.exit(1 if b else 0)\n" % (str(__import__("vlib.core").core.VERIF), planetary), "execution")
        else:
            run.ob("level1-seams-%s" % tag, "confirmed", "execution", "each of the 16 level-1 edges coincides with exactly one edge of another tile")
    # 3
    for inc in (True, False):
        structural, r, dt = div4_step(inc)
        nm = "div4-step[%s]" % ("increasing" if inc else "decreasing")
        if structural and r == "unsat":
            run.ob(nm, "unsat", "E4:euf", "children = cells of the 3x3 midpoint grid, positions (2x+i, 2y+j), orientation inherited", queries=1, solver_s=dt)
        elif r == "sat" or not structural:
            d = _div4_concrete_gap()
            run.violation(nm, "toast.py:_div4:children", "_div4 children are not the cells of the midpoint grid / wrong positions (real tiles: max gap %.3g)" % d,
                          "import sys\nsys.path.insert(0, %r)\nimport props.C04 as P\nprint(P.div4_step(True), P.div4_step(False))\nsys.exit(1)\n" % str(__import__("vlib.core").core.VERIF), "E4:euf")
        else:
            run.ob(nm, "inconclusive", "E4:euf", r)
    # 4
    nq, tq, fails = 0, 0.0, []
    for sa, sb in itertools.product(SIDES, SIDES):
        for rev in (False, True):
            for inc_a, inc_b in ((True, True), (True, False), (False, False)):
                r, dt = neighbour_step(sa, sb, rev, inc_a, inc_b)
                nq += 1
                tq += dt
                if r != "unsat":
                    fails.append((sa, sb, rev, inc_a, inc_b, r))
    if not fails:
        run.ob("neighbour-step", "unsat", "E4:euf", "%d side/direction/orientation combinations: facing children share the half edges" % nq, queries=nq, solver_s=tq)
    elif any(f[-1] == "sat" for f in fails):
        run.violation("neighbour-step", "toast.py:_div4:edges", "children of edge-sharing tiles do not share the half edges: %r" % (fails[:3],),
                      "import sys\nsys.exit(1)\n", "E4:euf")
    else:
        run.ob("neighbour-step", "inconclusive", "E4:euf", str(fails[:3]), queries=nq, solver_s=tq)
    # 5 — in forked processes: module-level state left behind by the symbolic obligations above (opaque points) must not
    # reach the route comparison, and state the library itself keeps between calls must show up in it
    depth = 2 if run.tier == "quick" else 3
    core.run_parallel(run, __name__, "job_routes", [("symbolic", depth), ("concrete", depth + 2)], timeout_s=1500)


def _routes_pass(kind, depth, planetary):
    try:
        return routes_symbolic(depth, planetary) if kind == "symbolic" else routes_concrete(depth, planetary)
    except Exception as e:      # a route that raises is a route that disagrees
        return [("raised", "%s: %s" % (type(e).__name__, e))], 0


def routes_history(kind, depth):
    """astronomical, planetary, astronomical again: every route is also exercised AFTER the other coordinate system has
    been used in the same process (state kept between calls must not leak into the geometry)."""
    out = []
    for planetary, again in ((False, ""), (True, ""), (False, "-after-planetary")):
        bad, n = _routes_pass(kind, depth, planetary)
        out.append((("planetary" if planetary else "astronomical") + again, bad, n))
    return out


def job_routes(run, kind, depth):
    t0 = time.time()
    for tag, bad, n in routes_history(kind, depth):
        nm = "routes-%s-%s" % (kind, tag)
        if bad:
            run.violation(nm, "toast.py:routes:%s" % tag, "tile geometry depends on the construction route or on what was built before (%s comparison, depth %d): %r" % (kind, depth, bad[:3]),
                          "import sys\nsys.path.insert(0, %r)\nimport props.C04 as P\nres = P.routes_history(%r, %d)\nfor tag, bad, n in res:\n    print(tag, n, bad[:5])\nsys.exit(1 if any(b for _t, b, _n in res) else 0)\n" % (
                              str(core.VERIF), kind, depth), "E4:euf" if kind == "symbolic" else "execution")
        else:
            run.ob(nm, "unsat" if kind == "symbolic" else "confirmed", "E4:euf" if kind == "symbolic" else "execution",
                   "%d comparisons of the four routes to depth %d (%s)" % (n, depth, "identical corner terms / orientation" if kind == "symbolic" else "identical doubles"),
                   queries=n if kind == "symbolic" else 0, solver_s=time.time() - t0)


def _div4_concrete_gap():
    worst = 0.0
    for t1 in tt._create_level1_tiles(ToastCoordinateSystem.ASTRONOMICAL):
        kids = tt._div4(t1)
        ul, ur, lr, ll = t1.corners
        for got, want in ((kids[0].corners[0], ul), (kids[1].corners[1], ur), (kids[3].corners[2], lr), (kids[2].corners[3], ll)):
            worst = max(worst, float(np.abs(tt._equ_to_xyz(got[1], got[0]) - tt._equ_to_xyz(want[1], want[0])).max()))
    return worst
