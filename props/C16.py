"""C16 — flipping image parity reverses rows but moves no pixel on the sky (E2: symx + symnp).

Real functions executed: image._wcs_to_parity_sign, image._flip_wcs_parity, Image.get_parity_sign / flip_parity /
ensure_negative_parity, ImageDescription.get_parity_sign / flip_parity / ensure_negative_parity.
Symbolic world: the WCS is a header stand-in with symbolic real CDELT / PC / CRPIX (off-diagonal PC entries optionally
absent), symbolic image height and pixel.  Real world (replays, vacuity twins): the SAME scenario runs with a genuine
astropy.wcs.WCS built from the model's numbers and sky coordinates from wcs_pix2world, which validates the stand-in.
"""
from vlib.core import soft_attr as core_u
import numpy as _np
import z3

import astropy.wcs as awcs
import toasty.image as ti
from toasty.image import Image, ImageDescription
from vlib import e2, symnp, symx
from vlib.symx import I, R, SymReal

KEYS = ["CDELT1", "CDELT2", "PC1_1", "PC1_2", "PC2_1", "PC2_2", "CRPIX1", "CRPIX2"]


class Hdr(dict):
    """astropy.io.fits.Header stand-in: a dict plus the Header methods a maintainer would plausibly use on it."""

    def copy(self, strip=False):
        return Hdr(self)

    def remove(self, keyword, ignore_missing=False, remove_all=False):
        if keyword in self:
            del self[keyword]
        elif not ignore_missing:
            raise KeyError("Keyword '%s' not found." % keyword)

    def set(self, keyword, value=None, comment=None, before=None, after=None):
        self[keyword] = value

    def append(self, card=None, useblanks=True, bottom=False, end=False):
        self[card[0]] = card[1]

    def cards(self):
        return list(self.items())


class FakeWCS:
    """Linear celestial WCS stand-in. Like wcslib, a CDi_j header is re-expressed as CDELT = 1, PC = CD by to_header()."""

    def __init__(self, header=None, **kw):
        h = Hdr(header or {})
        if "CD1_1" in h or "CD1_2" in h or "CD2_1" in h or "CD2_2" in h:
            for a in ("1_1", "1_2", "2_1", "2_2"):
                h["PC" + a] = h.pop("CD" + a, 1.0 if a[0] == a[2] else 0.0)
            h["CDELT1"] = 1.0
            h["CDELT2"] = 1.0
        self.h = h

    def to_header(self, *a, **k):
        return Hdr(self.h)

    def cd(self):
        h = self.h
        return (R(h["CDELT1"]) * R(h.get("PC1_1", 1.0)), R(h["CDELT1"]) * R(h.get("PC1_2", 0.0)),
                R(h["CDELT2"]) * R(h.get("PC2_1", 0.0)), R(h["CDELT2"]) * R(h.get("PC2_2", 1.0)),
                R(h["CRPIX1"]), R(h["CRPIX2"]))


def real_wcs(vals, has_offdiag):
    w = awcs.WCS(naxis=2)
    w.wcs.ctype = ["RA---TAN", "DEC--TAN"]
    w.wcs.crval = [30.0, 40.0]
    w.wcs.cdelt = [vals["CDELT1"], vals["CDELT2"]]
    pc = [[vals["PC1_1"], vals["PC1_2"] if has_offdiag else 0.0], [vals["PC2_1"] if has_offdiag else 0.0, vals["PC2_2"]]]
    w.wcs.pc = pc
    w.wcs.crpix = [vals["CRPIX1"], vals["CRPIX2"]]
    w.wcs.set()
    return w


class Flip(e2.Case):
    def __init__(self, kind):
        self.kind = kind              # "image" | "description"
        self.name = "flip-%s" % kind
        self.max_paths = 64
        self.conform_paths = 4

    def run(self, w):
        vals = {k: w.real(k) for k in KEYS}
        offd = bool(w.bool("has_offdiag"))
        H = w.int("H", 1, 4096)
        W = 3
        x = w.real("x")
        y = w.real("y")
        if w.symbolic:
            v = {k: R(vals[k]) for k in KEYS}
            # a usable linear WCS: non-degenerate; replayable magnitudes are only a *preference*
            p12 = v["PC1_2"] if offd else 0
            p21 = v["PC2_1"] if offd else 0
            det = (v["CDELT1"] * v["PC1_1"]) * (v["CDELT2"] * v["PC2_2"]) - (v["CDELT1"] * p12) * (v["CDELT2"] * p21)
            w.assume(det != 0)
            small = [z3.And(v[k] >= -z3.Q(1, 100), v[k] <= z3.Q(1, 100), z3.Or(v[k] >= z3.Q(1, 1000), v[k] <= -z3.Q(1, 1000))) for k in ("CDELT1", "CDELT2")]
            small += [z3.And(v[k] >= -1, v[k] <= 1) for k in ("PC1_1", "PC1_2", "PC2_1", "PC2_2")]
            small += [z3.And(v[k] >= -50, v[k] <= 50) for k in ("CRPIX1", "CRPIX2")]
            small += [I(H) <= 40, R(x) >= 0, R(x) <= 40, R(y) >= 0, R(y) <= 40, det * det >= z3.Q(1, 10 ** 10)]
            w.prefer(z3.And(*small))
            hdr = Hdr(vals)
            if not offd:
                del hdr["PC1_2"], hdr["PC2_1"]
            wcs0 = FakeWCS(hdr)
        else:
            wcs0 = real_wcs(vals, offd)
        arr = w.array("pix", (H, W), "float32", nonan=True)
        saved = awcs.WCS
        if w.symbolic:
            awcs.WCS = FakeWCS
        try:
            with w.patched(ti):
                if self.kind == "image":
                    obj = Image.from_array(arr, wcs=wcs0)
                else:
                    obj = ImageDescription(shape=(H, W), wcs=wcs0)
                sign0 = obj.get_parity_sign()
                ret = obj.flip_parity()
                wcs1 = obj.wcs
                sign1 = obj.get_parity_sign()
                arr1 = obj.asarray() if self.kind == "image" else None
                # ensure_negative_parity twice (idempotence) on a fresh object with the original WCS
                if self.kind == "image":
                    obj2 = Image.from_array(arr, wcs=wcs0)
                else:
                    obj2 = ImageDescription(shape=(H, W), wcs=wcs0)
                obj2.ensure_negative_parity()
                sign_e1 = obj2.get_parity_sign()
                wcs_e1 = obj2.wcs
                arr_e1 = obj2.asarray() if self.kind == "image" else None
                obj2.ensure_negative_parity()
                sign_e2 = obj2.get_parity_sign()
                same_wcs = obj2.wcs is wcs_e1
                same_arr = (obj2.asarray() is arr_e1) if self.kind == "image" else True
                # a history on ONE object: ensure, flip, ensure again (state kept between calls must not matter)
                if self.kind == "image":
                    obj3 = Image.from_array(arr, wcs=wcs0)
                else:
                    obj3 = ImageDescription(shape=(H, W), wcs=wcs0)
                obj3.ensure_negative_parity()
                obj3.flip_parity()
                sign_h1 = obj3.get_parity_sign()
                obj3.ensure_negative_parity()
                sign_h2 = obj3.get_parity_sign()
                wcs_h = obj3.wcs
                arr_h = obj3.asarray() if self.kind == "image" else None
        finally:
            awcs.WCS = saved
        out = dict(sign0=sign0, sign1=sign1, sign_e1=sign_e1, sign_e2=sign_e2, same_wcs=same_wcs, same_arr=same_arr,
                   arr=arr, arr1=arr1, arr_e1=arr_e1, H=H, x=x, y=y, wcs0=wcs0, wcs1=wcs1, wcs_e1=wcs_e1,
                   ret_is_self=ret is obj, offd=offd, vals=vals, sign_h1=sign_h1, sign_h2=sign_h2, wcs_h=wcs_h, arr_h=arr_h)
        if not w.symbolic:
            a = wcs0.wcs_pix2world([[x, y]], 0)[0]
            b = wcs1.wcs_pix2world([[x, H - 1 - y]], 0)[0]
            out["world_equal"] = bool(_np.allclose(a, b, rtol=0, atol=1e-7))
            ye = (H - 1 - y) if sign0 == 1 else y
            c = wcs_e1.wcs_pix2world([[x, ye]], 0)[0]
            out["world_equal_ensure"] = bool(_np.allclose(a, c, rtol=0, atol=1e-7))
            ch = wcs_h.wcs_pix2world([[x, ye]], 0)[0]
            out["world_equal_history"] = bool(_np.allclose(a, ch, rtol=0, atol=1e-7))
            d0 = _np.linalg.det(wcs0.pixel_scale_matrix)
            out["det_negative"] = bool(d0 < 0)
        return out

    def claims(self, w, o):
        H = o["H"]
        v = {k: R(o["vals"][k]) for k in KEYS}
        offd = o["offd"]
        p12 = v["PC1_2"] if offd else z3.RealVal(0)
        p21 = v["PC2_1"] if offd else z3.RealVal(0)
        cd11, cd12 = v["CDELT1"] * v["PC1_1"], v["CDELT1"] * p12
        cd21, cd22 = v["CDELT2"] * p21, v["CDELT2"] * v["PC2_2"]
        det = cd11 * cd22 - cd12 * cd21
        s0 = o["sign0"]
        w.claim("parity-from-determinant", z3.If(det < 0, s0 == 1, s0 == -1), probe=lambda ro, val: ro["sign0"] == (1 if ro["det_negative"] else -1),
                what="parity sign must be +1 exactly when det(CD) < 0")
        w.claim("flip-negates-parity", o["sign1"] == -s0 and o["ret_is_self"], probe=lambda ro, val: ro["sign1"] == -ro["sign0"],
                what="parity sign not negated by flip_parity")
        x, y = R(o["x"]), R(o["y"])
        a11, a12, a21, a22, c1, c2 = o["wcs1"].cd()

        def world(m11, m12, m21, m22, k1, k2, px, py):
            return (m11 * (px + 1 - k1) + m12 * (py + 1 - k2), m21 * (px + 1 - k1) + m22 * (py + 1 - k2))

        before = world(cd11, cd12, cd21, cd22, v["CRPIX1"], v["CRPIX2"], x, y)
        after = world(a11, a12, a21, a22, c1, c2, x, z3.ToReal(I(H)) - 1 - y)
        w.claim("sky-position-unchanged", z3.And(before[0] == after[0], before[1] == after[1]), probe=lambda ro, val: ro["world_equal"],
                what="world coordinates of pixel (x, y) before the flip differ from those of (x, H-1-y) after it")
        if self.kind == "image":
            r = w.int("r", 0)
            c = w.int("c", 0, 2)
            w.assume(r < H)
            w.claim_eq("rows-reversed", o["arr1"].get((r, c)), o["arr"].get((I(H) - 1 - I(r), c)), probe=("arr1", (r, c)),
                       ref=lambda ro, val: ro["arr"][int(ro["H"]) - 1 - int(val(r)), int(val(c))], what="pixel rows not reversed by flip_parity")
            yy = z3.If(s0 == 1, I(H) - 1 - I(r), I(r)) if False else (I(H) - 1 - I(r) if s0 == 1 else I(r))
            w.claim_eq("ensure-rows", o["arr_e1"].get((r, c)), o["arr"].get((yy, c)), probe=("arr_e1", (r, c)),
                       what="ensure_negative_parity must reverse the rows exactly when the parity was positive")
        w.claim("ensure-yields-minus-one", o["sign_e1"] == -1 and o["sign_e2"] == -1, probe=lambda ro, val: ro["sign_e1"] == -1 and ro["sign_e2"] == -1,
                what="ensure_negative_parity does not yield parity -1")
        w.claim("ensure-idempotent", o["same_wcs"] and o["same_arr"], probe=lambda ro, val: ro["same_wcs"] and ro["same_arr"],
                what="a second ensure_negative_parity changed the image again")
        e11, e12, e21, e22, ec1, ec2 = o["wcs_e1"].cd()
        ye = (z3.ToReal(I(H)) - 1 - y) if s0 == 1 else y
        aft2 = world(e11, e12, e21, e22, ec1, ec2, x, ye)
        w.claim("ensure-keeps-sky-position", z3.And(before[0] == aft2[0], before[1] == aft2[1]), probe=lambda ro, val: ro["world_equal_ensure"],
                what="ensure_negative_parity moved a pixel on the sky")
        w.claim("ensure-flip-ensure-yields-minus-one", o["sign_h1"] == 1 and o["sign_h2"] == -1, probe=lambda ro, val: ro["sign_h1"] == 1 and ro["sign_h2"] == -1,
                what="on one object: ensure_negative_parity, flip_parity (parity must now be +1), ensure_negative_parity must end with parity -1")
        h11, h12, h21, h22, hc1, hc2 = o["wcs_h"].cd()
        aft3 = world(h11, h12, h21, h22, hc1, hc2, x, ye)
        w.claim("ensure-flip-ensure-keeps-sky-position", z3.And(before[0] == aft3[0], before[1] == aft3[1]), probe=lambda ro, val: ro["world_equal_history"],
                what="ensure / flip / ensure on one object moved a pixel on the sky")
        if self.kind == "image":
            w.claim_eq("ensure-flip-ensure-rows", o["arr_h"].get((r, c)), o["arr"].get((yy, c)), probe=("arr_h", (r, c)),
                       what="ensure / flip / ensure on one object must leave the rows as after the first ensure")


def cases(tier):
    return [Flip("image"), Flip("description")]


def check(run):
    run.uses(core_u(ti, "_wcs_to_parity_sign"), core_u(ti, "_flip_wcs_parity"), ti.Image.get_parity_sign, ti.Image.flip_parity, ti.Image.ensure_negative_parity,
             ti.ImageDescription.get_parity_sign, ti.ImageDescription.flip_parity, ti.ImageDescription.ensure_negative_parity)
    run.bound(wcs="symbolic real CDELT1/2, PC1_1..PC2_2 (off-diagonals present or absent), CRPIX1/2, det != 0 — any rotation, scale, skew, reference pixel, both starting parities",
              height="symbolic 1..4096", pixel="symbolic real (x, y)", identity="polynomial identity over the reals (QF_NRA), no bound on the coefficients")
    run.assume("astropy's header <-> WCS correspondence for linear celestial WCS is modelled by a header stand-in (CD headers re-expressed as CDELT=1, PC=CD as wcslib does); "
               "the stand-in is validated on every run by executing the same scenario with a genuine astropy.wcs.WCS on solver-chosen numbers (conformance obligations)",
               "sky position = intermediate world coordinates CD.(p - CRPIX) (the celestial projection applied afterwards is the same function before and after)")
    run.outside("non-linear distortion terms (SIP/TPV)", "float rounding")
    e2.run_cases_parallel(run, __name__)
