"""CrossHair conditions for C10: the lock path of PyramidIO.update_image."""
import filelock
import toasty.pyramid as tp
from toasty.image import ImageMode
from toasty.pyramid import Pos, PyramidIO

FORMATS = [None, "png", "npy", "fits", "jpg"]
SCHEMES = ["L/Y/YX", "LXY"]


def _run(pos, fmt, default_format, scheme):
    log = []

    class RecLock:
        def __init__(self, path, *a, **k):
            self.path = path

        def acquire(self, timeout=None, poll_interval=0.05, **k):
            log.append(("acquire", self.path))
            return self

        def release(self, force=False):
            log.append(("release", self.path))

        def __enter__(self):
            return self.acquire()

        def __exit__(self, *a):
            self.release()
            return False

    class RecPio(PyramidIO):
        def read_image(self, pos, default="none", masked_mode=None, format=None):
            log.append(("read", format))
            return "IMG"

        def write_image(self, pos, image, format=None, mode=None, min_value=None, max_value=None):
            log.append(("write", format, image))

    saved = (filelock.SoftFileLock, tp.os.makedirs)
    filelock.SoftFileLock = RecLock
    tp.os.makedirs = lambda *a, **k: None
    try:
        pio = RecPio("/base", scheme=scheme, default_format=default_format)
        with pio.update_image(pos, masked_mode=ImageMode.F32, default="masked", format=fmt) as img:
            log.append(("body", img))
        base = pio.tile_path(pos, makedirs=False)
    finally:
        filelock.SoftFileLock, tp.os.makedirs = saved
    return log, base


def chk_lock_path_is_function_of_pos(n: int, x: int, y: int, f: int, d: int, s: int) -> bool:
    """
    Whatever format argument an updater passes, it takes the lock <default-format tile path> + ".lock".

    pre: 0 <= n <= 2 and 0 <= x < 2**n and 0 <= y < 2**n
    pre: 0 <= f < 5 and 1 <= d < 5 and 0 <= s < 2
    post: _
    """
    log, base = _run(Pos(n, x, y), FORMATS[f], FORMATS[d], SCHEMES[s])
    locks = [e[1] for e in log if e[0] == "acquire"]
    return locks == [base + ".lock"] and [e[1] for e in log if e[0] == "release"] == locks


def chk_distinct_tiles_distinct_locks(n: int, x: int, y: int, m: int, u: int, v: int, s: int) -> bool:
    """
    pre: 0 <= n <= 2 and 0 <= x < 2**n and 0 <= y < 2**n
    pre: 0 <= m <= 2 and 0 <= u < 2**m and 0 <= v < 2**m
    pre: 0 <= s < 2
    post: _
    """
    a, _ = _run(Pos(n, x, y), None, "fits", SCHEMES[s])
    b, _ = _run(Pos(m, u, v), None, "fits", SCHEMES[s])
    la = [e[1] for e in a if e[0] == "acquire"][0]
    lb = [e[1] for e in b if e[0] == "acquire"][0]
    return (la == lb) == ((n, x, y) == (m, u, v))


def chk_update_order(f: int, d: int) -> bool:
    """
    acquire, read, body, write, release — in that order, read and write in the same effective format, writing the
    very image object that was handed to the caller.

    pre: 0 <= f < 5 and 1 <= d < 5
    post: _
    """
    log, base = _run(Pos(1, 1, 0), FORMATS[f], FORMATS[d], "L/Y/YX")
    kinds = [e[0] for e in log]
    eff = FORMATS[f] or FORMATS[d]
    return (kinds == ["acquire", "read", "body", "write", "release"] and log[1][1] == eff and log[3][1] == eff and log[3][2] == "IMG" and log[2][1] == "IMG")
