"""CrossHair conditions for C20: per-file HDU / WCS-key selection. Real SimpleFitsCollection._scan_hdus / _load /
export_simple / descriptions / images, real collection.load and CollectionLoader.create_from_args; astropy's
fits.open replaced by a fake HDU list that accepts only what astropy accepts as an index (int / str / tuple), WCS
replaced by a recorder of (header, key)."""
from typing import List

import numpy as np
import astropy.io.fits as afits
import astropy.wcs as awcs
import toasty.collection as tc
from toasty.collection import CollectionLoader, SimpleFitsCollection

KEYS = [" ", "A", "B"]


class FakeTable:
    """Stands for astropy.io.fits.hdu.table.BinTableHDU (type identity is what the code tests)."""

    def __init__(self, fileno, i):
        self.fileno, self.i = fileno, i
        self.shape = (3, 2)          # tables do have a 2-D 'shape'
        self.header = {}


class FakeHDU:
    def __init__(self, fileno, i, kind):
        self.fileno, self.i, self.kind = fileno, i, kind
        if kind == 0:                # primary HDU without data
            self.shape = ()
        elif kind == 3:              # 1-D data
            self.shape = (5,)
        else:                        # 2-D image; shape encodes (file, hdu) so that mix-ups are visible
            self.shape = (2 + fileno, 3 + i)
        self.dtype = np.dtype("float32")
        self.header = {"HDUID": (fileno, i)}
        for k in KEYS:
            self.header["CTYPE1" + k] = "RA---TAN"
            self.header["CTYPE2" + k] = "DEC--TAN"

    @property
    def data(self):
        return np.full(self.shape, float(10 * self.fileno + self.i), dtype=np.float32)


class FakeHDUL:
    def __init__(self, fileno, kinds):
        self.h = [FakeTable(fileno, i) if k == 2 else FakeHDU(fileno, i, k) for i, k in enumerate(kinds)]

    def __enter__(self):
        return self

    def __exit__(self, *a):
        return False

    def __getitem__(self, k):
        if isinstance(k, bool) or not isinstance(k, (int, str, tuple)):
            raise KeyError("astropy: illegal HDU key %r" % (k,))
        if isinstance(k, int):
            return self.h[k]
        raise KeyError(k)

    def __iter__(self):
        return iter(self.h)

    def __len__(self):
        return len(self.h)


class FakeWCS:
    naxis = 2
    has_celestial = True

    def __init__(self, header=None, key=" "):
        self.header, self.key = header, key
        self.wcs = type("W", (), {})()
        self.wcs.alt = key


class _Env:
    def __init__(self, kinds_per_file):
        self.kinds = kinds_per_file

    def __enter__(self):
        self.saved = (afits.open, awcs.WCS, afits.hdu.table.BinTableHDU)
        kinds = self.kinds

        def fopen(path, *a, **k):
            n = int(path[1:path.index(".")])
            return FakeHDUL(n, kinds[n])

        afits.open = fopen
        awcs.WCS = FakeWCS
        afits.hdu.table.BinTableHDU = FakeTable
        return self

    def __exit__(self, *a):
        afits.open, awcs.WCS, afits.hdu.table.BinTableHDU = self.saved
        return False


def _paths(n):
    return ["p%d.fits" % i for i in range(n)]


def _want_idx(k, scalar, s, idxs, kinds):
    if scalar == 0:
        return s
    if scalar == 1:
        return idxs[k]
    for i, kd in enumerate(kinds[k]):
        if kd == 1:
            return i
    return None


def _scan(nfiles, idxs, mode, s, kmode, ks, kidx):
    paths = _paths(nfiles)
    kinds = [[1, 1, 1] for _ in range(nfiles)]
    hsel = s if mode == 0 else (list(idxs) if mode == 1 else None)
    ksel = KEYS[ks] if kmode == 0 else ([KEYS[i] for i in kidx] if kmode == 1 else None)
    coll = SimpleFitsCollection(paths, hdu_index=hsel, wcs_key=ksel)
    with _Env(kinds):
        out = list(coll._scan_hdus())
        simple = coll.export_simple()
    ok = len(out) == nfiles and len(simple) == nfiles
    for k, (p, hi, hdu, key) in enumerate(out):
        want = _want_idx(k, mode, s, idxs, kinds)
        wkey = KEYS[ks] if kmode == 0 else (KEYS[kidx[k]] if kmode == 1 else " ")
        ok = ok and p == paths[k] and hi == want and (hdu.fileno, hdu.i) == (k, want) and key == wkey
        ok = ok and simple[k] == (paths[k], want)
    return ok


def chk_scan_scalar_or_none(nfiles: int, mode: int, s: int, kmode: int, ks: int) -> bool:
    """
    Item k comes from HDU scalar | first image HDU with key scalar | default, for every file (mode/kmode: 0 scalar, 2 None).

    pre: 1 <= nfiles <= 3
    pre: 0 <= s < 3 and 0 <= ks < 3
    pre: mode in (0, 2) and kmode in (0, 2)
    post: _
    """
    return _scan(nfiles, [0] * nfiles, mode, s, kmode, ks, [0] * nfiles)


def chk_scan_list_index_3files(i0: int, i1: int, i2: int, kmode: int, ks: int) -> bool:
    """
    Per-file HDU list over three files, scalar or default key.

    pre: 0 <= i0 < 3 and 0 <= i1 < 3 and 0 <= i2 < 3
    pre: 0 <= ks < 3 and kmode in (0, 2)
    post: _
    """
    return _scan(3, [i0, i1, i2], 1, 0, kmode, ks, [0, 0, 0])


def chk_scan_list_key_3files(k0: int, k1: int, k2: int, mode: int, s: int) -> bool:
    """
    Per-file WCS key list over three files, scalar or default HDU index.

    pre: 0 <= k0 < 3 and 0 <= k1 < 3 and 0 <= k2 < 3
    pre: 0 <= s < 3 and mode in (0, 2)
    post: _
    """
    return _scan(3, [0, 0, 0], mode, s, 1, 0, [k0, k1, k2])


def chk_scan_list_both_2files(i0: int, i1: int, k0: int, k1: int) -> bool:
    """
    pre: 0 <= i0 < 3 and 0 <= i1 < 3 and 0 <= k0 < 3 and 0 <= k1 < 3
    post: _
    """
    return _scan(2, [i0, i1], 1, 0, 1, 0, [k0, k1])


def chk_scan_list_single_file(i0: int, k0: int) -> bool:
    """
    A one-element list is a per-file list, not a scalar.

    pre: 0 <= i0 < 3 and 0 <= k0 < 3
    post: _
    """
    return _scan(1, [i0], 1, 0, 1, 0, [k0])


def chk_first_image_hdu(k0: int, k1: int, k2: int, k3: int) -> bool:
    """
    No selection: the first HDU holding image data (2-D, not a table) is used; kinds symbolic
    (0 data-less primary, 1 image, 2 binary table, 3 one-dimensional data).

    pre: 0 <= k0 <= 3 and 0 <= k1 <= 3 and 0 <= k2 <= 3 and 0 <= k3 <= 3
    pre: k0 == 1 or k1 == 1 or k2 == 1 or k3 == 1
    post: _
    """
    kinds = [[k0, k1, k2, k3]]
    coll = SimpleFitsCollection(_paths(1))
    with _Env(kinds):
        out = list(coll._scan_hdus())
    want = [k0, k1, k2, k3].index(1)
    return len(out) == 1 and out[0][1] == want and out[0][2].i == want and out[0][3] == " "


def _agree(nfiles, idxs, mode, s, kmode, ks, kidx):
    paths = _paths(nfiles)
    kinds = [[1, 1, 1] for _ in range(nfiles)]
    hsel = s if mode == 0 else (list(idxs) if mode == 1 else None)
    ksel = KEYS[ks] if kmode == 0 else [KEYS[i] for i in kidx]
    with _Env(kinds):
        coll = tc.load(paths, hdu_index=hsel, wcs_key=ksel)
        descs = list(coll.descriptions())
        imgs = list(coll.images())
    ok = len(descs) == nfiles and len(imgs) == nfiles
    for k in range(nfiles):
        want = _want_idx(k, mode, s, idxs, kinds)
        wkey = KEYS[ks] if kmode == 0 else KEYS[kidx[k]]
        d, im = descs[k], imgs[k]
        ok = ok and d.collection_id == paths[k] and im.collection_id == paths[k]
        ok = ok and d.wcs.header["HDUID"] == (k, want) and im.wcs.header["HDUID"] == (k, want)
        ok = ok and d.wcs.key == wkey and im.wcs.key == wkey
        ok = ok and tuple(d.shape) == (2 + k, 3 + want) and tuple(im.shape) == tuple(d.shape)
        ok = ok and float(im.asarray()[0, 0]) == float(10 * k + want)
    return ok


def chk_agree_list_index_3files(i0: int, i1: int, i2: int) -> bool:
    """
    descriptions() and images() refer to the same HDUs, in input order, with identical shapes and WCS (header, key).

    pre: 0 <= i0 < 3 and 0 <= i1 < 3 and 0 <= i2 < 3
    post: _
    """
    return _agree(3, [i0, i1, i2], 1, 0, 0, 1, [0, 0, 0])


def chk_agree_list_index_4files(i0: int, i1: int, i2: int, i3: int, ks: int) -> bool:
    """
    Thorough: four files, per-file list, symbolic scalar key.

    pre: 0 <= i0 < 3 and 0 <= i1 < 3 and 0 <= i2 < 3 and 0 <= i3 < 3 and 0 <= ks < 3
    post: _
    """
    return _agree(4, [i0, i1, i2, i3], 1, 0, 0, ks, [0, 0, 0, 0])


def chk_scan_list_both_3files(i0: int, i1: int, i2: int, k0: int, k1: int, k2: int) -> bool:
    """
    Thorough: three files, per-file index list and per-file key list.

    pre: 0 <= i0 < 3 and 0 <= i1 < 3 and 0 <= i2 < 3 and 0 <= k0 < 3 and 0 <= k1 < 3 and 0 <= k2 < 3
    post: _
    """
    return _scan(3, [i0, i1, i2], 1, 0, 1, 0, [k0, k1, k2])


def chk_agree_list_both_2files(i0: int, i1: int, k0: int, k1: int) -> bool:
    """
    pre: 0 <= i0 < 3 and 0 <= i1 < 3 and 0 <= k0 < 3 and 0 <= k1 < 3
    post: _
    """
    return _agree(2, [i0, i1], 1, 0, 1, 0, [k0, k1])


def chk_agree_scalar_or_none(nfiles: int, mode: int, s: int, ks: int) -> bool:
    """
    pre: 1 <= nfiles <= 3 and 0 <= s < 3 and 0 <= ks < 3 and mode in (0, 2)
    post: _
    """
    return _agree(nfiles, [0] * nfiles, mode, s, 0, ks, [0] * nfiles)


def _repeated(fs, idxs, kidx, use_keys):
    """The same file may be listed several times (fs[k] = which file stands at position k); the per-file lists are
    positional, so position k uses idxs[k] / keys[kidx[k]] whatever file stands there."""
    names = _paths(3)
    paths = [names[f] for f in fs]
    n = len(paths)
    kinds = [[1, 1, 1] for _ in range(3)]
    ksel = [KEYS[i] for i in kidx] if use_keys else None
    with _Env(kinds):
        coll = tc.load(paths, hdu_index=list(idxs), wcs_key=ksel)
        scan = list(coll._scan_hdus())
        simple = coll.export_simple()
        descs = list(coll.descriptions())
        imgs = list(coll.images())
    ok = len(scan) == n and len(simple) == n and len(descs) == n and len(imgs) == n
    for k in range(n):
        f, want = fs[k], idxs[k]
        wkey = KEYS[kidx[k]] if use_keys else " "
        p, hi, hdu, key = scan[k]
        ok = ok and p == paths[k] and hi == want and (hdu.fileno, hdu.i) == (f, want) and key == wkey
        ok = ok and simple[k] == (paths[k], want)
        d, im = descs[k], imgs[k]
        ok = ok and d.wcs.header["HDUID"] == (f, want) and im.wcs.header["HDUID"] == (f, want)
        ok = ok and d.wcs.key == wkey and im.wcs.key == wkey
        ok = ok and tuple(d.shape) == (2 + f, 3 + want) and tuple(im.shape) == tuple(d.shape)
    return ok


def chk_repeated_paths_index(f1: int, f2: int, i0: int, i1: int, i2: int) -> bool:
    """
    A file listed more than once (positions 1 and 2 are file 0 again or file 1): every POSITION gets its own entry of
    the per-file HDU list.

    pre: 0 <= f1 < 2 and 0 <= f2 < 2
    pre: 0 <= i0 < 3 and 0 <= i1 < 3 and 0 <= i2 < 3
    post: _
    """
    return _repeated([0, f1, f2], [i0, i1, i2], [0, 0, 0], False)


def chk_repeated_paths_index_and_key(f1: int, i0: int, i1: int, k0: int, k1: int) -> bool:
    """
    Two positions (possibly the same file), per-file HDU list and per-file key list.

    pre: 0 <= f1 < 2
    pre: 0 <= i0 < 3 and 0 <= i1 < 3 and 0 <= k0 < 3 and 0 <= k1 < 3
    post: _
    """
    return _repeated([0, f1], [i0, i1], [k0, k1], True)


def chk_load_single_path(s: int) -> bool:
    """
    pre: 0 <= s < 3
    post: _
    """
    with _Env([[1, 1, 1]]):
        coll = tc.load("p0.fits", hdu_index=s)
        out = coll.export_simple()
    return out == [("p0.fits", s)]


class _Settings:
    def __init__(self, hdu_index, wcs_key):
        self.hdu_index = hdu_index
        self.wcs_key = wcs_key
        self.blankval = None


def chk_cli_hdu_index(a: int, b: int, c: int, n: int) -> bool:
    """
    "--hdu-index 2" -> scalar 2; "--hdu-index 2,1" -> [2, 1] (per-file).

    pre: 0 <= a <= 12 and 0 <= b <= 3 and 0 <= c <= 2
    pre: 1 <= n <= 3
    post: _
    """
    vals = [a, b, c][:n]
    text = ",".join(str(v) for v in vals)
    loader = CollectionLoader.create_from_args(_Settings(text, None))
    if n == 1:
        return loader.hdu_index == a and isinstance(loader.hdu_index, int) and loader.wcs_key is None
    return loader.hdu_index == vals


def chk_cli_wcs_key(a: int, b: int, n: int) -> bool:
    """
    pre: 0 <= a < 3 and 0 <= b < 3 and 1 <= n <= 2
    post: _
    """
    keys = [KEYS[a], KEYS[b]][:n]
    loader = CollectionLoader.create_from_args(_Settings(None, ",".join(keys)))
    if n == 1:
        return loader.wcs_key == keys[0] and loader.hdu_index is None
    return loader.wcs_key == keys


def chk_cli_end_to_end(a: int, b: int, n: int, kk: int) -> bool:
    """
    CLI text -> loader -> collection -> the HDUs actually opened.

    pre: 0 <= a < 3 and 0 <= b < 3 and 1 <= n <= 2 and 0 <= kk < 3
    post: _
    """
    vals = [a, b][:n]
    loader = CollectionLoader.create_from_args(_Settings(",".join(str(v) for v in vals), KEYS[kk]))
    paths = _paths(2)
    with _Env([[1, 1, 1], [1, 1, 1]]):
        coll = loader.load_paths(paths)
        out = list(coll._scan_hdus())
    want = [a, a] if n == 1 else [a, b]
    return [(p, hi, h.i, key) for p, hi, h, key in out] == [(paths[k], want[k], want[k], KEYS[kk]) for k in range(2)]


def explain(func, call):
    """Classify a reproduced counterexample by what the real code does on it (signature = call site + input class)."""
    try:
        eval(call, globals())
    except KeyError as e:
        if "illegal HDU key [" in str(e):
            return ("collection.py:_scan_hdus:list-branch-indexes-file-with-whole-list",
                    "SimpleFitsCollection._scan_hdus with a per-file hdu_index list indexes the HDU list with the whole list (hdul[self._hdu_index]); astropy raises KeyError")
    except Exception:
        pass
    return None
