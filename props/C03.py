"""C03 — parallel stages hand every work item to exactly one worker and then terminate (E3: BMC, z3 QF_BV).

For each of the four producer/worker stages the producer's script of primitive operations and the worker's reaction
table are EXTRACTED from the real functions on every run (recording fakes / scripted responses), composed with the
trusted model of multiprocessing.Queue / Event / Process, and z3 decides for ALL schedules (the acting process at each
step is a solver variable; complete step bound):
  never-returns-early   the entry point's return is preceded by every item's completed callback and every worker's exit
  exactly-once          every item's callback runs exactly once
  no-deadlock           no reachable state without an enabled transition other than the good terminal state
  terminates            after the complete bound the system is in the good terminal state and nothing is enabled
plus, outside the solver's bound, the real producer enqueues exactly the serial item set (real serial vs recorded
parallel run).  A counterexample schedule is replayed on the REAL entry point and REAL workers under a deterministic
thread scheduler before it is reported.
"""
import time

import z3

from vlib import bmc, mpmodel
from vlib.core import HarnessError, func_id
from props.stages import STAGES

WORKERS = {"quick": [2], "thorough": [2, 3]}


def producer_script(stage, n_items, n_workers):
    seen = []
    rec = mpmodel.extract_producer(lambda: stage.run_entry(n_items, n_workers, lambda k: seen.append(k)))
    if seen:
        raise HarnessError("%s: the producer processed items itself in parallel mode" % stage.name)
    if rec.raised is not None:
        # an exception during a fault-free extraction run is a limitation of the recording fakes (or a crash of the
        # entry point): either way the extracted script is not the code's behaviour — fail closed, never report it
        raise HarnessError("%s: the entry point raised during extraction against the recording fakes: %s" % (stage.name, rec.raised))
    script = [op for op in rec.ops if op[0] != "is_set"]
    return script, rec


def worker_table(stage, sample_message=None):
    mk = getattr(stage, "make_item", None)
    if mk is None and sample_message is not None:
        # probe the real worker with a message the REAL producer enqueued (the wire format is the code's business)
        mk = lambda k, hook: sample_message
    table = mpmodel.infer_worker(stage.call_worker, make_item=mk)
    table["on_raise"] = mpmodel.infer_fault_reaction(stage.call_worker, make_item=mk)
    return table


def items_of_messages(stage, msgs):
    """Work items the enqueued messages stand for: what the REAL worker calls back for each message. Stages whose items
    carry their own hook (fake images) are keyed directly."""
    if getattr(stage, "make_item", None) is not None:
        return [stage.message_key(m) for m in msgs]
    out = []
    for m in msgs:
        out += [stage.item_key(a) for a in mpmodel.worker_callbacks_for(stage.call_worker, m)]
    return out


def schedule_of(trace):
    """BMC trace (labels) -> list of actor names for the deterministic scheduler."""
    out = []
    for label, actor in trace:
        head = label.split()[0]
        if actor == "main":
            if head in ("start", "put", "close", "join_thread", "set", "join"):
                out.append("main")
        elif actor == "feeder":
            out.append("feeder:main:q0")
        else:
            if head in ("get", "cb_start", "cb_end", "cb_raise", "timeout", "timeout-exit", "timeout-retry", "flagcheck-exit", "flagcheck-retry", "readflag"):
                out.append(actor)
    return out


def replay_trace(stage, n_items, n_workers, trace, fault_key=None):
    """Run the real entry point and real workers under the schedule. Returns the observation."""
    calls = []

    def entry(S):
        def on_item(k):
            S.op("cb_start")
            if fault_key is not None and k == fault_key:
                S.op("cb_end")
                raise RuntimeError("injected failure while processing %r" % (k,))
            S.op("cb_end")
            calls.append(k)

        stage.run_entry(n_items, n_workers, on_item)

    res = mpmodel.replay(entry, schedule_of(trace), snapshot=lambda: list(calls))
    res["calls"] = calls
    return res


def reoffer_replay(stage_name, n_items, n_workers, n_main_steps):
    """Directed schedule on the real entry point and workers: the producer runs alone until its bounded queue is full
    and one more put() times out (queue.Full), then everybody runs to completion.  -> observation + missing items."""
    stage = [s for s in STAGES if s.name == stage_name][0]
    serial = []
    stage.run_serial(n_items, lambda k: serial.append(k))
    calls = []

    def entry(S):
        def on_item(k):
            S.op("cb_start")
            S.op("cb_end")
            calls.append(k)
        stage.run_entry(n_items, n_workers, on_item)

    res = mpmodel.replay(entry, ["main"] * n_main_steps, snapshot=lambda: list(calls))
    res["calls"] = calls
    res["missing"] = [k for k in serial if k not in res.get("at_return", calls)]
    return res


def check_reoffer(run, stage, n_workers):
    """A producer that gives put() a time-out must offer the same item again after queue.Full (extracted by running the
    real entry point against a queue that raises Full once); a dropped item is confirmed with a directed schedule."""
    name = "%s[W=%d].re-offers-after-full" % (stage.name, n_workers)
    small = stage.item_counts["quick"][0]
    base = mpmodel.extract_producer(lambda: stage.run_entry(small, n_workers, lambda k: None))
    if not getattr(base, "put_timeouts", None):
        run.ob(name, "confirmed", "E3:extraction", "put() is blocking (no time-out): there is no queue.Full path")
        return
    rec = mpmodel.Recorder()
    rec.exitcode_value, rec.alive_value = 0, True
    rec.full_at = {1}
    rec.raised = None
    fake = mpmodel.recording_mp(rec)
    with mpmodel.patched_mp(fake):
        try:
            stage.run_entry(small, n_workers, lambda k: None)
        except mpmodel.Stop:
            pass
        except Exception as e:
            rec.raised = "%s: %s" % (type(e).__name__, e)
    want = sorted(repr(stage.message_key(op[2])) for op in base.ops if op[0] == "put")
    got = sorted(repr(stage.message_key(op[2])) for op in rec.ops if op[0] == "put")
    if got == want and rec.raised is None:
        run.ob(name, "confirmed", "E3:extraction", "after a queue.Full on its first put() the producer still enqueues exactly the %d items (the item is offered again)" % len(want))
        return
    maxsize = mpmodel.script_maxsize([op for op in base.ops])
    sizes = sorted(set(stage.item_counts["quick"] + stage.item_counts["thorough"] + [7, 21, 85]))
    n_items = None
    for n in sizes:
        if n > maxsize:
            try:
                producer_script(stage, n, n_workers)
                n_items = n
                break
            except Exception:
                continue
    if n_items is None:
        run.ob(name, "inconclusive", "E3:extraction", "after queue.Full the producer enqueues %s instead of %s, but the stage cannot be run with more than %d items to confirm it" % (got, want, maxsize))
        return
    n_main = n_workers + maxsize + 1
    obs = reoffer_replay(stage.name, n_items, n_workers, n_main)
    run.replays += 1
    if obs.get("returned") and obs["missing"]:
        text = ("# the producer alone until the bounded queue is full and one put() times out, then free run - on the real %s\nimport sys\nsys.path.insert(0, %r)\nimport props.C03 as P\n"
                "obs = P.reoffer_replay(%r, %d, %d, %d)\nprint(obs.get('returned'), obs.get('raised'), 'missing', obs['missing'])\nsys.exit(1 if (obs.get('returned') and obs['missing']) else 0)\n"
                ) % (stage.name, str(__import__("vlib.core").core.VERIF), stage.name, n_items, n_workers, n_main)
        run.violation(name, "%s:item-dropped-after-put-timeout" % stage.name,
                      "%s(parallel=%d) with %d items on a queue of %d: after a put() time-out (queue.Full) the producer does not offer the item again; the real entry point returns normally with %d item(s) never processed: %r" % (
                          stage.name, n_workers, n_items, maxsize, len(obs["missing"]), obs["missing"][:3]), text, "E3:extraction+detsched")
    else:
        run.error(name, "extraction says an item is dropped after queue.Full (%s vs %s) but the directed schedule on the real code gives returned=%s raised=%s missing=%r" % (
            got, want, obs.get("returned"), obs.get("raised"), obs.get("missing")))


def check_many_items(run, stage, n_workers):
    """Extraction only (no schedule model), with MANY items: the work items the producer's messages stand for — as the
    messages are when put() is called, and as they are when the producer has finished (a real Queue pickles a message
    in its feeder thread at some moment in between) — are the serial item set, once each."""
    n = stage.extract_count
    name = "%s[I=%d,W=%d].items-equal-serial" % (stage.name, n, n_workers)
    script, rec = producer_script(stage, n, n_workers)
    puts = [op for op in script if op[0] == "put"]
    serial = []
    stage.run_serial(n, lambda k: serial.append(k))
    key = lambda items: sorted(map(repr, items))
    late = items_of_messages(stage, [op[2] for op in puts])
    early = items_of_messages(stage, [op[3] if len(op) > 3 else op[2] for op in puts])
    if key(early) == key(serial) and key(late) == key(serial):
        run.ob(name, "confirmed", "E3:extraction", "%d message(s) for %d items: expanded by the real worker they are exactly the serial item set, once each, both as put and as left when the producer finished" % (len(puts), len(serial)))
        return
    if key(early) == key(serial):
        # the producer keeps modifying a message after put(): what a worker receives depends on when the feeder pickles it
        maxsize = mpmodel.script_maxsize(script) or len(puts)
        obs = reoffer_replay(stage.name, n, n_workers, n_workers + min(len(puts), maxsize) + 1)
        run.replays += 1
        if obs.get("returned") and obs["missing"]:
            text = ("# the producer runs ahead of its queue's feeder thread (which pickles each message when it gets to it), then everybody runs freely - on the real %s\nimport sys\nsys.path.insert(0, %r)\nimport props.C03 as P\n"
                    "obs = P.reoffer_replay(%r, %d, %d, %d)\nprint(obs.get('returned'), 'missing', len(obs['missing']))\nsys.exit(1 if (obs.get('returned') and obs['missing']) else 0)\n"
                    ) % (stage.name, str(__import__("vlib.core").core.VERIF), stage.name, n, n_workers, n_workers + min(len(puts), maxsize) + 1)
            run.violation(name, "%s:message-mutated-after-put" % stage.name,
                          "%s(parallel=%d) with %d items: the producer modifies a message after put() (as put: the serial items; when the producer has finished: %d of them); with the producer running ahead of the feeder thread the real entry point returns normally with %d item(s) never processed" % (
                              stage.name, n_workers, n, len(set(map(repr, late)) & set(map(repr, serial))), len(obs["missing"])), text, "E3:extraction+detsched")
        else:
            run.error(name, "messages are modified after put() (%d/%d items left) but the directed schedule on the real code shows nothing missing: %r" % (len(late), len(serial), {k: obs.get(k) for k in ("returned", "raised", "missing")}))
        return
    run.violation(name, "%s:item-set-differs-from-serial" % stage.name, "%s with %d items enqueues %d work items (%d distinct) but serial mode processes %d" % (stage.name, n, len(early), len(set(map(repr, early))), len(serial)),
                  ("# the items the real parallel producer enqueues (expanded by the real worker) vs the items the real serial path processes\nimport sys\nsys.path.insert(0, %r)\n"
                   "import props.C03 as P\nfrom props.stages import STAGES\nst = [s for s in STAGES if s.name == %r][0]\n"
                   "script, rec = P.producer_script(st, %d, %d)\npar = P.items_of_messages(st, [op[3] if len(op) > 3 else op[2] for op in script if op[0] == 'put'])\nserial = []\nst.run_serial(%d, lambda k: serial.append(k))\n"
                   "print(len(par), len(serial))\nsys.exit(1 if sorted(map(repr, par)) != sorted(map(repr, serial)) else 0)\n") % (str(__import__("vlib.core").core.VERIF), stage.name, n, n_workers, n), "E3:extraction")


def job_many(run, stage_name, n_workers):
    check_many_items(run, [s for s in STAGES if s.name == stage_name][0], n_workers)


def job_reoffer(run, stage_name, n_workers):
    check_reoffer(run, [s for s in STAGES if s.name == stage_name][0], n_workers)


def job_stage(run, stage_name, n_items, n_workers):
    stage = [s for s in STAGES if s.name == stage_name][0]
    check_stage(run, stage, n_items, n_workers, run.tier)


def check_stage(run, stage, n_items, n_workers, tier):
    name = "%s[I=%d,W=%d]" % (stage.name, n_items, n_workers)
    t0 = time.time()
    script, rec = producer_script(stage, n_items, n_workers)
    puts = [op for op in script if op[0] == "put"]
    # item set = serial item set
    serial = []
    stage.run_serial(n_items, lambda k: serial.append(k))
    par_items = items_of_messages(stage, [op[2] for op in puts])
    if sorted(map(repr, par_items)) != sorted(map(repr, serial)) or len(set(map(repr, par_items))) != len(par_items):
        run.violation("%s.items-equal-serial" % name, "%s:item-set-differs-from-serial" % stage.name,
                      "%s enqueues %r but serial mode processes %r" % (stage.name, par_items, serial),
                      ("# the items the real parallel producer enqueues (expanded by the real worker) vs the items the real serial path processes\nimport sys\nsys.path.insert(0, %r)\n"
                       "import props.C03 as P\nfrom props.stages import STAGES\nst = [s for s in STAGES if s.name == %r][0]\n"
                       "script, rec = P.producer_script(st, %d, %d)\npar = P.items_of_messages(st, [op[2] for op in script if op[0] == 'put'])\nserial = []\nst.run_serial(%d, lambda k: serial.append(k))\n"
                       "print('parallel:', par)\nprint('serial:  ', serial)\nsys.exit(1 if sorted(map(repr, par)) != sorted(map(repr, serial)) else 0)\n")
                      % (str(__import__("vlib.core").core.VERIF), stage.name, n_items, n_workers, n_items), "E3:extraction")
    else:
        run.ob("%s.items-equal-serial" % name, "confirmed", "E3:extraction", "parallel producer enqueues exactly the %d serial items, once each (%d message(s), expanded by the real worker)" % (len(serial), len(puts)))
    if len(puts) != n_items:
        run.ob("%s.model" % name, "inconclusive", "E3:extraction", "the producer enqueues %d message(s) for %d item(s): a message is not one item, which the schedule model does not cover" % (len(puts), n_items))
        return
    table = worker_table(stage, puts[0][2] if puts else None)
    ts = mpmodel.stage_ts(script, table, n_workers)
    K = ts.max_steps
    U = bmc.Unrolled(ts, K)
    detail = "script=%s table=%s K=%d" % ([op[0] + ("%s" % (op[1],) if op[0] in ("start", "join", "maxsize") else "") for op in script], table, K)
    run.extra.setdefault("models", {})[name] = dict(script=[list(map(str, op[:2])) for op in script], worker_table={k: (list(v) if isinstance(v, tuple) else v) for k, v in table.items()}, steps=K,
                                                      state_bits=sum(w for w, _ in ts.vars.values()), transitions=len(ts.trans))
    queries = [
        ("never-returns-early", U.exists(lambda s: mpmodel.stage_returned_early(ts, s)),
         "the entry point returns before every item is processed and every worker has exited"),
        ("exactly-once", U.exists(lambda s: z3.Or(*[z3.UGT(s["cnt%d" % i], 1) for i in range(ts.I)])), "an item's callback runs twice"),
        ("no-deadlock", (lambda s: z3.And(z3.Not(U.enabled(s, progress_only=True)), z3.Not(mpmodel.stage_good_final(ts, s))))(U.final()),
         "the stage gets stuck (no process can make progress) before completing"),
    ]
    for qn, bad, what in queries:
        r, m, dt = U.check(bad)
        nm = "%s.%s" % (name, qn)
        if r == "unsat":
            run.ob(nm, "unsat", "E3:bmc", "all schedules, %s" % detail[:300], queries=1, solver_s=dt)
        elif r == "sat":
            trace = U.trace(m)
            obs = replay_trace(stage, n_items, n_workers, trace)
            at_ret = obs.get("at_return", obs["calls"])
            missing = n_items - len(set(map(repr, at_ret)))
            dup = len(obs["calls"]) - len(set(map(repr, obs["calls"])))
            stuck = obs["drive"][0] == "stuck" or not (obs.get("returned") or obs.get("raised"))
            not_exited = [p for p in obs.get("procs_at_return", obs["procs"]) if not p[1]]
            reproduced = (obs.get("returned") and (missing > 0 or not_exited)) or dup > 0 or (qn == "no-deadlock" and stuck)
            if reproduced:
                text = ("# schedule found by the solver, replayed on the real %s with a deterministic thread scheduler\n"
                        "import sys\nsys.path.insert(0, %r)\nimport props.C03 as P\nfrom props.stages import STAGES\n"
                        "st = [s for s in STAGES if s.name == %r][0]\nobs = P.replay_trace(st, %d, %d, %r)\nprint(obs)\n"
                        "bad = (obs.get('returned') and (len(set(map(repr, obs.get('at_return', obs['calls'])))) < %d or any(not p[1] for p in obs.get('procs_at_return', [])))) or obs['drive'][0] == 'stuck'\nsys.exit(1 if bad else 0)\n"
                        ) % (stage.name, str(__import__("vlib.core").core.VERIF), stage.name, n_items, n_workers, trace, n_items)
                run.violation(nm, "%s:%s" % (stage.name, qn),
                              "%s: %s; real run under the solver's schedule: returned=%s callbacks-at-return=%d/%d stuck=%s workers-at-return=%s" % (stage.name, what, obs.get("returned"), len(at_ret), n_items, stuck, obs.get("procs_at_return", obs["procs"])),
                              text, "E3:bmc+detsched", queries=1, solver_s=dt)
            else:
                run.error(nm, "solver schedule did not reproduce on the real code (model too coarse?): trace=%s obs=%s" % (trace[:40], {k: obs[k] for k in ("returned", "drive", "calls", "procs") if k in obs}))
        else:
            run.ob(nm, "inconclusive", "E3:bmc", "solver answered %s after %.0fs" % (r, dt), queries=1, solver_s=dt)
    # vacuity twin: the good terminal state IS reachable, and the corresponding fair schedule completes on the real code
    r, m, dt = U.check(mpmodel.stage_good_final(ts, U.final()))
    nm = "%s.twin" % name
    if r == "sat":
        obs = replay_trace(stage, n_items, n_workers, U.trace(m))
        ok = obs.get("returned") and len(obs["calls"]) == n_items and all(p[1] for p in obs["procs"])
        run.replays += 1
        if ok:
            run.ob(nm, "twin-sat", "E3:bmc+detsched", "a completing schedule exists and the REAL entry point + workers complete under it (%d callbacks)" % n_items, queries=1, solver_s=dt)
        else:
            run.error(nm, "completing model schedule does not complete on the real code: %s" % ({k: obs[k] for k in ("returned", "drive", "calls", "procs") if k in obs},))
    else:
        run.ob(nm, "inconclusive", "E3:bmc", "good terminal state not reachable in the model (%s)" % r)


def check(run):
    for st in STAGES:
        run.uses(st.entry, st.worker)
    run.bound(items="1-2 per stage (quick), up to 4-5 (thorough)", workers="2 (quick), 2 and 3 (thorough)", queue_capacity="as passed by the code (2*W / 16*W), blocking put modelled",
              schedules="ALL interleavings of producer, feeder flushes, worker receives / time-outs / callbacks / exits (complete step bound = sum of the processes' transitions)")
    run.assume("multiprocessing.Queue = bounded semaphore + per-process feeder buffer + pipe; get(timeout) can raise Empty only while the pipe is empty; close();join_thread() returns once the caller's buffer is flushed; Event atomic; Process.join returns when the process function returned",
               "the worker is the memoryless loop inferred by probing the real function with all response sequences of length <= 3 (fails closed otherwise)",
               "pipe order is not modelled (any queued item may be received next): over-approximation, sound for these properties", "weak fairness (a process that stays enabled eventually moves)")
    run.outside("the real multiprocessing implementation / OS scheduler", "more items / workers than the bound")
    stages = [s for s in STAGES if not getattr(run, "only", None) or any(o in s.name for o in run.only)]
    from vlib.core import run_parallel
    jobs = [(st.name, n_items, w) for st in stages for n_items in st.item_counts[run.tier] for w in WORKERS[run.tier]]
    run_parallel(run, __name__, "job_any", [("stage",) + j for j in jobs] + [("reoffer", st.name, 2) for st in stages] + [("many", st.name, 2) for st in stages if st.extract_count])


def job_any(run, kind, *args):
    {"stage": job_stage, "reoffer": job_reoffer, "many": job_many}[kind](run, *args)
