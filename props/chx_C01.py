"""CrossHair conditions for the preparation phase of the parallel walk (real Pyramid._walk_parallel with a one-item
fake reducer and recording multiprocessing fakes)."""
import multiprocessing as mp

import toasty.pyramid as tp
from toasty.pyramid import Pos, Pyramid, pos_children
from vlib.stubs import FakeEvent, FakeProcess, FakeQueue, FakeRiter, Stop, quiet

quiet(tp)


def _run_prep(pos, depth, is_leaf, data, parallel=2):
    pyr = Pyramid.new_generic(depth)
    qs = []

    def mkq(maxsize=0):
        q = FakeQueue(maxsize)
        qs.append(q)
        return q

    procs = []

    def mkp(target=None, args=()):
        p = FakeProcess(target=target, args=args)
        procs.append(p)
        return p

    saved = (mp.Queue, mp.Event, mp.Process)
    mp.Queue, mp.Event, mp.Process = mkq, FakeEvent, mkp
    riters = []

    def mk(default_value=None):
        r = FakeRiter([(pos, None, is_leaf, data)])
        riters.append((r, default_value))
        return r

    pyr._make_iter_reducer = mk
    stopped = False
    try:
        try:
            pyr._walk_parallel(lambda p: None, False, parallel)
        except Stop:
            stopped = True
    finally:
        mp.Queue, mp.Event, mp.Process = saved
    return qs, procs, riters, stopped


def chk_walk_prep_step(extra: int, is_leaf: bool, l0: bool, l1: bool, l2: bool, l3: bool,
                       o0: int, o1: int, o2: int, o3: int) -> bool:
    """
    One real iteration of the preparation loop: value handed upward = (live, ops) as count_operations computes it;
    the tile is put on the ready queue iff it sits one level above the leaves and is live; workers are started and the
    dispatcher enters its loop iff there is something to do.

    pre: 0 <= extra <= 2
    pre: o0 >= 0 and o1 >= 0 and o2 >= 0 and o3 >= 0
    post: _
    """
    n = 1
    pos = Pos(1, 1, 0)        # position independence of the dispatcher is established by the learned tables (props/C01.py)
    depth = n + extra
    leaf = is_leaf and extra == 0
    live = [l0, l1, l2, l3]
    ops = [o0, o1, o2, o3]
    data = [(live[i], ops[i]) for i in range(4)]
    qs, procs, riters, stopped = _run_prep(pos, depth, leaf, data)
    ready, done = qs[0], qs[1]
    rec = riters[0][0].data[-1]
    if leaf:
        want = (True, 0)
    else:
        lv = l0 or l1 or l2 or l3
        want = (lv, o0 + o1 + o2 + o3 + (1 if lv else 0))
    ok = rec == want and riters[0][1] == (False, 0) and done.maxsize == 4 and ready.maxsize == 0
    seeded = (n == depth - 1) and want[0]
    ok = ok and ready.puts == ([pos] if seeded else [])
    if want[1] == 0:
        ok = ok and not stopped and procs == []
    else:
        ok = ok and stopped and len(procs) == 2 and all(p.started and p.daemon for p in procs)
        ok = ok and all(p.target is tp._mp_walk_worker and p.args[0] is done and p.args[1] is ready for p in procs)
    return ok


def chk_walk_prep_nothing_to_do(depth: int) -> bool:
    """
    A pyramid without any live non-leaf tile: walk(parallel) returns without starting workers.

    pre: 0 <= depth <= 1
    post: _
    """
    pos = Pos(0, 0, 0)
    qs, procs, riters, stopped = _run_prep(pos, depth, depth == 0, [(False, 0)] * 4)
    return not stopped and procs == [] and qs[0].puts == []
