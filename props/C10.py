"""C10 — concurrent updates of one tile never lose a contribution (E3: BMC + E1).

The sequence of primitive steps of PyramidIO.update_image (lock acquire, read, caller's modification, write, lock
release — and WHICH lock path) is extracted by running the real context manager against recording fakes; N updaters
following that script are composed with the soft-lock model (acquire succeeds iff the lock file does not exist,
atomically; release removes it) and a tile file whose write takes two steps.  z3 decides for ALL interleavings:
  no-lost-update   the final tile holds every updater's contribution (= some sequential order of the updates)
  no-torn-read     no updater reads the tile between another updater's write-begin and write-end
  terminates       every updater finishes (no deadlock on the lock)
CrossHair: the lock path is a function of the position only (any format argument), distinct positions have distinct
lock paths.  Counterexample schedules are replayed on the real update_image with real files in a scratch directory.
"""
import os
import shutil
import tempfile
import threading
import time

import numpy as np
import z3

import filelock
import toasty.pyramid as tp
from toasty.image import Image, ImageMode
from toasty.pyramid import Pos, PyramidIO
from vlib import bmc, chx, mpmodel
from vlib.core import HarnessError

HERE = os.path.dirname(__file__)


def extract_script(fmt_arg=None, default_format="npy"):
    """Run the real update_image once; record the order of acquire / read / body / write / release and the lock path."""
    log = []

    class RecLock:
        def __init__(self, path, *a, **k):
            self.path = path

        def __enter__(self):
            log.append(("acquire", self.path))
            return self

        def __exit__(self, *a):
            log.append(("release", self.path))
            return False

    class RecPio(PyramidIO):
        def read_image(self, pos, default="none", masked_mode=None, format=None):
            log.append(("read", self.tile_path(pos, format=format, makedirs=False)))
            return "IMG"

        def write_image(self, pos, image, format=None, mode=None, min_value=None, max_value=None):
            log.append(("write", self.tile_path(pos, format=format or self._default_format, makedirs=False)))

    saved = filelock.SoftFileLock
    filelock.SoftFileLock = RecLock
    saved_mk = tp.os.makedirs
    try:
        tp.os.makedirs = lambda *a, **k: None
        pio = RecPio("/scratch-not-created", default_format=default_format)
        with pio.update_image(Pos(2, 1, 3), masked_mode=ImageMode.F32, default="masked", format=fmt_arg) as img:
            log.append(("body", img))
    finally:
        filelock.SoftFileLock = saved
        tp.os.makedirs = saved_mk
    return log


def updater_ts(scripts, split_write=True):
    """scripts[u] = list of (op, resource-id). One tile file; locks identified by path."""
    ts = bmc.TS("update")
    U = len(scripts)
    locks = sorted({r for sc in scripts for (op, r) in sc if op in ("acquire", "release")})
    files = sorted({r for sc in scripts for (op, r) in sc if op in ("read", "write")})
    for li in range(len(locks)):
        ts.var("lock%d" % li, 3, 0)
    for fi in range(len(files)):
        ts.var("file%d" % fi, U, 0)
        ts.var("torn%d" % fi, 1, 0)
    ts.var("err_torn", 1, 0)
    for u, sc in enumerate(scripts):
        ts.var("pc%d" % u, 4, 0)
        ts.var("loc%d" % u, U, 0)
        pc = 0
        for (op, r) in sc:
            at = (lambda u, pc: (lambda s: s["pc%d" % u] == pc))(u, pc)
            if op == "acquire":
                li = locks.index(r)
                ts.t("acquire u%d" % u, "u%d" % u, (lambda u, pc, li: (lambda s: z3.And(s["pc%d" % u] == pc, s["lock%d" % li] == 0)))(u, pc, li),
                     (lambda u, pc, li: (lambda s: {"pc%d" % u: bmc.bv(pc + 1, 4), "lock%d" % li: bmc.bv(u + 1, 3)}))(u, pc, li))
            elif op == "release":
                li = locks.index(r)
                ts.t("release u%d" % u, "u%d" % u, at, (lambda u, pc, li: (lambda s: {"pc%d" % u: bmc.bv(pc + 1, 4), "lock%d" % li: bmc.bv(0, 3)}))(u, pc, li))
            elif op == "read":
                fi = files.index(r)
                ts.t("read u%d" % u, "u%d" % u, at,
                     (lambda u, pc, fi: (lambda s: {"pc%d" % u: bmc.bv(pc + 1, 4), "loc%d" % u: s["file%d" % fi],
                                                    "err_torn": z3.If(s["torn%d" % fi] == 1, bmc.bv(1, 1), s["err_torn"])}))(u, pc, fi))
            elif op == "body":
                ts.t("modify u%d" % u, "u%d" % u, at, (lambda u, pc: (lambda s: {"pc%d" % u: bmc.bv(pc + 1, 4), "loc%d" % u: s["loc%d" % u] | bmc.bv(1 << u, U)}))(u, pc))
            elif op == "write":
                fi = files.index(r)
                ts.t("write_begin u%d" % u, "u%d" % u, at, (lambda u, pc, fi: (lambda s: {"pc%d" % u: bmc.bv(pc + 1, 4), "torn%d" % fi: bmc.bv(1, 1)}))(u, pc, fi))
                pc += 1
                at2 = (lambda u, pc: (lambda s: s["pc%d" % u] == pc))(u, pc)
                ts.t("write_end u%d" % u, "u%d" % u, at2,
                     (lambda u, pc, fi: (lambda s: {"pc%d" % u: bmc.bv(pc + 1, 4), "torn%d" % fi: bmc.bv(0, 1), "file%d" % fi: s["loc%d" % u]}))(u, pc, fi))
            pc += 1
        sc_len = pc
        ts.__dict__.setdefault("ends", []).append(sc_len)
    ts.U, ts.files, ts.locks = U, files, locks
    ts.max_steps = sum(ts.ends) + 1
    return ts


def replay(trace, n_updaters, fmt_args):
    """Real update_image on real npy files in a scratch directory, threads driven by the solver's schedule."""
    S = mpmodel.Sched()
    d = tempfile.mkdtemp(prefix="verif-c10-")
    held = {}
    monitor = {"torn_reads": 0, "writing": set()}

    class SchedLock:
        def __init__(self, path, *a, **k):
            self.path = path

        def __enter__(self):
            S.op("acquire", lambda: self.path not in held)
            held[self.path] = S.me()
            return self

        def __exit__(self, *a):
            S.op("release")
            held.pop(self.path, None)
            return False

    class Pio(PyramidIO):
        def read_image(self, pos, default="none", masked_mode=None, format=None):
            S.op("read")
            if monitor["writing"]:
                monitor["torn_reads"] += 1
            return PyramidIO.read_image(self, pos, default=default, masked_mode=masked_mode, format=format)

        def write_image(self, pos, image, format=None, **kw):
            S.op("write_begin")
            monitor["writing"].add(S.me())
            PyramidIO.write_image(self, pos, image, format=format, **kw)
            S.op("write_end")
            monitor["writing"].discard(S.me())

    saved = filelock.SoftFileLock
    filelock.SoftFileLock = SchedLock
    pos = Pos(1, 1, 0)
    errors = []
    try:
        def updater(u):
            S.local.name = "u%d" % u
            try:
                pio = Pio(d, default_format="npy")
                with pio.update_image(pos, masked_mode=ImageMode.F32, default="masked", format=fmt_args[u]) as img:
                    S.op("modify")
                    contrib = np.full((256, 256), np.nan, dtype=np.float32)
                    contrib[u, :] = u + 1.0
                    Image.from_array(contrib).update_into_maskable_buffer(img, slice(None), slice(None), slice(None), slice(None))
            except mpmodel.Killed:
                pass
            except Exception as e:
                errors.append(repr(e))

        threads = [threading.Thread(target=updater, args=(u,), daemon=True) for u in range(n_updaters)]
        for t in threads:
            t.start()
        sched = [actor for (label, actor) in trace]
        out = S.drive(sched, step_timeout=2.0)
        time.sleep(0.05)
        S.kill()
        for t in threads:
            t.join(1.0)
        final = None
        p = Pio(d, default_format="npy").tile_path(pos, makedirs=False)
        if os.path.exists(p):
            final = np.load(p)
        present = [bool(final is not None and final[u, 0] == u + 1.0) for u in range(n_updaters)]
    finally:
        filelock.SoftFileLock = saved
        shutil.rmtree(d, ignore_errors=True)
    return dict(drive=out, present=present, torn_reads=monitor["torn_reads"], errors=errors, locks_left=dict(held))


def check_updaters(run, n):
    name = "update[N=%d]" % n
    scripts = []
    raw = []
    for u in range(n):
        log = extract_script(fmt_arg=None if u % 2 == 0 else "npy")
        raw.append(log)
        scripts.append([(op, r if op != "body" else None) for (op, r) in log])
    ts = updater_ts(scripts)
    U = bmc.Unrolled(ts, ts.max_steps)
    run.extra.setdefault("models", {})[name] = dict(script=[[op for op, _r in sc] for sc in scripts][0], lock_paths=sorted(ts.locks), files=sorted(ts.files), steps=ts.max_steps)
    full = (1 << n) - 1
    fin = U.final()
    fi0 = 0
    queries = [
        ("no-lost-update", z3.And(*[fin["pc%d" % u] == ts.ends[u] for u in range(n)], fin["file%d" % fi0] != full), "an update is lost: the final tile misses a contribution"),
        ("no-torn-read", U.exists(lambda s: s["err_torn"] == 1), "an updater reads the tile while another one is writing it"),
        ("terminates", z3.Or(z3.Not(z3.And(*[fin["pc%d" % u] == ts.ends[u] for u in range(n)])), U.enabled(fin)), "some updater never finishes"),
    ]
    for qn, bad, what in queries:
        r, m, dt = U.check(bad)
        nm = "%s.%s" % (name, qn)
        if r == "unsat":
            run.ob(nm, "unsat", "E3:bmc", "all interleavings of %d updaters; script %s" % (n, [op for op, _ in scripts[0]]), queries=1, solver_s=dt)
        elif r == "sat":
            trace = U.trace(m)
            obs = replay(trace, n, [None if u % 2 == 0 else "npy" for u in range(n)])
            lost = not all(obs["present"])
            torn = obs["torn_reads"] > 0
            stuck = obs["drive"][0] == "stuck"
            if (qn == "no-lost-update" and lost) or (qn == "no-torn-read" and torn) or (qn == "terminates" and (stuck or lost)) or lost:
                text = ("# interleaving found by the solver, replayed on the real PyramidIO.update_image with real files\n"
                        "import sys\nsys.path.insert(0, %r)\nimport props.C10 as P\nobs = P.replay(%r, %d, %r)\nprint(obs)\n"
                        "sys.exit(1 if (not all(obs['present']) or obs['torn_reads']) else 0)\n") % (str(__import__("vlib.core").core.VERIF), trace, n, [None if u % 2 == 0 else "npy" for u in range(n)])
                run.violation(nm, "update_image:%s" % qn, "concurrent update_image: %s; real run under the solver's interleaving: contributions present=%s torn reads=%d" % (what, obs["present"], obs["torn_reads"]),
                              text, "E3:bmc+detsched", queries=1, solver_s=dt)
            else:
                run.error(nm, "solver interleaving did not reproduce on the real code: %s" % (obs,))
        else:
            run.ob(nm, "inconclusive", "E3:bmc", "solver answered %s" % r, queries=1, solver_s=dt)
    # vacuity twins: (a) a completing run exists and the real code completes with all contributions under it;
    # (b) the SAME model without the lock does lose an update (the assertion can fail)
    r, m, dt = U.check(z3.And(*[fin["pc%d" % u] == ts.ends[u] for u in range(n)]))
    if r == "sat":
        obs = replay(U.trace(m), n, [None if u % 2 == 0 else "npy" for u in range(n)])
        run.replays += 1
        if all(obs["present"]) and not obs["errors"]:
            run.ob("%s.twin" % name, "twin-sat", "E3:bmc+detsched", "a completing interleaving exists; the REAL update_image keeps all %d contributions under it" % n, queries=1, solver_s=dt)
        else:
            run.error("%s.twin" % name, "real run under a completing model interleaving lost a contribution: %s" % (obs,))
    nolock = [[(op, r) for (op, r) in sc if op not in ("acquire", "release")] for sc in scripts]
    ts2 = updater_ts(nolock)
    U2 = bmc.Unrolled(ts2, ts2.max_steps)
    f2 = U2.final()
    r2, m2, dt2 = U2.check(z3.And(*[f2["pc%d" % u] == ts2.ends[u] for u in range(n)]), f2["file0"] != full)
    run.ob("%s.twin-without-lock" % name, "twin-sat" if r2 == "sat" else "inconclusive", "E3:bmc", "the same model with the lock steps removed loses an update: %s" % r2, queries=1, solver_s=dt2)


def check(run):
    run.uses(tp.PyramidIO.update_image, tp.PyramidIO.tile_path, tp.PyramidIO.read_image, tp.PyramidIO.write_image)
    run.bound(updaters="2 (quick), 2 and 3 (thorough)", steps="acquire, read, modify, write-begin, write-end, release per updater; ALL interleavings (complete bound)",
              lock_path="symbolic position (n <= 2) and format argument (CrossHair)")
    run.assume("filelock.SoftFileLock: acquire succeeds iff the lock file does not exist (atomic create-exclusive), release removes it (trusted)",
               "a write is not atomic (two steps); a read between them would observe a partial tile")
    run.outside("SoftFileLock's own implementation (stale locks after a crash, NFS semantics)", "more than 3 concurrent updaters")
    chx.run_conditions(run, os.path.join(HERE, "chx_C10.py"), [("chk_lock_path_is_function_of_pos", 150), ("chk_distinct_tiles_distinct_locks", 150), ("chk_update_order", 60)])
    for n in ([2] if run.tier == "quick" else [2, 3]):
        try:
            check_updaters(run, n)
        except HarnessError as e:
            run.error("update[N=%d]" % n, e)
