"""C10 — concurrent updates of one tile never lose a contribution (E3: BMC + E1).

The sequence of primitive steps of PyramidIO.update_image (lock acquire, read, caller's modification, write, lock
release — and WHICH lock path) is extracted by running the real context manager against recording fakes; N updaters
following that script are composed with the soft-lock model (acquire succeeds iff the lock file does not exist,
atomically; release removes it) and a tile file whose write takes two steps.  z3 decides for ALL interleavings:
  no-lost-update   the final tile holds every updater's contribution (= some sequential order of the updates)
  no-torn-read     no updater reads the tile between another updater's write-begin and write-end
  terminates       every updater finishes (no deadlock on the lock)
CrossHair: the lock path is a function of the position only (any format argument), distinct positions have distinct
lock paths.  Counterexample schedules are replayed on the real update_image with real files in a scratch directory.
"""
from vlib.core import soft_attr as core_u
import os
import shutil
import tempfile
import threading
import time

import numpy as np
import z3

import filelock
import toasty.pyramid as tp
from toasty.image import Image, ImageMode
from toasty.pyramid import Pos, PyramidIO
from vlib import bmc, chx, mpmodel, symx
from vlib.core import HarnessError

HERE = os.path.dirname(__file__)


class _EnvPath:
    """os.path for toasty.pyramid during the extraction: the lock file's existence and modification time are
    SYMBOLIC (environment), everything else is the real os.path."""

    def __init__(self, log):
        self._log = log

    def __getattr__(self, name):
        return getattr(os.path, name)

    def _exists(self, p):
        c = symx.ctx()
        b = symx.SymBool(z3.Bool("exists[%s]" % p))
        r = bool(b)
        self._log.append(("probe", p, r))
        return r

    def exists(self, p):
        if str(p).endswith(".lock"):
            return self._exists(p)
        return os.path.exists(p)

    isfile = exists

    def _time(self, p):
        if not str(p).endswith(".lock"):
            return os.path.getmtime(p)
        if not self._exists(p):
            raise FileNotFoundError(2, "No such file or directory", p)
        t = z3.Real("mtime[%s]" % p)
        symx.ctx().assume(t >= 0)
        return symx.SymReal(t)

    getmtime = getctime = getatime = _time


class _EnvOS:
    def __init__(self, log):
        self._log = log
        self.path = _EnvPath(log)

    def __getattr__(self, name):
        return getattr(os, name)

    def makedirs(self, *a, **k):
        return None

    def unlink(self, p, *a, **k):
        self._log.append(("unlink", p))

    remove = unlink

    def stat(self, p, *a, **k):
        t = self.path._time(p)
        return type("St", (), {"st_mtime": t, "st_ctime": t, "st_atime": t, "st_size": 0})()


class _EnvClock:
    """time module for toasty.pyramid during the extraction: the clock is an arbitrary non-negative real."""

    def __init__(self):
        self.n = 0

    def __getattr__(self, name):
        return getattr(time, name)

    def _now(self):
        self.n += 1
        t = z3.Real("clock%d" % self.n)
        symx.ctx().assume(t >= 0)
        return symx.SymReal(t)

    time = monotonic = perf_counter = _now

    def sleep(self, *a):
        return None


def extract_scripts(fmt_arg=None, default_format="npy", rounds=1):
    """All step scripts of the real update_image over every answer of the environment it consults (lock-file
    existence / age, clock): explored with symx; each alternative is a list of ops
    (probe, path, exists) | (unlink, path) | acquire | read | body | write | release."""
    alts = []
    seen = set()

    def h(ctx):
        return extract_script(fmt_arg, default_format, env=True, rounds=rounds)

    for ctx, out in symx.explore(h, stats={}, max_paths=64, timeout_ms=20000):
        if not isinstance(out, list):
            raise HarnessError("update_image under a symbolic environment ended with %r" % (out,))
        key = tuple(tuple(op) for op in out)
        if key not in seen:
            seen.add(key)
            alts.append(out)
    return alts


def extract_script(fmt_arg=None, default_format="npy", env=False, rounds=1):
    """Run the real update_image once; record the order of acquire / read / body / write / release and the lock path.
    env=True (under symx.explore): toasty.pyramid's os / time are environment stubs with symbolic answers."""
    log = []

    class RecLock:
        def __init__(self, path, *a, **k):
            self.path = path

        def acquire(self, timeout=None, poll_interval=0.05, **k):
            # with a time-out the environment may answer "still held after that long" (only under the symbolic
            # environment: one more alternative script)
            if env and timeout is not None and timeout >= 0:
                _n = sum(1 for o in log if o[0] in ("acquire", "acquire-timeout"))
                if bool(symx.SymBool(z3.Bool("acquire_times_out[%d]" % _n))):
                    log.append(("acquire-timeout", self.path))
                    raise filelock.Timeout(self.path)
            log.append(("acquire", self.path))
            return self

        def release(self, force=False):
            log.append(("release", self.path))

        def __enter__(self):
            return self.acquire()

        def __exit__(self, *a):
            self.release()
            return False

    class RecPio(PyramidIO):
        def read_image(self, pos, default="none", masked_mode=None, format=None):
            log.append(("read", self.tile_path(pos, format=format, makedirs=False)))
            return "IMG"

        def write_image(self, pos, image, format=None, mode=None, min_value=None, max_value=None):
            log.append(("write", self.tile_path(pos, format=format or self._default_format, makedirs=False)))

    saved = filelock.SoftFileLock
    filelock.SoftFileLock = RecLock
    saved_os = tp.os
    had_time = hasattr(tp, "time")
    saved_time = getattr(tp, "time", None)
    saved_mk = os.makedirs
    try:
        if env:
            tp.os = _EnvOS(log)
            if had_time:
                tp.time = _EnvClock()
        else:
            os.makedirs = lambda *a, **k: None
        pio = RecPio("/scratch-not-created", default_format=default_format)
        # `rounds` consecutive updates of the same tile through the SAME PyramidIO object (one worker process meeting
        # the tile again): state the object keeps between calls shows up as a different script for the later round
        for r in range(rounds):
            with pio.update_image(Pos(2, 1, 3), masked_mode=ImageMode.F32, default="masked", format=fmt_arg) as img:
                log.append(("body", r))
    finally:
        filelock.SoftFileLock = saved
        tp.os = saved_os
        os.makedirs = saved_mk
        if had_time:
            tp.time = saved_time
    return log


# ---------------------------------------------------------------- the callers of update_image (worker processes)

class _OneItemQueue:
    def __init__(self, item):
        self.item, self.k = item, 0

    def get(self, block=True, timeout=None):
        from queue import Empty
        self.k += 1
        if self.k == 1:
            return self.item
        raise Empty()


class _FlagUp:
    def is_set(self):
        return True

    def wait(self, timeout=None):
        return True


def _caller_item(caller, pos, data, hook=None):
    """One work item for the REAL worker function of `caller` that makes it update tile `pos` once with `data`
    (a 256x256 float32 array)."""
    import types
    from toasty.image import Image as _Image

    class Img(_Image):
        def update_into_maskable_buffer(self, buffer, *idx):
            if hook:
                hook()
            return _Image.update_into_maskable_buffer(self, buffer, *idx)

    sub = types.SimpleNamespace(generate_populated_positions=lambda: [(pos, 256, 256, 0, 0, 0, 0)], count_populated_positions=lambda: 1)
    if caller == "multi_tan":
        im = Img.from_array(data)
        im.__class__ = Img
        im.get_parity_sign = lambda: -1
        return (im, types.SimpleNamespace(sub_tiling=sub)), {}
    if caller == "multi_wcs":
        image = types.SimpleNamespace(asarray=lambda: data, wcs="WCS")
        chunk = types.SimpleNamespace(j0=0, j1=256, sub_tiling=sub)
        desc = types.SimpleNamespace(chunks=[chunk], imin=0, imax=256)

        class CW:
            def __getitem__(self, k):
                return "CHUNK-WCS"
        return (image, desc, CW()), {"Image": Img}
    raise HarnessError("unknown caller %r" % (caller,))


def _run_caller_worker(caller, pio, item, extra_mod_attrs):
    """The REAL worker function of `caller` on a one-item queue with the shutdown flag up."""
    import toasty.multi_tan as tmt
    import toasty.multi_wcs as tmw
    mod = {"multi_tan": tmt, "multi_wcs": tmw}[caller]
    saved = {k: mod.__dict__.get(k) for k in extra_mod_attrs}
    for k, v in extra_mod_attrs.items():
        setattr(mod, k, v)
    try:
        if caller == "multi_tan":
            mod._mp_tile_worker(_OneItemQueue(item), _FlagUp(), pio, {})
        else:
            mod._mp_tile_worker(_OneItemQueue(item), _FlagUp(), pio, lambda inp, output_projection=None, shape_out=None, return_footprint=False, **k: inp[0], {})
    finally:
        for k, v in saved.items():
            if v is None:
                try:
                    delattr(mod, k)
                except AttributeError:
                    pass
            else:
                setattr(mod, k, v)


def caller_epilogue(caller):
    """What does the REAL worker function of `caller` do to lock files OUTSIDE update_image (e.g. cleaning up when it
    runs out of work)?  It runs on one item against a recording PyramidIO; os.unlink / os.remove are recorded, not
    executed.  -> list of 'unlink-own-lock' steps performed after the update (lock of a tile the worker updated)."""
    import contextlib
    pos = Pos(2, 1, 3)
    log = []

    class RecPio:
        def get_default_vertical_parity_sign(self):
            return -1

        def tile_path(self, p, format=None, makedirs=True):
            return "/t/%d_%d_%d" % (p.n, p.x, p.y)

        @contextlib.contextmanager
        def update_image(self, p, masked_mode=None, default="none", format=None):
            log.append(("update-begin", p))
            yield ImageMode.F32.make_maskable_buffer(256, 256)
            log.append(("update-end", p))

        def clean_lockfiles(self, level):
            log.append(("clean_lockfiles", level))

    item, attrs = _caller_item(caller, pos, np.zeros((256, 256), dtype=np.float32))
    saved = (os.unlink, os.remove)
    os.unlink = lambda p, *a, **k: log.append(("unlink", str(p)))
    os.remove = lambda p, *a, **k: log.append(("unlink", str(p)))
    try:
        _run_caller_worker(caller, RecPio(), item, attrs)
    finally:
        os.unlink, os.remove = saved
    if ("update-begin", pos) not in log:
        raise HarnessError("%s worker did not update the tile of its item: %r" % (caller, log))
    out = []
    inside = False
    for ev in log:
        if ev[0] == "update-begin":
            inside = True
        elif ev[0] == "update-end":
            inside = False
        elif ev[0] == "unlink" and ev[1].endswith(".lock"):
            if ev[1] != "/t/%d_%d_%d.lock" % (pos.n, pos.x, pos.y) or inside:
                raise HarnessError("%s worker unlinks lock file %r at a point the model cannot place" % (caller, ev[1]))
            out.append("unlink-own-lock")
        elif ev[0] == "clean_lockfiles":
            raise HarnessError("%s worker calls clean_lockfiles itself (whole-level clean-up while others may hold locks): not modelled" % caller)
    return out


def updater_ts(scripts, split_write=True, rounds=1):
    """scripts[u] = list of ALTERNATIVE step lists of updater u (one per answer of the environment), each a list of
    (op, resource[, expected]).  One tile file; locks identified by path.  Which alternative an updater follows is a
    solver variable, constrained by its 'probe' steps: the lock file exists iff the lock is held at that moment."""
    ts = bmc.TS("update")
    U = len(scripts)
    R = rounds
    scripts = [sc if sc and isinstance(sc[0], list) else [sc] for sc in scripts]
    locks = sorted({op[1] for alts in scripts for sc in alts for op in sc if op[0] in ("acquire", "release", "acquire-timeout")})
    files = sorted({op[1] for alts in scripts for sc in alts for op in sc if op[0] in ("read", "write")})
    for li in range(len(locks)):
        ts.var("lock%d" % li, 3, 0)
    for fi in range(len(files)):
        ts.var("file%d" % fi, U * R, 0)
        ts.var("torn%d" % fi, 1, 0)
    ts.var("err_torn", 1, 0)
    ts.ends = []
    ts.alt = []
    ts.probe_guards = []          # (u, alt index, pc, guard(s)) of every environment probe
    for u, alts in enumerate(scripts):
        ts.var("pc%d" % u, 6, 0)
        ts.var("loc%d" % u, U * R, 0)
        alt = z3.BitVec("alt%d" % u, 5)
        ts.param(alt, z3.ULT(alt, len(alts)))
        ts.alt.append(alt)
        ends = []
        for a, sc in enumerate(alts):
            pc = 0
            for op in sc:
                kind, r = op[0], op[1] if len(op) > 1 else None
                at = (lambda u, pc, a, alt: (lambda s: z3.And(s["pc%d" % u] == pc, alt == a)))(u, pc, a, alt)
                lab = "%%s u%d" % u
                if kind == "acquire":
                    li = locks.index(r)
                    ts.t(lab % "acquire", "u%d" % u, (lambda at, li: (lambda s: z3.And(at(s), s["lock%d" % li] == 0)))(at, li),
                         (lambda u, pc, li: (lambda s: {"pc%d" % u: bmc.bv(pc + 1, 6), "lock%d" % li: bmc.bv(u + 1, 3)}))(u, pc, li))
                elif kind == "acquire-timeout":
                    # the environment's answer "the lock was still held when the time-out expired": possible only while it is held
                    li = locks.index(r)
                    ts.probe_guards.append((u, a, pc, (lambda li: (lambda s: s["lock%d" % li] != 0))(li)))
                    ts.t(lab % "acquire-timeout", "u%d" % u, (lambda at, li: (lambda s: z3.And(at(s), s["lock%d" % li] != 0)))(at, li),
                         (lambda u, pc: (lambda s: {"pc%d" % u: bmc.bv(pc + 1, 6)}))(u, pc))
                elif kind == "release":
                    li = locks.index(r)
                    # releasing removes the marker file if it is still this updater's; a marker re-created by somebody else is removed too (SoftFileLock unlinks the path)
                    ts.t(lab % "release", "u%d" % u, at, (lambda u, pc, li: (lambda s: {"pc%d" % u: bmc.bv(pc + 1, 6), "lock%d" % li: bmc.bv(0, 3)}))(u, pc, li))
                elif kind == "probe":
                    if r not in locks:
                        raise HarnessError("update_image probes %r, which is not a lock path of the model" % (r,))
                    li = locks.index(r)
                    want = bool(op[2])
                    ts.probe_guards.append((u, a, pc, (lambda li, want: (lambda s: (s["lock%d" % li] != 0) if want else (s["lock%d" % li] == 0)))(li, want)))
                    ts.t(lab % "probe", "u%d" % u, (lambda at, li, want: (lambda s: z3.And(at(s), (s["lock%d" % li] != 0) if want else (s["lock%d" % li] == 0))))(at, li, want),
                         (lambda u, pc: (lambda s: {"pc%d" % u: bmc.bv(pc + 1, 6)}))(u, pc))
                elif kind == "unlink":
                    if r in locks:
                        li = locks.index(r)
                        ts.t(lab % "unlink-lock", "u%d" % u, at, (lambda u, pc, li: (lambda s: {"pc%d" % u: bmc.bv(pc + 1, 6), "lock%d" % li: bmc.bv(0, 3)}))(u, pc, li))
                    elif r in files:
                        fi = files.index(r)
                        ts.t(lab % "unlink-tile", "u%d" % u, at, (lambda u, pc, fi: (lambda s: {"pc%d" % u: bmc.bv(pc + 1, 6), "file%d" % fi: bmc.bv(0, U * R)}))(u, pc, fi))
                    else:
                        raise HarnessError("update_image unlinks %r, which the model does not know" % (r,))
                elif kind == "read":
                    fi = files.index(r)
                    ts.t(lab % "read", "u%d" % u, at,
                         (lambda u, pc, fi: (lambda s: {"pc%d" % u: bmc.bv(pc + 1, 6), "loc%d" % u: s["file%d" % fi],
                                                        "err_torn": z3.If(s["torn%d" % fi] == 1, bmc.bv(1, 1), s["err_torn"])}))(u, pc, fi))
                elif kind == "body":
                    rd = int(r or 0)
                    ts.t(lab % "modify", "u%d" % u, at, (lambda u, pc, rd: (lambda s: {"pc%d" % u: bmc.bv(pc + 1, 6), "loc%d" % u: s["loc%d" % u] | bmc.bv(1 << (u * R + rd), U * R)}))(u, pc, rd))
                elif kind == "write":
                    fi = files.index(r)
                    ts.t(lab % "write_begin", "u%d" % u, at, (lambda u, pc, fi: (lambda s: {"pc%d" % u: bmc.bv(pc + 1, 6), "torn%d" % fi: bmc.bv(1, 1)}))(u, pc, fi))
                    pc += 1
                    at2 = (lambda u, pc, a, alt: (lambda s: z3.And(s["pc%d" % u] == pc, alt == a)))(u, pc, a, alt)
                    ts.t(lab % "write_end", "u%d" % u, at2,
                         (lambda u, pc, fi: (lambda s: {"pc%d" % u: bmc.bv(pc + 1, 6), "torn%d" % fi: bmc.bv(0, 1), "file%d" % fi: s["loc%d" % u]}))(u, pc, fi))
                else:
                    raise HarnessError("unknown step %r in the extracted update_image script" % (op,))
                pc += 1
            ends.append(pc)
        ts.ends.append(ends)
    ts.U, ts.files, ts.locks, ts.R = U, files, locks, R
    ts.max_steps = sum(max(e) for e in ts.ends) + 1
    ts.done = lambda s, u: z3.Or(*[z3.And(ts.alt[u] == a, s["pc%d" % u] == e) for a, e in enumerate(ts.ends[u])])
    # an updater waiting at a probe whose expected answer is not the state of the world is an environment answer that
    # cannot be given, not a deadlock
    ts.bad_answer = lambda s: z3.Or(*[z3.And(ts.alt[u] == a, s["pc%d" % u] == pc, z3.Not(g(s))) for (u, a, pc, g) in ts.probe_guards]) if ts.probe_guards else z3.BoolVal(False)
    return ts


_CALLER_SAVED = {}


def _caller_mod(caller):
    import toasty.multi_tan as tmt
    import toasty.multi_wcs as tmw
    return {"multi_tan": tmt, "multi_wcs": tmw}[caller]


def _install_caller_attrs(caller, attrs):
    mod = _caller_mod(caller)
    _CALLER_SAVED[caller] = {k: mod.__dict__.get(k) for k in attrs}
    for k, v in attrs.items():
        setattr(mod, k, v)


def _restore_caller_attrs(caller):
    mod = _caller_mod(caller)
    for k, v in _CALLER_SAVED.pop(caller, {}).items():
        if v is None:
            try:
                delattr(mod, k)
            except AttributeError:
                pass
        else:
            setattr(mod, k, v)


def _run_caller_worker_threadsafe(caller, pio, item, attrs):
    """As _run_caller_worker, with the module attributes already installed by the replay (threads share the module)."""
    mod = _caller_mod(caller)
    if caller == "multi_tan":
        mod._mp_tile_worker(_OneItemQueue(item), _FlagUp(), pio, {})
    else:
        mod._mp_tile_worker(_OneItemQueue(item), _FlagUp(), pio, lambda inp, output_projection=None, shape_out=None, return_footprint=False, **k: inp[0], {})


def replay(trace, n_updaters, fmt_args, old_clock=(), rounds=1, caller=None):
    """Real update_image on real npy files in a scratch directory, threads driven by the solver's schedule.  The soft
    lock is a real marker file; for the updaters named in `old_clock` the clock toasty.pyramid sees is far ahead (every
    existing file looks old to them) — the environment answers the solver chose."""
    S = mpmodel.Sched()
    d = tempfile.mkdtemp(prefix="verif-c10-")
    held = {}
    monitor = {"torn_reads": 0, "writing": set()}
    planned_timeouts = {}
    for label, actor in trace:
        if label.startswith("acquire-timeout"):
            planned_timeouts[actor] = planned_timeouts.get(actor, 0) + 1

    class SchedLock:
        def __init__(self, path, *a, **k):
            self.path = path

        def acquire(self, timeout=None, poll_interval=0.05, **k):
            if timeout is not None and timeout >= 0 and planned_timeouts.get(S.me(), 0) > 0:
                # the solver's run has this updater's acquire time out: granted only while the lock file exists
                planned_timeouts[S.me()] -= 1
                S.op("acquire-timeout", lambda: os.path.exists(self.path))
                raise filelock.Timeout(self.path)
            S.op("acquire", lambda: not os.path.exists(self.path))
            with open(self.path, "w") as f:
                f.write(S.me())
            held[self.path] = S.me()
            return self

        def release(self, force=False):
            S.op("release")
            held.pop(self.path, None)
            try:
                os.unlink(self.path)
            except OSError:
                pass

        def __enter__(self):
            return self.acquire()

        def __exit__(self, *a):
            self.release()
            return False

    class ReplayPath:
        def __getattr__(self, name):
            return getattr(os.path, name)

        def _probe(self, fn, p):
            if str(p).endswith(".lock"):
                S.op("probe")
            return fn(p)

        def exists(self, p):
            return self._probe(os.path.exists, p)

        isfile = exists

        def getmtime(self, p):
            return self._probe(os.path.getmtime, p)

        getctime = getatime = getmtime

    class ReplayOS:
        path = ReplayPath()

        def __getattr__(self, name):
            return getattr(os, name)

        def unlink(self, p, *a, **k):
            if str(p).endswith(".lock"):
                S.op("unlink-lock")
                held.pop(p, None)
            return os.unlink(p, *a, **k)

        remove = unlink

        def stat(self, p, *a, **k):
            if str(p).endswith(".lock"):
                S.op("probe")
            return os.stat(p, *a, **k)

    class ReplayClock:
        def __getattr__(self, name):
            return getattr(time, name)

        def time(self):
            return time.time() + (1e9 if S.me() in old_clock else 0.0)

        monotonic = perf_counter = time

    class Pio(PyramidIO):
        def read_image(self, pos, default="none", masked_mode=None, format=None):
            S.op("read")
            if monitor["writing"]:
                monitor["torn_reads"] += 1
            return PyramidIO.read_image(self, pos, default=default, masked_mode=masked_mode, format=format)

        def write_image(self, pos, image, format=None, **kw):
            S.op("write_begin")
            monitor["writing"].add(S.me())
            PyramidIO.write_image(self, pos, image, format=format, **kw)
            S.op("write_end")
            monitor["writing"].discard(S.me())

    saved = filelock.SoftFileLock
    filelock.SoftFileLock = SchedLock
    saved_os = tp.os
    had_time = hasattr(tp, "time")
    saved_time = getattr(tp, "time", None)
    tp.os = ReplayOS()
    if had_time:
        tp.time = ReplayClock()
    pos = Pos(1, 1, 0)
    errors = []
    caller_lock = threading.Lock()
    try:
        if caller:
            # module attributes of the caller are patched once for all threads (not per thread)
            _install_caller_attrs(caller, dict(_caller_item(caller, pos, np.zeros((1, 1), dtype=np.float32), hook=lambda: S.op("modify"))[1], os=ReplayOS()))

        def updater(u):
            S.local.name = "u%d" % u
            try:
                pio = Pio(d, default_format="npy")
                if caller:
                    # the REAL worker function of the caller, on one item whose data are this updater's contribution
                    contrib = np.full((256, 256), np.nan, dtype=np.float32)
                    contrib[u, :] = u + 1.0
                    item, attrs = _caller_item(caller, pos, contrib, hook=lambda: S.op("modify"))
                    attrs = dict(attrs)
                    attrs["os"] = ReplayOS()
                    with caller_lock:
                        pass
                    _run_caller_worker_threadsafe(caller, pio, item, attrs)
                    return
                for r in range(rounds):
                    with pio.update_image(pos, masked_mode=ImageMode.F32, default="masked", format=fmt_args[u]) as img:
                        S.op("modify")
                        contrib = np.full((256, 256), np.nan, dtype=np.float32)
                        contrib[u * rounds + r, :] = u * rounds + r + 1.0
                        Image.from_array(contrib).update_into_maskable_buffer(img, slice(None), slice(None), slice(None), slice(None))
            except mpmodel.Killed:
                pass
            except Exception as e:
                errors.append(repr(e))

        threads = [threading.Thread(target=updater, args=(u,), daemon=True) for u in range(n_updaters)]
        for t in threads:
            t.start()
        sched = [actor for (label, actor) in trace]
        out = S.drive(sched, step_timeout=2.0)
        time.sleep(0.05)
        S.kill()
        for t in threads:
            t.join(1.0)
        final = None
        p = Pio(d, default_format="npy").tile_path(pos, makedirs=False)
        if os.path.exists(p):
            final = np.load(p)
        present = [bool(final is not None and final[k, 0] == k + 1.0) for k in range(n_updaters * rounds)]
    finally:
        filelock.SoftFileLock = saved
        tp.os = saved_os
        if had_time:
            tp.time = saved_time
        if caller:
            _restore_caller_attrs(caller)
        shutil.rmtree(d, ignore_errors=True)
    return dict(drive=out, present=present, torn_reads=monitor["torn_reads"], errors=errors, locks_left=dict(held))


def check_updaters(run, n, rounds=1, caller=None, epilogue=()):
    name = "update[N=%d]" % n if rounds == 1 else "update[N=%d,R=%d]" % (n, rounds)
    if caller:
        name = "%s-workers[N=%d]" % (caller, n)
    scripts = []
    for u in range(n):
        alts = extract_scripts(fmt_arg=None if (u % 2 == 0 or caller) else "npy", rounds=rounds)
        scripts.append([[tuple(op) for op in log] for log in alts])
    if epilogue:
        # what the worker process does to its tiles' lock files after its updates (extracted from the real worker)
        lockp = [op[1] for op in scripts[0][0] if op[0] == "acquire"][0]
        scripts = [[sc + [("unlink", lockp)] * len(epilogue) for sc in alts] for alts in scripts]
    ts = updater_ts(scripts, rounds=rounds)
    U = bmc.Unrolled(ts, ts.max_steps)
    run.extra.setdefault("models", {})[name] = dict(alternatives_by_environment=[[op[0] + (":%s" % op[2] if op[0] == "probe" else "") for op in sc] for sc in scripts[0]],
                                                      lock_paths=sorted(ts.locks), files=sorted(ts.files), steps=ts.max_steps)
    full = (1 << (n * rounds)) - 1
    fin = U.final()
    fi0 = 0
    alldone = z3.And(*[ts.done(fin, u) for u in range(n)])
    queries = [
        ("no-lost-update", z3.And(alldone, fin["file%d" % fi0] != full), "an update is lost: the final tile misses a contribution"),
        ("no-torn-read", U.exists(lambda s: s["err_torn"] == 1), "an updater reads the tile while another one is writing it"),
        ("terminates", z3.And(z3.Not(alldone), z3.Not(U.enabled(fin)), z3.Not(ts.bad_answer(fin))), "some updater never finishes"),
    ]

    def old_clock_of(m):
        out = []
        if caller:
            return ()       # the unlink steps of these scripts are the workers' own clean-up, not stale-lock recovery
        for u in range(n):
            a = m.eval(ts.alt[u], model_completion=True).as_long()
            if any(op[0] == "unlink" for op in scripts[u][a]):
                out.append("u%d" % u)
        return tuple(out)
    for qn, bad, what in queries:
        r, m, dt = U.check(bad)
        nm = "%s.%s" % (name, qn)
        if r == "unsat":
            run.ob(nm, "unsat", "E3:bmc", "all interleavings of %d updaters x every environment answer; %d script alternative(s), first: %s" % (n, len(scripts[0]), [op[0] for op in scripts[0][0]]), queries=1, solver_s=dt)
        elif r == "sat":
            trace = U.trace(m)
            oc = old_clock_of(m)
            obs = replay(trace, n, [None if (u % 2 == 0 or caller) else "npy" for u in range(n)], oc, rounds, caller)
            lost = not all(obs["present"])
            torn = obs["torn_reads"] > 0
            stuck = obs["drive"][0] == "stuck"
            # the model's write takes two steps with the content appearing at the second, the real write_image runs
            # between the two rendezvous: a schedule that loses an update through a read in the middle of a write shows
            # on the real code as that torn read
            if lost or torn or (qn == "terminates" and stuck):
                text = ("# interleaving found by the solver, replayed on the real PyramidIO.update_image with real files\n"
                        "import sys\nsys.path.insert(0, %r)\nimport props.C10 as P\nobs = P.replay(%r, %d, %r, %r, %d, %r)\nprint(obs)\n"
                        "sys.exit(1 if (not all(obs['present']) or obs['torn_reads']) else 0)\n") % (str(__import__("vlib.core").core.VERIF), trace, n, [None if (u % 2 == 0 or caller) else "npy" for u in range(n)], oc, rounds, caller)
                run.violation(nm, "%s:%s" % ((caller + "-worker") if caller else "update_image", qn), "concurrent update_image%s: %s; real run under the solver's interleaving%s: contributions present=%s torn reads=%d" % (
                    (" from %d real %s worker functions (each unlinks its tiles' lock files when it runs out of work)" % (n, caller)) if caller else "", what, (" (clock far ahead for %s, so an existing lock file looks old)" % ", ".join(oc)) if oc else "", obs["present"], obs["torn_reads"]),
                              text, "E3:bmc+detsched", queries=1, solver_s=dt)
            else:
                run.error(nm, "solver interleaving did not reproduce on the real code: %s" % (obs,))
        else:
            run.ob(nm, "inconclusive", "E3:bmc", "solver answered %s" % r, queries=1, solver_s=dt)
    # vacuity twins: (a) a completing run exists and the real code completes with all contributions under it;
    # (b) the SAME model without the lock does lose an update (the assertion can fail)
    r, m, dt = U.check(alldone)
    if r == "sat":
        obs = replay(U.trace(m), n, [None if (u % 2 == 0 or caller) else "npy" for u in range(n)], old_clock_of(m), rounds, caller)
        run.replays += 1
        if all(obs["present"]) and not obs["errors"]:
            run.ob("%s.twin" % name, "twin-sat", "E3:bmc+detsched", "a completing interleaving exists; the REAL update_image keeps all %d contributions under it" % (n * rounds), queries=1, solver_s=dt)
        else:
            run.error("%s.twin" % name, "real run under a completing model interleaving lost a contribution: %s" % (obs,))
    nolock = [[[op for op in sc if op[0] not in ("acquire", "release", "probe", "unlink", "acquire-timeout")] for sc in alts][:1] for alts in scripts]
    ts2 = updater_ts(nolock, rounds=rounds)
    U2 = bmc.Unrolled(ts2, ts2.max_steps)
    f2 = U2.final()
    r2, m2, dt2 = U2.check(z3.And(*[ts2.done(f2, u) for u in range(n)]), f2["file0"] != full)
    run.ob("%s.twin-without-lock" % name, "twin-sat" if r2 == "sat" else "inconclusive", "E3:bmc", "the same model with the lock steps removed loses an update: %s" % r2, queries=1, solver_s=dt2)


def check(run):
    run.uses(tp.PyramidIO.update_image, tp.PyramidIO.tile_path, tp.PyramidIO.read_image, tp.PyramidIO.write_image)
    run.bound(updaters="2 (quick), 2 and 3 (thorough)", rounds="each updater performs 1 or 2 consecutive updates of the tile through the same PyramidIO object (the script of every round is extracted from the real code)", steps="acquire, read, modify, write-begin, write-end, release per updater; ALL interleavings (complete bound)",
              lock_path="symbolic position (n <= 2) and format argument (CrossHair)")
    run.assume("filelock.SoftFileLock: acquire succeeds iff the lock file does not exist (atomic create-exclusive), release removes it (trusted)",
               "a write is not atomic (two steps); a read between them would observe a partial tile")
    run.outside("SoftFileLock's own implementation (stale locks after a crash, NFS semantics)", "more than 3 concurrent updaters")
    chx.run_conditions(run, os.path.join(HERE, "chx_C10.py"), [("chk_lock_path_is_function_of_pos", 150), ("chk_distinct_tiles_distinct_locks", 150), ("chk_update_order", 60)])
    for n, rounds in ([(2, 1), (2, 2)] if run.tier == "quick" else [(2, 1), (2, 2), (3, 1), (3, 2)]):
        try:
            check_updaters(run, n, rounds)
        except HarnessError as e:
            run.error("update[N=%d,R=%d]" % (n, rounds), e)
    # the worker processes that call update_image: what they do to lock files outside it is extracted from the real worker
    import toasty.multi_tan as tmt
    import toasty.multi_wcs as tmw
    run.uses(core_u(tmt, "_mp_tile_worker"), core_u(tmw, "_mp_tile_worker"))
    for caller in ("multi_tan", "multi_wcs"):
        nm = "%s-worker.leaves-lock-files-alone" % caller
        try:
            epi = caller_epilogue(caller)
            if not epi:
                run.ob(nm, "confirmed", "E3:extraction", "the real %s._mp_tile_worker, run on one item against a recording PyramidIO, touches no lock file outside update_image (clean-up is the parent's, after the workers have been joined): "
                       "concurrent workers are exactly the modelled updaters" % caller)
            else:
                run.ob(nm, "confirmed", "E3:extraction", "the real %s._mp_tile_worker unlinks the lock file of each tile it updated when it runs out of work (%d step(s)): added to every updater's script, model checked with 3 workers" % (caller, len(epi)))
                check_updaters(run, 3, 1, caller=caller, epilogue=epi)
        except HarnessError as e:
            run.error(nm, e)
