"""C05 — a tile's 256x256 pixel grid is the centres of the tiles eight levels deeper (E4: EUF over the real recursion).

toasty/_libtoasty.pyx is translated to Python on every run (vlib/decy.py, validated against the compiled extension);
its recursive `_subsample` and the real toast._div4 are executed on OPAQUE points with the great-circle midpoint as an
uninterpreted commutative function; z3 decides, for every one of the n x n sub-pixels, that the coordinate written at
[row i, column j] is the centre term of the descendant tile (n+k, 2^k x + j, 2^k y + i) produced by k applications of
_div4 — for symbolic corners and both diagonal orientations.  n = 1..16 (quick), the real 256 (thorough).
"""
from vlib.core import soft_attr as core_u
import math
import time

import numpy as np
import z3

import toasty.toast as tt
from toasty.pyramid import Pos
from toasty.toast import Tile
from vlib import decy
from vlib.core import HarnessError

Pt = z3.DeclareSort("Pt")
MID = z3.Function("mid", Pt, Pt, Pt)


class NonMidArithmetic(Exception):
    """The code under analysis computed with a coordinate instead of handing points to the midpoint function."""


class Coord(tuple):
    """One coordinate of an opaque point: (kind, point term); any arithmetic on it is reported."""

    def _no(self, *a, **k):
        raise NonMidArithmetic("arithmetic on the %s of an opaque point" % (self[0],))

    __add__ = __radd__ = __sub__ = __rsub__ = __mul__ = __rmul__ = __truediv__ = __rtruediv__ = __neg__ = __abs__ = _no
    __lt__ = __le__ = __gt__ = __ge__ = __float__ = _no


class OP:
    """Opaque point: usable as the (lon, lat) tuple toast.py passes around and as the struct the .pyx uses."""

    def __init__(self, t):
        self.t = t

    def __getitem__(self, k):
        return Coord((("lon", "lat")[k], self.t))

    def __len__(self):
        return 2


class CenRec:
    """2-D array stand-in recording which value is written at which [row, col] through nested quadrant views."""

    def __init__(self, n, r0=0, c0=0, store=None):
        self.n, self.r0, self.c0 = n, r0, c0
        self.store = {} if store is None else store

    @property
    def shape(self):
        return (self.n, self.n)

    def __getitem__(self, key):
        rs, cs = key
        r = range(*rs.indices(self.n))
        c = range(*cs.indices(self.n))
        if len(r) != len(c) or r.step != 1 or c.step != 1:
            raise HarnessError("_subsample uses a non-square / strided quadrant view")
        return CenRec(len(r), self.r0 + r.start, self.c0 + c.start, self.store)

    def __setitem__(self, key, val):
        if key != 0 or self.n != 1:
            raise HarnessError("_subsample writes other than x[0] of a 1x1 view")
        self.store[(self.r0, self.c0)] = val


def euf_subsample(mod, n, increasing, pos0=None, ctx=None):
    """-> (verdict, n_cells, n_mid_applications, seconds, counterexample cell or None)
    pos0: the position of the tile (default Pos(0, 0, 0)); its fields may be symx.SymInt when run under symx.explore
    (ctx given): the subdivision is then decided for EVERY level and position the path condition allows."""
    pairs = set()

    def umid_py(a, b):
        pairs.add((a.t, b.t))
        return OP(MID(a.t, b.t))

    def umid_struct(a, b, cen):
        pairs.add((a.t, b.t))
        cen.t = MID(a.t, b.t)

    class P2:
        def __init__(self, x=None, y=None):
            self.t = None

        @property
        def x(self):
            return Coord(("lon", self.t))

        @property
        def y(self):
            return Coord(("lat", self.t))

    corners = [OP(z3.Const(nm, Pt)) for nm in ("ul", "ur", "lr", "ll")]
    mod.Point = P2
    saved_mid = mod._mid
    mod._mid = umid_struct
    xs, ys = CenRec(n), CenRec(n)
    pts = []
    for c in corners:
        p = P2()
        p.t = c.t
        pts.append(p)
    try:
        mod._subsample(pts[0], pts[1], pts[2], pts[3], xs, ys, 1 if increasing else 0)
    finally:
        mod._mid = saved_mid
    saved = tt.mid
    tt.mid = umid_py
    try:
        k = int(math.log2(n))
        p0 = pos0 if pos0 is not None else Pos(0, 0, 0)
        tiles = {(0, 0): Tile(p0, tuple(corners), increasing)}
        for lvl in range(1, k + 1):
            nxt = {}
            for (x, y), t in tiles.items():
                try:
                    chs = tt._div4(t)
                except NonMidArithmetic as e:
                    return "sat", 0, len(pairs), 0.0, ("_div4 at relative level %d: %s" % (lvl - 1, e),)
                for c, ch in enumerate(chs):
                    if ch.increasing != increasing:
                        raise HarnessError("_div4 does not inherit the diagonal orientation")
                    key = (2 * x + (c & 1), 2 * y + (c >> 1))
                    want = (p0.n + lvl, p0.x * 2 ** lvl + key[0], p0.y * 2 ** lvl + key[1])
                    got = (ch.pos.n, ch.pos.x, ch.pos.y)
                    if ctx is None:
                        same = tuple(int(v) for v in got) == tuple(int(v) for v in want)
                    else:
                        from vlib.symx import I as _I
                        r_, _m = ctx.prove(z3.And(*[_I(a) == _I(b) for a, b in zip(got, want)]))
                        same = r_ == "unsat"
                    if not same:
                        return "sat", 0, len(pairs), 0.0, ("child %d of relative position %r is not at (n+1, 2x+dx, 2y+dy)" % (c, (x, y)),)
                    nxt[key] = ch
            tiles = nxt
        cent = {}
        for (x, y), t in tiles.items():
            ul, ur, lr, ll = t.corners
            cent[(y, x)] = umid_py(ll, ur).t if increasing else umid_py(ul, lr).t
    finally:
        tt.mid = saved
    if set(xs.store) != set(cent) or set(ys.store) != set(cent):
        return "sat", len(cent), len(pairs), 0.0, ("cells written", sorted(set(cent) ^ set(xs.store))[:4])
    s = z3.Solver()
    s.set("timeout", 900000)
    for (a, b) in list(pairs):
        s.add(MID(a, b) == MID(b, a))
    diffs = []
    keys = sorted(cent)
    for key in keys:
        tagx, tx = xs.store[key]
        tagy, ty = ys.store[key]
        if tagx != "lon" or tagy != "lat":
            return "sat", len(cent), len(pairs), 0.0, ("lon/lat swapped at", key)
        diffs.append(z3.Or(tx != cent[key], ty != cent[key]))
    s.add(z3.Or(*diffs))
    t0 = time.time()
    r = s.check()
    dt = time.time() - t0
    bad = None
    if r == z3.sat:
        m = s.model()
        for key, d in zip(keys, diffs):
            if z3.is_true(m.eval(d, model_completion=True)):
                bad = key
                break
    return str(r), len(cent), len(pairs), dt, bad


def concrete_disagreement(n, increasing, csub=None, level=None):
    """Replay on the real code: subsample (compiled, or the given implementation) vs descent through the real _div4
    with the real mid, on real tiles (level-2 tiles, or tiles of the given level next to the pole / on the equator)."""
    if csub is None:
        from toasty._libtoasty import subsample as csub
    worst = (0.0, None)
    for cs in (tt.ToastCoordinateSystem.ASTRONOMICAL, tt.ToastCoordinateSystem.PLANETARY):
        if level is not None and level >= 2:
            h = 2 ** (level - 1)
            starts = [tt.create_single_tile(Pos(level, x, y), cs) for x, y in ((h, h), (h - 1, h - 1), (h, h - 1), (h - 1, h), (h + h // 2, h // 2), (1, h // 2), (0, 0))]
        else:
            starts = [t for t1 in tt._create_level1_tiles(cs) for t in tt._div4(t1)[1:3]]
        for t1 in [None]:
            for t in starts:
                if t.increasing != increasing:
                    continue
                lons, lats = csub(*t.corners, n, t.increasing)
                tiles = {(0, 0): Tile(t.pos if level is not None else Pos(0, 0, 0), t.corners, t.increasing)}
                for _ in range(int(math.log2(n))):
                    nxt = {}
                    for (x, y), tl in tiles.items():
                        for c, ch in enumerate(tt._div4(tl)):
                            nxt[(2 * x + (c & 1), 2 * y + (c >> 1))] = ch
                    tiles = nxt
                for (x, y), tl in tiles.items():
                    ul, ur, lr, ll = tl.corners
                    ce = tt.mid(ll, ur) if tl.increasing else tt.mid(ul, lr)
                    a = tt._equ_to_xyz(lats[y, x], lons[y, x])
                    b = tt._equ_to_xyz(ce[1], ce[0])
                    d = float(np.abs(a - b).max())
                    if d > worst[0]:
                        worst = (d, (tuple(t.pos), y, x))
    return worst


def check(run):
    mod, py = decy.load()
    run.uses("toasty/_libtoasty.pyx:_subsample (decythonised)", "toasty/_libtoasty.pyx:_mid (uninterpreted)", core_u(tt, "_div4"), tt.toast_tile_get_coords)
    val = decy.validate(mod, seed=run.seed)
    ok = val["mid_max_abs_diff"] < 1e-12 and val["subsample16_max_abs_diff"] < 1e-12 and val["bbox_disagreements"] == 0
    run.ob("decythonised-module-matches-compiled-extension", "confirmed" if ok else "inconclusive", "E4:translation-validation",
           "%s (the compiled extension cannot be rebuilt here: no Cython; a disagreement means the .so is stale w.r.t. the .pyx)" % val)
    run.replays += 1
    run.bound(subpixels="n = 1, 2, 4, 8, 16 per side (quick); additionally 64 and the real 256 x 256 = 65 536 centres (thorough)", corners="symbolic (opaque points)",
              orientations="both", depth="any (one tile; the relation composes by C04's route independence)")
    run.assume("great-circle midpoint = uninterpreted commutative function (its geometric meaning is C04's _mid identity); equality is equality of POINTS, not of floating-point bit patterns or of longitudes differing by 2*pi",
               "the compiled _libtoasty agrees with the decythonised .pyx (validated differentially each run, tolerance 1e-12)")
    run.outside("'every pixel centre lies within the latitude range of the tile corners' (trigonometric; not decided)", "float rounding")
    sizes = [1, 2, 4, 8, 16] if run.tier == "quick" else [1, 2, 4, 8, 16, 64, 256]
    for n in sizes:
        for inc in (True, False):
            nm = "subsample-equals-div4-descent[n=%d,%s]" % (n, "increasing" if inc else "decreasing")
            r, cells, napps, dt, bad = euf_subsample(mod, n, inc)
            if r == "unsat":
                run.ob(nm, "unsat", "E4:euf", "%d centre terms over %d mid applications equal modulo commutativity" % (cells, napps), queries=1, solver_s=dt)
            elif r == "sat":
                d, where = concrete_disagreement(max(n, 2) if n > 1 else 2, inc)
                if d > 1e-9:
                    text = ("# compiled subsample vs descent through the real _div4 on real level-2 tiles\nimport sys\nsys.path.insert(0, %r)\nimport props.C05 as P\n"
                            "d, where = P.concrete_disagreement(%d, %r)\nprint(d, where)\nsys.exit(1 if d > 1e-9 else 0)\n") % (str(__import__("vlib.core").core.VERIF), max(n, 2), inc)
                    run.violation(nm, "subsample-vs-div4:%s" % ("increasing" if inc else "decreasing"),
                                  "pixel grid of a tile differs from the centres of its descendants (first differing cell %r; real code: max |xyz difference| %.3g at %r)" % (bad, d, where),
                                  text, "E4:euf", queries=1, solver_s=dt)
                else:
                    d2, where2 = concrete_disagreement(max(n, 2) if n > 1 else 2, inc, csub=decy.load()[0].subsample)
                    if d2 > 1e-9:
                        text = ("# subsample of the CURRENT toasty/_libtoasty.pyx (decythonised) vs descent through the real _div4\nimport sys\nsys.path.insert(0, %r)\nimport props.C05 as P\nfrom vlib import decy\n"
                                "d, where = P.concrete_disagreement(%d, %r, csub=decy.load()[0].subsample)\nprint(d, where)\nsys.exit(1 if d > 1e-9 else 0)\n") % (str(__import__("vlib.core").core.VERIF), max(n, 2), inc)
                        run.violation(nm, "subsample-source-vs-div4:%s" % ("increasing" if inc else "decreasing"),
                                      "the _subsample in toasty/_libtoasty.pyx places pixel centres differently from the tile subdivision (first differing cell %r; decythonised source: max |xyz difference| %.3g at %r); "
                                      "the compiled extension in this sandbox is stale (no Cython to rebuild it) and still agrees" % (bad, d2, where2), text, "E4:euf", queries=1, solver_s=dt)
                    else:
                        run.error(nm, "EUF counterexample at cell %r shows neither on the compiled extension nor on the decythonised source (max diff %.3g)" % (bad, d2))
            else:
                run.ob(nm, "inconclusive", "E4:euf", "solver %s after %.0fs" % (r, dt), queries=1, solver_s=dt)
    # every level and position at once: the tile's (n, x, y) are symbolic integers, so a subdivision rule that depends
    # on the depth or on the position forks the exploration and each variant is decided
    from vlib import symx
    for inc in (True, False):
        nsub = 4 if run.tier == "quick" else 16
        nm = "subsample-equals-div4-descent[any level, any position, n=%d,%s]" % (nsub, "increasing" if inc else "decreasing")
        stats = {}
        res = []

        def h(ctx, inc=inc, nsub=nsub):
            lv, px, py = z3.Int("level"), z3.Int("x"), z3.Int("y")
            ctx.assume(z3.And(lv >= 0, lv <= 64, px >= 0, py >= 0))
            return euf_subsample(mod, nsub, inc, pos0=Pos(symx.SymInt(lv), symx.SymInt(px), symx.SymInt(py)), ctx=ctx), ctx

        t0 = time.time()
        bad = None
        npaths = 0
        for ctx, out in symx.explore(h, stats=stats, max_paths=200, timeout_ms=60000, seed=run.seed):
            npaths += 1
            if not isinstance(out, tuple):
                run.error(nm, "exploration ended with %r" % (out,))
                bad = "error"
                break
            (r, cells, napps, dt, cell), _c = out
            if r != "unsat":
                rr, m = ctx.reachable(True)
                lvl = m.eval(z3.Int("level"), model_completion=True).as_long() if rr == "sat" else None
                bad = (r, cell, lvl)
                break
        dt = time.time() - t0
        if bad is None:
            run.ob(nm, "unsat", "E4:euf+symx", "%d path(s) over the symbolic (level, x, y); each: centre terms equal modulo commutativity" % npaths, queries=stats.get("queries", 0) + npaths, solver_s=dt)
        elif bad != "error":
            r, cell, lvl = bad
            if r != "sat" or lvl is None:
                run.ob(nm, "inconclusive", "E4:euf+symx", "solver %s at level %r" % (r, lvl))
            else:
                kk = 16
                found = None
                for L in [lvl] + [l for l in range(max(2, lvl - 4), lvl + 3) if l != lvl and l >= 2]:
                    d, where = concrete_disagreement(kk, inc, level=L)
                    if d > 1e-9:
                        found = (L, d, where)
                        break
                if found:
                    L, d, where = found
                    text = ("# compiled subsample vs descent through the real _div4 on real level-%d tiles\nimport sys\nsys.path.insert(0, %r)\nimport props.C05 as P\n"
                            "d, where = P.concrete_disagreement(%d, %r, level=%d)\nprint(d, where)\nsys.exit(1 if d > 1e-9 else 0)\n") % (L, str(__import__("vlib.core").core.VERIF), kk, inc, L)
                    run.violation(nm, "subsample-vs-div4:level-dependent:%s" % ("increasing" if inc else "decreasing"),
                                  "for tiles of level %d the pixel grid differs from the centres of the descendants produced by _div4 (%s; real code: max |xyz difference| %.3g at %r)" % (L, cell, d, where),
                                  text, "E4:euf+symx", queries=npaths, solver_s=dt)
                else:
                    run.error(nm, "level-dependent subdivision (%s at level %r) does not show on real tiles of levels %d..%d" % (cell, lvl, max(2, lvl - 4), lvl + 2))
    # argument order at the call site and independence from earlier calls: real toast_tile_get_coords with a recording
    # stand-in for the compiled subsample, over a HISTORY of calls in one process in which the same position occurs with
    # different corners / orientation (the two coordinate systems give such pairs) and the same corners at another position
    calls = []
    saved = tt.subsample
    tt.subsample = lambda *a: calls.append(a) or ("LON%d" % len(calls), "LAT%d" % len(calls))
    A = Tile(Pos(3, 1, 2), ("UL", "UR", "LR", "LL"), "INC")
    B = Tile(Pos(3, 1, 2), ("ul", "ur", "lr", "ll"), "DEC")        # same position, other coordinate system
    C = Tile(Pos(3, 2, 1), ("UL", "UR", "LR", "LL"), "INC")        # same corners, other position
    D = Tile(Pos(11, 1, 2), ("UL'", "UR'", "LR'", "LL'"), "INC")   # same (x, y), deeper level
    hist = [A, B, A, C, D, B]
    outs = []
    try:
        for t in hist:
            outs.append(tt.toast_tile_get_coords(t))
    except Exception as e:  # noqa
        outs.append(("raised", repr(e)))
    finally:
        tt.subsample = saved
    want_calls = [tuple(t.corners) + (256, t.increasing) for t in hist]
    ok = calls == want_calls and outs == [("LON%d" % (k + 1), "LAT%d" % (k + 1)) for k in range(len(hist))]
    if ok:
        run.ob("get-coords-argument-order", "confirmed", "execution", "over a 6-call history (same position with other corners/orientation, same corners at another position, deeper level) "
               "toast_tile_get_coords passes the tile's own corners[0..3], 256, increasing on every call and returns that call's (lons, lats)")
    else:
        text = ("# toast_tile_get_coords over a history of calls: every call must compute from the tile's own corners\nimport sys\nimport toasty.toast as tt\nfrom toasty.toast import Tile\nfrom toasty.pyramid import Pos\n"
                "calls = []\ntt.subsample = lambda *a: calls.append(a) or ('LON%d' % len(calls), 'LAT%d' % len(calls))\n"
                "A = Tile(Pos(3, 1, 2), ('UL', 'UR', 'LR', 'LL'), 'INC'); B = Tile(Pos(3, 1, 2), ('ul', 'ur', 'lr', 'll'), 'DEC')\n"
                "C = Tile(Pos(3, 2, 1), ('UL', 'UR', 'LR', 'LL'), 'INC'); D = Tile(Pos(11, 1, 2), (\"UL'\", \"UR'\", \"LR'\", \"LL'\"), 'INC')\n"
                "hist = [A, B, A, C, D, B]\nouts = [tt.toast_tile_get_coords(t) for t in hist]\n"
                "want = [tuple(t.corners) + (256, t.increasing) for t in hist]\n"
                "bad = calls != want or outs != [('LON%d' % (k + 1), 'LAT%d' % (k + 1)) for k in range(len(hist))]\nprint(calls, outs)\nsys.exit(1 if bad else 0)\n")
        run.violation("get-coords-argument-order", "toast_tile_get_coords:argument-order-or-history",
                      "toast_tile_get_coords over the history A, B(same pos, other corners), A, C, D, B: subsample calls %r, returned %r" % (calls, outs), text, "execution")
