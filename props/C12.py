"""C12 — point lookup returns the tile that actually contains the point (E2: symx on the real descent code).

The REAL toast.toast_tile_for_point / _toast_tile_containment_score / _left_of_half_space_score / _div4 /
_create_level1_tiles run with a SYMBOLIC point.  The Cartesian direction (X, Y, Z) handed to the half-space tests is
symbolic; it is tied to the symbolic longitude only by the sign facts of sine and cosine (trig -> polynomial
abstraction of _equ_to_xyz); tile corners / edge normals are the concrete doubles the real geometry code computes.

  level-1     the real level-1 selection (by longitude) returns a tile whose four edge tests accept the point, in
              both coordinate systems, and lon + 2*pi*m selects the same tile;
  rule        one real iteration of the descent loop with SYMBOLIC child scores picks a child of the current tile: the
              first child scoring exactly 0, else a child of maximal score (position independent);
  cover(T)    for EVERY tile T of levels 1 .. D-1: a point within tolerance delta of T is within delta + gamma of one
              of the four children produced by the real _div4, scored by the real containment function (children
              cover the parent up to rounding gaps) => the child chosen by the rule holds the point within delta+gamma;
  nested      bounded end-to-end: depth 0..2 look-ups are ancestors of each other for every point.
By induction over the levels the tile returned at depth d <= D contains the point within delta_d, where delta_1 = gamma and
delta_{l+1} = 2 (delta_l + gamma) with gamma = 1e-12 (< 1e-9 for d <= 8).
"""
from vlib.core import soft_attr as core_u
import math
import time

import numpy as _np
import z3

import toasty.toast as tt
from toasty.pyramid import Pos
from toasty.toast import Tile, ToastCoordinateSystem
from vlib import e2, symx
from vlib.symx import I, R

PI = math.pi
TWOPI = 2 * math.pi
GAMMA = 1e-12
DEPTH = {"quick": 4, "thorough": 6}
CHUNK = 16


def _delta(level):
    """Tolerance with which a point is known to lie in its level-`level` tile: delta_1 = gamma, delta_{l+1} = 2 (delta_l + gamma)."""
    d = GAMMA
    for _ in range(level - 1):
        d = 2 * (d + GAMMA)
    return d


def _cs(planetary):
    return ToastCoordinateSystem.PLANETARY if planetary else ToastCoordinateSystem.ASTRONOMICAL


def _normals(tile):
    cor = [tt._equ_to_xyz(c[1], c[0]) for c in tile.corners]
    return [_np.cross(cor[0], cor[1]), _np.cross(cor[1], cor[2]), _np.cross(cor[2], cor[3]), _np.cross(cor[3], cor[0])]


def _score_term(tile, x, y, z):
    """z3 term of the real containment score (sum of min(edge test, 0)) for concrete tile geometry."""
    tot = z3.RealVal(0)
    for nv in _normals(tile):
        d = symx.q(float(nv[0])) * x + symx.q(float(nv[1])) * y + symx.q(float(nv[2])) * z
        tot = tot + z3.If(d < 0, d, 0)
    return tot


def _score_float(tile, p):
    return sum(min(float(_np.dot(nv, p)), 0.0) for nv in _normals(tile))


def _direction(w, centre=None):
    """A non-zero direction. Without `centre`: on the unit-cube surface. With the (concrete) centre direction c of a
    tile of level >= 2: scaled so that c.p = 1 — every unit vector within tolerance of such a tile has c.u > 0 and
    1 <= |u / (c.u)| <= 2, which is accounted for in the tolerances (delta doubles per level)."""
    X, Y, Z = w.real("X", -2, 2), w.real("Y", -2, 2), w.real("Z", -2, 2)
    if w.symbolic:
        x, y, z = R(X), R(Y), R(Z)
        if centre is None:
            w.assume(z3.And(x >= -1, x <= 1, y >= -1, y <= 1, z >= -1, z <= 1))
            w.assume(z3.Or(x == 1, x == -1, y == 1, y == -1, z == 1, z == -1))   # non-zero; the tests are homogeneous
        else:
            w.assume(symx.q(float(centre[0])) * x + symx.q(float(centre[1])) * y + symx.q(float(centre[2])) * z == 1)
    else:
        n = math.sqrt(X * X + Y * Y + Z * Z)
        X, Y, Z = X / n, Y / n, Z / n
    return X, Y, Z


class _Patched:
    """toasty.toast with the symbolic direction injected into _equ_to_xyz (symbolic world only)."""

    def __init__(self, w, marker, xyz):
        self.w, self.marker, self.xyz = w, marker, xyz

    def __enter__(self):
        self.saved = (tt._equ_to_xyz, tt.__dict__.get("min"))
        orig = tt._equ_to_xyz
        w, marker, xyz = self.w, self.marker, self.xyz

        def fake_xyz(la, lo_):
            if w.symbolic and la is marker:
                return _np.array(list(xyz), dtype=object)
            return orig(la, lo_)

        tt._equ_to_xyz = fake_xyz
        if w.symbolic:
            tt.min = symx.sym_min
        return self

    def __exit__(self, *a):
        tt._equ_to_xyz = self.saved[0]
        if self.saved[1] is None:
            if "min" in tt.__dict__:
                del tt.min
        else:
            tt.min = self.saved[1]
        return False


class Level1(e2.Case):
    def __init__(self, planetary, q1):
        self.planetary, self.q1 = planetary, q1
        self.name = "level1-%s-q%d" % ("planetary" if planetary else "astronomical", q1)
        self.max_paths = 200

    def run(self, w):
        lo, hi = self.q1 * PI / 2, (self.q1 + 1) * PI / 2
        lon = w.real("lon", lo, hi)
        m = w.int("m", -8, 8)
        X, Y, Z = _direction(w)
        if w.symbolic:
            # sign facts of cos / sin in this quadrant: X = cos(lon) cos(lat), Z = sin(lon) cos(lat), cos(lat) >= 0
            w.assume(R(X) * [1, -1, -1, 1][self.q1] >= 0)
            w.assume(R(Z) * [1, 1, -1, -1][self.q1] >= 0)
            # on the quadrant borders the corresponding coordinate vanishes (cos(pi/2) = 0, sin(0) = sin(pi) = 0)
            zero_lo, zero_hi = (R(Z), R(X)) if self.q1 % 2 == 0 else (R(X), R(Z))
            w.assume(z3.Implies(R(lon) == symx.q(lo), zero_lo == 0))
            w.assume(z3.Implies(R(lon) == symx.q(hi), zero_hi == 0))
            lat = w.real("lat")
        else:
            lat = math.asin(max(-1.0, min(1.0, Y)))
            if abs(X) + abs(Z) > 1e-9:
                lon = math.atan2(Z, X) % TWOPI
        with _Patched(w, lat if w.symbolic else None, (X, Y, Z)):
            t1 = tt.toast_tile_for_point(1, lat, lon, coordsys=_cs(self.planetary))
            t1s = tt.toast_tile_for_point(1, lat, lon + TWOPI * m, coordsys=_cs(self.planetary))
            t0 = tt.toast_tile_for_point(0, lat, lon, coordsys=_cs(self.planetary))
        out = dict(tile=t1, pos=t1.pos, shifted=t1s.pos, pos0=t0.pos, X=X, Y=Y, Z=Z)
        if not w.symbolic:
            out["score"] = _score_float(t1, _np.array([X, Y, Z]))
            fr = (lon / (PI / 2)) % 1.0
            out["near_border"] = min(fr, 1.0 - fr) < 1e-6      # float rounding of lon + 2*pi*m may cross a border there
        return out

    def claims(self, w, o):
        x, y, z = R(o["X"]), R(o["Y"]), R(o["Z"])
        sig = "toast.py:toast_tile_for_point:level1-quadrant-ignores-planetary" if self.planetary else None
        w.claim("level1-tile-contains-point", _score_term(o["tile"], x, y, z) >= -symx.q(GAMMA), probe=lambda ro, val: ro["score"] >= -1e-9, sig=sig,
                what="%s: the level-1 tile chosen by longitude does not contain the point" % self.name)
        w.claim("level1-well-formed", o["pos"].n == 1 and o["pos0"] == Pos(0, 0, 0), probe=lambda ro, val: ro["pos"].n == 1)
        w.claim("periodic-2pi", o["shifted"] == o["pos"], probe=lambda ro, val: ro["shifted"] == ro["pos"] or ro["near_border"], what="lon + 2*pi*m selects another level-1 tile")


def _tiles_at(level, planetary):
    return [t for t in tt.generate_tiles(level, bottom_only=True, coordsys=_cs(planetary))] if level >= 1 else []


class Cover(e2.Case):
    """Geometric half of the inductive step, for every tile T of one chunk of one level: a point within delta of T is
    within delta + gamma of one of T's children.  The children come from the real _div4, their scores from the real
    _toast_tile_containment_score evaluated on the symbolic direction."""

    def __init__(self, level, planetary, chunk):
        self.level, self.planetary, self.chunk = level, planetary, chunk
        self.name = "cover-L%d-%s-%d" % (level, "planetary" if planetary else "astronomical", chunk)
        self.max_paths = 4000
        self.budget_s = 280
        self.conform_paths = 2

    def run(self, w):
        tiles = _tiles_at(self.level, self.planetary)[self.chunk * CHUNK:(self.chunk + 1) * CHUNK]
        k = int(w.int("k", 0, len(tiles) - 1))           # one path per tile
        T = tiles[k]
        centre = None
        if self.level >= 2:
            cv = sum(tt._equ_to_xyz(c[1], c[0]) for c in T.corners)
            centre = cv / _np.linalg.norm(cv)
        X, Y, Z = _direction(w, centre)
        delta = _delta(self.level)
        if w.symbolic:
            for nv in _normals(T):
                w.assume(symx.q(float(nv[0])) * R(X) + symx.q(float(nv[1])) * R(Y) + symx.q(float(nv[2])) * R(Z) >= -symx.q(delta))
            lat = w.real("lat")
            lon = 1.0
        else:
            lat = math.asin(max(-1.0, min(1.0, Y / math.sqrt(X * X + Y * Y + Z * Z))))
            lon = math.atan2(Z, X) % TWOPI
        kids = tt._div4(T)
        with _Patched(w, lat if w.symbolic else None, (X, Y, Z)):
            scores = [tt._toast_tile_containment_score(c, lat, lon) for c in kids]
        out = dict(T=T, kids=kids, scores=scores, X=X, Y=Y, Z=Z)
        if not w.symbolic:
            p = _np.array([X, Y, Z])
            p = p / _np.linalg.norm(p)
            out["best"] = max(_score_float(c, p) for c in kids)
            out["parent_score"] = _score_float(T, p)
        return out

    def claims(self, w, o):
        T, kids = o["T"], o["kids"]
        ok = all(c.pos.n == T.pos.n + 1 and (c.pos.x >> 1, c.pos.y >> 1) == (T.pos.x, T.pos.y) for c in kids) and len({c.pos for c in kids}) == 4
        w.claim("four-children-of-T", ok, probe=lambda ro, val: True)
        delta = _delta(self.level)
        tol = symx.q(delta + GAMMA)
        w.claim("children-cover-parent", z3.Or(*[R(s) >= -tol for s in o["scores"]]),
                probe=lambda ro, val: ro["parent_score"] < -4 * delta - 1e-13 or ro["best"] >= -(delta + GAMMA) - 1e-13,
                what="%s: a point inside tile %s is in none of its four children (beyond the rounding tolerance)" % (self.name, tuple(T.pos)))


class Rule(e2.Case):
    """Selection half of the inductive step: one real iteration of the descent loop with SYMBOLIC child scores picks
    a child of the current tile: the first one scoring exactly 0, else one of maximal score."""

    def __init__(self, planetary):
        self.planetary = planetary
        self.name = "rule-%s" % ("planetary" if planetary else "astronomical")
        self.max_paths = 400

    def run(self, w):
        lvl = int(w.int("lvl", 1, 3))
        T = _tiles_at(lvl, self.planetary)[int(w.int("which", 0, 3))]
        sc = [w.real("s%d" % i, None, 0) for i in range(4)]
        kids = tt._div4(T)
        saved = (tt._create_level1_tiles, tt._toast_tile_containment_score)

        def fake_score(tile, lat, lon):
            for i, c in enumerate(kids):
                if c.pos == tile.pos:
                    return sc[i]
            return -100.0

        tt._create_level1_tiles = lambda coordsys: [T]
        tt._toast_tile_containment_score = fake_score
        try:
            C = tt.toast_tile_for_point(lvl + 1, 0.25, 1.0, coordsys=_cs(self.planetary))
        finally:
            tt._create_level1_tiles, tt._toast_tile_containment_score = saved
        return dict(T=T, C=C, kids=kids, sc=sc, j=[i for i, c in enumerate(kids) if c.pos == C.pos])

    def claims(self, w, o):
        j = o["j"]
        w.claim("picks-a-child", len(j) == 1, probe=lambda ro, val: len(ro["j"]) == 1, what="descent step leaves the parent: look-ups are not nested")
        if not j:
            return
        j = j[0]
        sc = [R(s) for s in o["sc"]]
        first_zero = z3.And(sc[j] == 0, *[sc[i] != 0 for i in range(j)])
        best = z3.And(*[sc[i] != 0 for i in range(4)], *[sc[j] >= sc[i] for i in range(4)])
        w.claim("first-zero-else-best", z3.Or(first_zero, best), probe=lambda ro, val: _rule_ok2(ro),
                what="descent does not pick the first containing child / the least-negative child")
        C, kid = o["C"], o["kids"][j]
        same = all(float(a[0]) == float(b[0]) and float(a[1]) == float(b[1]) for a, b in zip(C.corners, kid.corners)) and C.increasing == kid.increasing
        w.claim("returns-the-child-tile-itself", same, probe=lambda ro, val: True, what="returned tile geometry is not that of the chosen child")


def _rule_ok2(ro):
    s = [float(v) for v in ro["sc"]]
    j = ro["j"][0]
    if s[j] == 0:
        return all(s[i] != 0 for i in range(j))
    return all(v != 0 for v in s) and s[j] >= max(s)


class EndToEnd(e2.Case):
    """Bounded cross-check of the composition: real look-ups at depths 0, 1, 2 for one longitude quadrant."""

    def __init__(self, planetary, q1):
        self.planetary, self.q1 = planetary, q1
        self.name = "nested-d2-%s-q%d" % ("planetary" if planetary else "astronomical", q1)
        self.max_paths = 3000
        self.budget_s = 200

    def run(self, w):
        lo, hi = self.q1 * PI / 2, (self.q1 + 1) * PI / 2
        lon = w.real("lon", lo, hi)
        X, Y, Z = _direction(w)
        if w.symbolic:
            w.assume(R(X) * [1, -1, -1, 1][self.q1] >= 0)
            w.assume(R(Z) * [1, 1, -1, -1][self.q1] >= 0)
            # on the quadrant borders the corresponding coordinate vanishes (cos(pi/2) = 0, sin(0) = sin(pi) = 0)
            zero_lo, zero_hi = (R(Z), R(X)) if self.q1 % 2 == 0 else (R(X), R(Z))
            w.assume(z3.Implies(R(lon) == symx.q(lo), zero_lo == 0))
            w.assume(z3.Implies(R(lon) == symx.q(hi), zero_hi == 0))
            lat = w.real("lat")
        else:
            lat = math.asin(max(-1.0, min(1.0, Y)))
            if abs(X) + abs(Z) > 1e-9:
                lon = math.atan2(Z, X) % TWOPI
        cs = _cs(self.planetary)
        with _Patched(w, lat if w.symbolic else None, (X, Y, Z)):
            ps = [tt.toast_tile_for_point(d, lat, lon, coordsys=cs) for d in (0, 1, 2)]
        out = dict(p0=ps[0].pos, p1=ps[1].pos, p2=ps[2].pos, t2=ps[2], X=X, Y=Y, Z=Z)
        if not w.symbolic:
            out["score2"] = _score_float(ps[2], _np.array([X, Y, Z]))
        return out

    def claims(self, w, o):
        p0, p1, p2 = o["p0"], o["p1"], o["p2"]
        ok = p0 == Pos(0, 0, 0) and p1 == Pos(1, p2.x >> 1, p2.y >> 1) and p2.n == 2
        w.claim("nested-0-1-2", ok, probe=lambda ro, val: ro["p1"] == Pos(1, ro["p2"].x >> 1, ro["p2"].y >> 1), what="look-ups at depth 1 and 2 are not nested")
        x, y, z = R(o["X"]), R(o["Y"]), R(o["Z"])
        sig = "toast.py:toast_tile_for_point:level1-quadrant-ignores-planetary" if self.planetary else None
        w.claim("depth2-tile-contains-point", _score_term(o["t2"], x, y, z) >= -symx.q(_delta(2) + GAMMA), probe=lambda ro, val: ro["score2"] >= -1e-9, sig=sig,
                what="%s: the depth-2 tile does not contain the point" % self.name)


class _FitNP:
    """numpy stand-in for the least-squares part of toast_pixel_for_point (symbolic world only): everything is the
    symbolic shim except the pieces that cannot be encoded, which get their mathematical meaning ON AN AFFINE GRID:
      argmin(dist2)          -> the flat index of the pixel the harness declared nearest to the point
      array([...]).T, lstsq  -> the exact least-squares solution when the fitted target is an affine function of the
                                two coordinates (residual 0): target(lon, lat) = b[0] + (b[1]-b[0]) * (lon - lon_[0]) / dlon
                                                                                + (b[w]-b[0]) * (lat - lat_[0]) / dlat
                                evaluated from the FIRST stamp element and the stamp's own width w (np.indices' argument)."""

    def __init__(self, shim, nearest, dlon, dlat):
        self._shim, self._nearest, self._dlon, self._dlat = shim, nearest, dlon, dlat
        self._stamp_shape = None
        self.linalg = self

    def __getattr__(self, n):
        return getattr(self._shim, n)

    def argmin(self, a, *args, **kw):
        return self._nearest[0] * 256 + self._nearest[1]

    def unravel_index(self, k, shape):
        return (symx.sym_int(k) // shape[1], symx.sym_int(k) % shape[1]) if isinstance(k, symx.SymInt) else _np.unravel_index(k, shape)

    def indices(self, shape):
        from vlib.symnp import SArr
        self._stamp_shape = tuple(shape)
        return (SArr(tuple(shape), _np.dtype("int64"), lambda idx: idx[0]), SArr(tuple(shape), _np.dtype("int64"), lambda idx: idx[1]))

    class _Design:
        def __init__(self, cols):
            self.cols = cols

        @property
        def T(self):
            return self

    def array(self, obj, *a, **k):
        from vlib.symnp import SArr
        if isinstance(obj, list) and obj and isinstance(obj[1], SArr):
            return _FitNP._Design(obj)
        if isinstance(obj, list):
            return list(obj)
        return self._shim.array(obj, *a, **k)

    def lstsq(self, A, b, rcond=None):
        return ("COEFF", A, b), None, None, None

    def dot(self, coeff, pt):
        _tag, A, b = coeff
        lon_, lat_ = A.cols[1], A.cols[2]            # columns of the design matrix: 1, lon, lat, lon^2, lon*lat, lat^2
        w = self._stamp_shape[1]
        b0 = R(b.get((0,)))
        dcol = R(b.get((1,))) - b0                   # target step per column of the stamp
        drow = R(b.get((I(w),))) - b0                # target step per row of the stamp
        l0, a0 = lon_.get((0,)).val, lat_.get((0,)).val
        return symx.SymReal(z3.ToReal(b0) if z3.is_int(b0) else b0) + symx.SymReal(dcol * (R(pt[1]) - l0) / self._dlon) + symx.SymReal(drow * (R(pt[2]) - a0) / self._dlat)


class PixelStamp(e2.Case):
    """toast_pixel_for_point's fit on an AFFINE pixel grid (lon = lon0 + c*d, lat = lat0 - r*d): the returned fractional
    position must be the point's true fractional position, wherever in the tile the nearest pixel lies (symbolic,
    including the rows / columns where the 9x9 fitting stamp is truncated by the tile edge)."""

    D = 1.0 / 1024

    def __init__(self):
        self.name = "pixel-stamp"
        self.max_paths = 200

    def run(self, w):
        d = self.D
        ky = w.int("ky", 0, 255)
        kx = w.int("kx", 0, 255)
        lon0 = w.real("lon0", 0.5, 5.0)
        lat0 = w.real("lat0", -1.0, 1.0)
        fx = w.real("fx", -0.5, 0.5)            # the point, as an offset from the centre of its nearest pixel (pixel units)
        fy = w.real("fy", -0.5, 0.5)
        if w.symbolic:
            lon = symx.SymReal(R(lon0) + (z3.ToReal(I(kx)) + R(fx)) * symx.q(d))
            lat = symx.SymReal(R(lat0) - (z3.ToReal(I(ky)) + R(fy)) * symx.q(d))
            from vlib.symnp import SArr, FElem
            lons = SArr((256, 256), _np.dtype("float64"), lambda idx: FElem(z3.BoolVal(False), R(lon0) + z3.ToReal(idx[1]) * symx.q(d)))
            lats = SArr((256, 256), _np.dtype("float64"), lambda idx: FElem(z3.BoolVal(False), R(lat0) - z3.ToReal(idx[0]) * symx.q(d)))
            fit_np = _FitNP(w.np, (ky, kx), symx.q(d), -symx.q(d))
        else:
            lon = lon0 + (kx + fx) * d
            lat = lat0 - (ky + fy) * d
            lons = _np.tile(lon0 + _np.arange(256) * d, (256, 1))
            lats = _np.tile((lat0 - _np.arange(256) * d)[:, None], (1, 256))
        tile = Tile(Pos(5, 3, 4), ((0, 0),) * 4, True)
        saved = (tt.toast_tile_for_point, tt.toast_tile_get_coords)
        tt.toast_tile_for_point = lambda depth, la, lo_, coordsys=None: tile
        tt.toast_tile_get_coords = lambda t: (lons, lats)
        try:
            if w.symbolic:
                with w.patched(tt, names=("np", "max", "min"), extra={"np": fit_np}):
                    t, x, y = tt.toast_pixel_for_point(5, lat, lon)
            else:
                t, x, y = tt.toast_pixel_for_point(5, lat, lon)
        finally:
            tt.toast_tile_for_point, tt.toast_tile_get_coords = saved
        return dict(x=x, y=y, kx=kx, ky=ky, fx=fx, fy=fy, same_tile=t is tile)

    def claims(self, w, o):
        tx = z3.ToReal(I(o["kx"])) + R(o["fx"])
        ty = z3.ToReal(I(o["ky"])) + R(o["fy"])
        x, y = R(o["x"]), R(o["y"])
        w.claim("returned-position-is-the-points-position", z3.And(x - tx <= 2, tx - x <= 2, y - ty <= 2, ty - y <= 2, o["same_tile"]),
                probe=lambda ro, val: abs(float(ro["x"]) - (ro["kx"] + ro["fx"])) <= 2 and abs(float(ro["y"]) - (ro["ky"] + ro["fy"])) <= 2,
                what="toast_pixel_for_point on an affine pixel grid: the returned fractional pixel is more than 2 pixels from the point's position (nearest pixel at a symbolic place, incl. the tile's border rows / columns where the fitting stamp is truncated)")


def cases(tier):
    out = [PixelStamp()]
    D = DEPTH[tier]
    for planetary in (False, True):
        for q in range(4):
            out.append(Level1(planetary, q))
            out.append(EndToEnd(planetary, q))
        out.append(Rule(planetary))
        for level in range(1, D):
            n = 4 ** level
            for ch in range((n + CHUNK - 1) // CHUNK):
                out.append(Cover(level, planetary, ch))
    return out


def _all_tiles(depth, planetary):
    out = []

    def rec(t, lvl):
        out.append(t)
        if lvl < depth:
            for c in tt._div4(t):
                rec(c, lvl + 1)
    for t1 in tt._create_level1_tiles(_cs(planetary)):
        rec(t1, 1)
    return out


def pixel_error(depth, lat, lon, planetary):
    """Real toast_pixel_for_point vs. the pixel of the returned tile whose centre is nearest to the point (great-circle
    distance, independent of longitude branches).  -> (max |dx|, |dy| in pixels, details)"""
    tile, x, y = tt.toast_pixel_for_point(depth, lat, lon, coordsys=_cs(planetary))
    lons, lats = tt.toast_tile_get_coords(tile)
    cosd = _np.sin(lats) * math.sin(lat) + _np.cos(lats) * math.cos(lat) * _np.cos(lons - lon)
    ny, nx = _np.unravel_index(_np.argmax(cosd), cosd.shape)
    return max(abs(float(x) - nx), abs(float(y) - ny)), dict(tile=tuple(tile.pos), returned=(float(x), float(y)), nearest=(int(nx), int(ny)))


SIG_PIXEL = "toast.py:toast_pixel_for_point:longitude-branch"


def pixel_branch(run, depth):
    """For every real tile of levels 1..depth (pixel longitudes from the real toast_tile_get_coords) the solver looks
    for a documented query longitude lon in [0, 2*pi] that lies in the tile's longitude range modulo 2*pi while a pixel
    longitude of the tile is more than pi away from it as a NUMBER: toast_pixel_for_point compares those numbers
    (planar distance), so such a query cannot select the nearest pixel.  Each hit is replayed on the real function."""
    t0 = time.time()
    nq = 0
    hits = []
    for planetary in (False, True):
        for t in _all_tiles(depth, planetary):
            c = _np.asarray(t.corners, dtype=float)
            if c[:, 1].max() > PI / 2 - math.radians(1.5) or c[:, 1].min() < -PI / 2 + math.radians(1.5):
                continue        # the property exempts the neighbourhood of the poles
            lons, lats = tt.toast_tile_get_coords(t)
            lc = float(lons[128, 128])
            un = lons - TWOPI * _np.round((lons - lc) / TWOPI)
            lo, hi = float(un.min()), float(un.max())
            lon, k = z3.Real("lon"), z3.Int("k")
            s = z3.Solver()
            s.set("timeout", 30000)
            s.add(lon >= 0, lon <= symx.q(TWOPI), k >= -3, k <= 3, lon + symx.q(TWOPI) * z3.ToReal(k) >= symx.q(lo), lon + symx.q(TWOPI) * z3.ToReal(k) <= symx.q(hi))
            s.add(z3.Or(symx.q(float(lons.max())) - lon > symx.q(PI), lon - symx.q(float(lons.min())) > symx.q(PI)))
            # prefer the middle of the admissible range
            r = s.check()
            nq += 1
            if str(r) == "sat":
                m = s.model()
                v = m.eval(lon, model_completion=True)
                lonv = float(v.numerator_as_long()) / float(v.denominator_as_long())
                latv = float(lats[128, 128])
                # move the query longitude to the tile centre's representative in [0, 2 pi] when that is also a hit
                cen = lc % TWOPI
                if max(float(lons.max()) - cen, cen - float(lons.min())) > PI:
                    lonv = cen
                hits.append((planetary, tuple(int(v) for v in t.pos), latv, lonv))
            elif str(r) != "unsat":
                run.ob("pixel-branch[%s]" % (tuple(t.pos),), "inconclusive", "z3", "solver %s" % r)
    reported = False
    confirmed = 0
    for planetary, pos, latv, lonv in hits:
        err, info = pixel_error(pos[0], latv, lonv, planetary)
        run.replays += 1
        if err > 2.0:
            confirmed += 1
            if not reported:
                reported = True
                text = ("# real toast_pixel_for_point vs the nearest pixel centre of the returned tile\nimport sys\nsys.path.insert(0, %r)\nimport props.C12 as P\n"
                        "err, info = P.pixel_error(%d, %r, %r, %r)\nprint(err, info)\nsys.exit(1 if err > 2.0 else 0)\n") % (str(__import__("vlib.core").core.VERIF), pos[0], latv, lonv, planetary)
                run.violation("pixel-branch", SIG_PIXEL, "toast_pixel_for_point(%d, lat=%r, lon=%r, %s) returns pixel %r of tile %r; the pixel whose centre is nearest to the point is %r (off by %.0f pixels): the tile's pixel "
                              "longitudes are on another 2*pi branch than the query longitude and are compared as numbers" % (pos[0], latv, lonv, "planetary" if planetary else "astronomical", info["returned"], info["tile"], info["nearest"], err),
                              text, "z3+replay", queries=nq, solver_s=time.time() - t0)
    if not hits:
        run.ob("pixel-branch", "unsat", "z3", "%d tile queries (levels 1..%d, both systems, tiles within 1.5 degrees of a pole exempt): no documented query longitude in a tile's range is more than pi away from that tile's pixel longitudes" % (nq, depth),
               queries=nq, solver_s=time.time() - t0)
    elif not confirmed:
        run.ob("pixel-branch", "confirmed", "z3+replay", "%d tiles whose pixel longitudes are more than pi from a query longitude in their range; the real function still returns the nearest pixel (within 2) for all of them" % len(hits),
               queries=nq, solver_s=time.time() - t0)
    elif reported:
        run.ob("pixel-branch.count", "violated", "z3+replay", "%d of %d branch-mismatch tiles reproduce a pixel error > 2" % (confirmed, len(hits)))


def check(run):
    run.uses(tt.toast_tile_for_point, core_u(tt, "_toast_tile_containment_score"), core_u(tt, "_left_of_half_space_score"), core_u(tt, "_div4"), core_u(tt, "_create_level1_tiles"), tt.generate_tiles)
    D = DEPTH[run.tier]
    run.bound(depth="inductive step executed from every tile of levels 1 .. %d (=> look-ups to depth %d); end-to-end nesting to depth 2" % (D - 1, D),
              point="every direction (X, Y, Z) (symbolic reals on the unit-cube surface), every longitude in [0, 2*pi] (+ 2*pi*m, |m| <= 8)",
              tolerance="gamma = 1e-12 per level (points on shared edges / in rounding gaps between children may resolve to either neighbour)", coordsys="both")
    run.assume("the point's Cartesian direction is tied to its longitude only by the sign facts of sin / cos (sound abstraction of _equ_to_xyz; latitude free)",
               "tile corners / edge normals are the concrete doubles computed by the real geometry code; edge tests evaluated exactly (rationals) on them",
               "builtin min inside toasty.toast replaced by a branch-free symbolic equivalent; _create_level1_tiles replaced by [T] to start one loop iteration at T")
    run.outside("depths beyond %d" % D, "the <= 2 pixel accuracy of toast_pixel_for_point's least-squares fit on a real (curved) TOAST grid (np.linalg.lstsq; not encodable) — decided are the consistency of the longitude branch it compares on (pixel-branch) and the stamp / origin arithmetic around the fit on an affine grid, where the exact least-squares solution is known in closed form (pixel-stamp)",
                "float rounding inside _equ_to_xyz and the dot products of the real test")
    run.composition.append("level-1 + step(T) for all T of levels 1..D-1 => by induction the depth-d tile holds the point within d*gamma; nesting because depth d+1 extends the same deterministic prefix (step: picks-a-child)")
    only = getattr(run, "only", None)
    if not only or any("pixel" in o for o in only):
        run.uses(tt.toast_pixel_for_point, tt.toast_tile_get_coords)
        pixel_branch(run, 3 if run.tier == "quick" else 5)
    e2.run_cases_parallel(run, __name__)
