"""C12 — point lookup returns the tile that actually contains the point (E2: symx on the real descent code).

The REAL toast.toast_tile_for_point / _toast_tile_containment_score / _left_of_half_space_score / _div4 /
_create_level1_tiles run with a SYMBOLIC point.  The Cartesian direction (X, Y, Z) handed to the half-space tests is
symbolic; it is tied to the symbolic longitude only by the sign facts of sine and cosine (trig -> polynomial
abstraction of _equ_to_xyz); tile corners / edge normals are the concrete doubles the real geometry code computes.

  level-1     the real level-1 selection (by longitude) returns a tile whose four edge tests accept the point, in
              both coordinate systems, and lon + 2*pi*m selects the same tile;
  rule        one real iteration of the descent loop with SYMBOLIC child scores picks a child of the current tile: the
              first child scoring exactly 0, else a child of maximal score (position independent);
  cover(T)    for EVERY tile T of levels 1 .. D-1: a point within tolerance delta of T is within delta + gamma of one
              of the four children produced by the real _div4, scored by the real containment function (children
              cover the parent up to rounding gaps) => the child chosen by the rule holds the point within delta+gamma;
  nested      bounded end-to-end: depth 0..2 look-ups are ancestors of each other for every point.
By induction over the levels the tile returned at depth d <= D contains the point within delta_d, where delta_1 = gamma and
delta_{l+1} = 2 (delta_l + gamma) with gamma = 1e-12 (< 1e-9 for d <= 8).
"""
import math

import numpy as _np
import z3

import toasty.toast as tt
from toasty.pyramid import Pos
from toasty.toast import Tile, ToastCoordinateSystem
from vlib import e2, symx
from vlib.symx import I, R

PI = math.pi
TWOPI = 2 * math.pi
GAMMA = 1e-12
DEPTH = {"quick": 4, "thorough": 6}
CHUNK = 16


def _delta(level):
    """Tolerance with which a point is known to lie in its level-`level` tile: delta_1 = gamma, delta_{l+1} = 2 (delta_l + gamma)."""
    d = GAMMA
    for _ in range(level - 1):
        d = 2 * (d + GAMMA)
    return d


def _cs(planetary):
    return ToastCoordinateSystem.PLANETARY if planetary else ToastCoordinateSystem.ASTRONOMICAL


def _normals(tile):
    cor = [tt._equ_to_xyz(c[1], c[0]) for c in tile.corners]
    return [_np.cross(cor[0], cor[1]), _np.cross(cor[1], cor[2]), _np.cross(cor[2], cor[3]), _np.cross(cor[3], cor[0])]


def _score_term(tile, x, y, z):
    """z3 term of the real containment score (sum of min(edge test, 0)) for concrete tile geometry."""
    tot = z3.RealVal(0)
    for nv in _normals(tile):
        d = symx.q(float(nv[0])) * x + symx.q(float(nv[1])) * y + symx.q(float(nv[2])) * z
        tot = tot + z3.If(d < 0, d, 0)
    return tot


def _score_float(tile, p):
    return sum(min(float(_np.dot(nv, p)), 0.0) for nv in _normals(tile))


def _direction(w, centre=None):
    """A non-zero direction. Without `centre`: on the unit-cube surface. With the (concrete) centre direction c of a
    tile of level >= 2: scaled so that c.p = 1 — every unit vector within tolerance of such a tile has c.u > 0 and
    1 <= |u / (c.u)| <= 2, which is accounted for in the tolerances (delta doubles per level)."""
    X, Y, Z = w.real("X", -2, 2), w.real("Y", -2, 2), w.real("Z", -2, 2)
    if w.symbolic:
        x, y, z = R(X), R(Y), R(Z)
        if centre is None:
            w.assume(z3.And(x >= -1, x <= 1, y >= -1, y <= 1, z >= -1, z <= 1))
            w.assume(z3.Or(x == 1, x == -1, y == 1, y == -1, z == 1, z == -1))   # non-zero; the tests are homogeneous
        else:
            w.assume(symx.q(float(centre[0])) * x + symx.q(float(centre[1])) * y + symx.q(float(centre[2])) * z == 1)
    else:
        n = math.sqrt(X * X + Y * Y + Z * Z)
        X, Y, Z = X / n, Y / n, Z / n
    return X, Y, Z


class _Patched:
    """toasty.toast with the symbolic direction injected into _equ_to_xyz (symbolic world only)."""

    def __init__(self, w, marker, xyz):
        self.w, self.marker, self.xyz = w, marker, xyz

    def __enter__(self):
        self.saved = (tt._equ_to_xyz, tt.__dict__.get("min"))
        orig = tt._equ_to_xyz
        w, marker, xyz = self.w, self.marker, self.xyz

        def fake_xyz(la, lo_):
            if w.symbolic and la is marker:
                return _np.array(list(xyz), dtype=object)
            return orig(la, lo_)

        tt._equ_to_xyz = fake_xyz
        if w.symbolic:
            tt.min = symx.sym_min
        return self

    def __exit__(self, *a):
        tt._equ_to_xyz = self.saved[0]
        if self.saved[1] is None:
            if "min" in tt.__dict__:
                del tt.min
        else:
            tt.min = self.saved[1]
        return False


class Level1(e2.Case):
    def __init__(self, planetary, q1):
        self.planetary, self.q1 = planetary, q1
        self.name = "level1-%s-q%d" % ("planetary" if planetary else "astronomical", q1)
        self.max_paths = 200

    def run(self, w):
        lo, hi = self.q1 * PI / 2, (self.q1 + 1) * PI / 2
        lon = w.real("lon", lo, hi)
        m = w.int("m", -8, 8)
        X, Y, Z = _direction(w)
        if w.symbolic:
            # sign facts of cos / sin in this quadrant: X = cos(lon) cos(lat), Z = sin(lon) cos(lat), cos(lat) >= 0
            w.assume(R(X) * [1, -1, -1, 1][self.q1] >= 0)
            w.assume(R(Z) * [1, 1, -1, -1][self.q1] >= 0)
            # on the quadrant borders the corresponding coordinate vanishes (cos(pi/2) = 0, sin(0) = sin(pi) = 0)
            zero_lo, zero_hi = (R(Z), R(X)) if self.q1 % 2 == 0 else (R(X), R(Z))
            w.assume(z3.Implies(R(lon) == symx.q(lo), zero_lo == 0))
            w.assume(z3.Implies(R(lon) == symx.q(hi), zero_hi == 0))
            lat = w.real("lat")
        else:
            lat = math.asin(max(-1.0, min(1.0, Y)))
            if abs(X) + abs(Z) > 1e-9:
                lon = math.atan2(Z, X) % TWOPI
        with _Patched(w, lat if w.symbolic else None, (X, Y, Z)):
            t1 = tt.toast_tile_for_point(1, lat, lon, coordsys=_cs(self.planetary))
            t1s = tt.toast_tile_for_point(1, lat, lon + TWOPI * m, coordsys=_cs(self.planetary))
            t0 = tt.toast_tile_for_point(0, lat, lon, coordsys=_cs(self.planetary))
        out = dict(tile=t1, pos=t1.pos, shifted=t1s.pos, pos0=t0.pos, X=X, Y=Y, Z=Z)
        if not w.symbolic:
            out["score"] = _score_float(t1, _np.array([X, Y, Z]))
            fr = (lon / (PI / 2)) % 1.0
            out["near_border"] = min(fr, 1.0 - fr) < 1e-6      # float rounding of lon + 2*pi*m may cross a border there
        return out

    def claims(self, w, o):
        x, y, z = R(o["X"]), R(o["Y"]), R(o["Z"])
        sig = "toast.py:toast_tile_for_point:level1-quadrant-ignores-planetary" if self.planetary else None
        w.claim("level1-tile-contains-point", _score_term(o["tile"], x, y, z) >= -symx.q(GAMMA), probe=lambda ro, val: ro["score"] >= -1e-9, sig=sig,
                what="%s: the level-1 tile chosen by longitude does not contain the point" % self.name)
        w.claim("level1-well-formed", o["pos"].n == 1 and o["pos0"] == Pos(0, 0, 0), probe=lambda ro, val: ro["pos"].n == 1)
        w.claim("periodic-2pi", o["shifted"] == o["pos"], probe=lambda ro, val: ro["shifted"] == ro["pos"] or ro["near_border"], what="lon + 2*pi*m selects another level-1 tile")


def _tiles_at(level, planetary):
    return [t for t in tt.generate_tiles(level, bottom_only=True, coordsys=_cs(planetary))] if level >= 1 else []


class Cover(e2.Case):
    """Geometric half of the inductive step, for every tile T of one chunk of one level: a point within delta of T is
    within delta + gamma of one of T's children.  The children come from the real _div4, their scores from the real
    _toast_tile_containment_score evaluated on the symbolic direction."""

    def __init__(self, level, planetary, chunk):
        self.level, self.planetary, self.chunk = level, planetary, chunk
        self.name = "cover-L%d-%s-%d" % (level, "planetary" if planetary else "astronomical", chunk)
        self.max_paths = 4000
        self.budget_s = 280
        self.conform_paths = 2

    def run(self, w):
        tiles = _tiles_at(self.level, self.planetary)[self.chunk * CHUNK:(self.chunk + 1) * CHUNK]
        k = int(w.int("k", 0, len(tiles) - 1))           # one path per tile
        T = tiles[k]
        centre = None
        if self.level >= 2:
            cv = sum(tt._equ_to_xyz(c[1], c[0]) for c in T.corners)
            centre = cv / _np.linalg.norm(cv)
        X, Y, Z = _direction(w, centre)
        delta = _delta(self.level)
        if w.symbolic:
            for nv in _normals(T):
                w.assume(symx.q(float(nv[0])) * R(X) + symx.q(float(nv[1])) * R(Y) + symx.q(float(nv[2])) * R(Z) >= -symx.q(delta))
            lat = w.real("lat")
            lon = 1.0
        else:
            lat = math.asin(max(-1.0, min(1.0, Y / math.sqrt(X * X + Y * Y + Z * Z))))
            lon = math.atan2(Z, X) % TWOPI
        kids = tt._div4(T)
        with _Patched(w, lat if w.symbolic else None, (X, Y, Z)):
            scores = [tt._toast_tile_containment_score(c, lat, lon) for c in kids]
        out = dict(T=T, kids=kids, scores=scores, X=X, Y=Y, Z=Z)
        if not w.symbolic:
            p = _np.array([X, Y, Z])
            p = p / _np.linalg.norm(p)
            out["best"] = max(_score_float(c, p) for c in kids)
            out["parent_score"] = _score_float(T, p)
        return out

    def claims(self, w, o):
        T, kids = o["T"], o["kids"]
        ok = all(c.pos.n == T.pos.n + 1 and (c.pos.x >> 1, c.pos.y >> 1) == (T.pos.x, T.pos.y) for c in kids) and len({c.pos for c in kids}) == 4
        w.claim("four-children-of-T", ok, probe=lambda ro, val: True)
        delta = _delta(self.level)
        tol = symx.q(delta + GAMMA)
        w.claim("children-cover-parent", z3.Or(*[R(s) >= -tol for s in o["scores"]]),
                probe=lambda ro, val: ro["parent_score"] < -4 * delta - 1e-13 or ro["best"] >= -(delta + GAMMA) - 1e-13,
                what="%s: a point inside tile %s is in none of its four children (beyond the rounding tolerance)" % (self.name, tuple(T.pos)))


class Rule(e2.Case):
    """Selection half of the inductive step: one real iteration of the descent loop with SYMBOLIC child scores picks
    a child of the current tile: the first one scoring exactly 0, else one of maximal score."""

    def __init__(self, planetary):
        self.planetary = planetary
        self.name = "rule-%s" % ("planetary" if planetary else "astronomical")
        self.max_paths = 400

    def run(self, w):
        lvl = int(w.int("lvl", 1, 3))
        T = _tiles_at(lvl, self.planetary)[int(w.int("which", 0, 3))]
        sc = [w.real("s%d" % i, None, 0) for i in range(4)]
        kids = tt._div4(T)
        saved = (tt._create_level1_tiles, tt._toast_tile_containment_score)

        def fake_score(tile, lat, lon):
            for i, c in enumerate(kids):
                if c.pos == tile.pos:
                    return sc[i]
            return -100.0

        tt._create_level1_tiles = lambda coordsys: [T]
        tt._toast_tile_containment_score = fake_score
        try:
            C = tt.toast_tile_for_point(lvl + 1, 0.25, 1.0, coordsys=_cs(self.planetary))
        finally:
            tt._create_level1_tiles, tt._toast_tile_containment_score = saved
        return dict(T=T, C=C, kids=kids, sc=sc, j=[i for i, c in enumerate(kids) if c.pos == C.pos])

    def claims(self, w, o):
        j = o["j"]
        w.claim("picks-a-child", len(j) == 1, probe=lambda ro, val: len(ro["j"]) == 1, what="descent step leaves the parent: look-ups are not nested")
        if not j:
            return
        j = j[0]
        sc = [R(s) for s in o["sc"]]
        first_zero = z3.And(sc[j] == 0, *[sc[i] != 0 for i in range(j)])
        best = z3.And(*[sc[i] != 0 for i in range(4)], *[sc[j] >= sc[i] for i in range(4)])
        w.claim("first-zero-else-best", z3.Or(first_zero, best), probe=lambda ro, val: _rule_ok2(ro),
                what="descent does not pick the first containing child / the least-negative child")
        C, kid = o["C"], o["kids"][j]
        same = all(float(a[0]) == float(b[0]) and float(a[1]) == float(b[1]) for a, b in zip(C.corners, kid.corners)) and C.increasing == kid.increasing
        w.claim("returns-the-child-tile-itself", same, probe=lambda ro, val: True, what="returned tile geometry is not that of the chosen child")


def _rule_ok2(ro):
    s = [float(v) for v in ro["sc"]]
    j = ro["j"][0]
    if s[j] == 0:
        return all(s[i] != 0 for i in range(j))
    return all(v != 0 for v in s) and s[j] >= max(s)


class EndToEnd(e2.Case):
    """Bounded cross-check of the composition: real look-ups at depths 0, 1, 2 for one longitude quadrant."""

    def __init__(self, planetary, q1):
        self.planetary, self.q1 = planetary, q1
        self.name = "nested-d2-%s-q%d" % ("planetary" if planetary else "astronomical", q1)
        self.max_paths = 3000
        self.budget_s = 200

    def run(self, w):
        lo, hi = self.q1 * PI / 2, (self.q1 + 1) * PI / 2
        lon = w.real("lon", lo, hi)
        X, Y, Z = _direction(w)
        if w.symbolic:
            w.assume(R(X) * [1, -1, -1, 1][self.q1] >= 0)
            w.assume(R(Z) * [1, 1, -1, -1][self.q1] >= 0)
            # on the quadrant borders the corresponding coordinate vanishes (cos(pi/2) = 0, sin(0) = sin(pi) = 0)
            zero_lo, zero_hi = (R(Z), R(X)) if self.q1 % 2 == 0 else (R(X), R(Z))
            w.assume(z3.Implies(R(lon) == symx.q(lo), zero_lo == 0))
            w.assume(z3.Implies(R(lon) == symx.q(hi), zero_hi == 0))
            lat = w.real("lat")
        else:
            lat = math.asin(max(-1.0, min(1.0, Y)))
            if abs(X) + abs(Z) > 1e-9:
                lon = math.atan2(Z, X) % TWOPI
        cs = _cs(self.planetary)
        with _Patched(w, lat if w.symbolic else None, (X, Y, Z)):
            ps = [tt.toast_tile_for_point(d, lat, lon, coordsys=cs) for d in (0, 1, 2)]
        out = dict(p0=ps[0].pos, p1=ps[1].pos, p2=ps[2].pos, t2=ps[2], X=X, Y=Y, Z=Z)
        if not w.symbolic:
            out["score2"] = _score_float(ps[2], _np.array([X, Y, Z]))
        return out

    def claims(self, w, o):
        p0, p1, p2 = o["p0"], o["p1"], o["p2"]
        ok = p0 == Pos(0, 0, 0) and p1 == Pos(1, p2.x >> 1, p2.y >> 1) and p2.n == 2
        w.claim("nested-0-1-2", ok, probe=lambda ro, val: ro["p1"] == Pos(1, ro["p2"].x >> 1, ro["p2"].y >> 1), what="look-ups at depth 1 and 2 are not nested")
        x, y, z = R(o["X"]), R(o["Y"]), R(o["Z"])
        sig = "toast.py:toast_tile_for_point:level1-quadrant-ignores-planetary" if self.planetary else None
        w.claim("depth2-tile-contains-point", _score_term(o["t2"], x, y, z) >= -symx.q(_delta(2) + GAMMA), probe=lambda ro, val: ro["score2"] >= -1e-9, sig=sig,
                what="%s: the depth-2 tile does not contain the point" % self.name)


def cases(tier):
    out = []
    D = DEPTH[tier]
    for planetary in (False, True):
        for q in range(4):
            out.append(Level1(planetary, q))
            out.append(EndToEnd(planetary, q))
        out.append(Rule(planetary))
        for level in range(1, D):
            n = 4 ** level
            for ch in range((n + CHUNK - 1) // CHUNK):
                out.append(Cover(level, planetary, ch))
    return out


def check(run):
    run.uses(tt.toast_tile_for_point, tt._toast_tile_containment_score, tt._left_of_half_space_score, tt._div4, tt._create_level1_tiles, tt.generate_tiles)
    D = DEPTH[run.tier]
    run.bound(depth="inductive step executed from every tile of levels 1 .. %d (=> look-ups to depth %d); end-to-end nesting to depth 2" % (D - 1, D),
              point="every direction (X, Y, Z) (symbolic reals on the unit-cube surface), every longitude in [0, 2*pi] (+ 2*pi*m, |m| <= 8)",
              tolerance="gamma = 1e-12 per level (points on shared edges / in rounding gaps between children may resolve to either neighbour)", coordsys="both")
    run.assume("the point's Cartesian direction is tied to its longitude only by the sign facts of sin / cos (sound abstraction of _equ_to_xyz; latitude free)",
               "tile corners / edge normals are the concrete doubles computed by the real geometry code; edge tests evaluated exactly (rationals) on them",
               "builtin min inside toasty.toast replaced by a branch-free symbolic equivalent; _create_level1_tiles replaced by [T] to start one loop iteration at T")
    run.outside("depths beyond %d" % D, "the <= 2 pixel accuracy of toast_pixel_for_point's least-squares fit (np.linalg.lstsq; not encodable)",
                "float rounding inside _equ_to_xyz and the dot products of the real test")
    run.composition.append("level-1 + step(T) for all T of levels 1..D-1 => by induction the depth-d tile holds the point within d*gamma; nesting because depth d+1 extends the same deterministic prefix (step: picks-a-child)")
    e2.run_cases_parallel(run, __name__)
