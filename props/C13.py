"""C13 — quadtree enumeration and tile counts (E1: CrossHair on the real functions, inductive cuts)."""
from vlib.core import soft_attr as core_u
import os

import toasty.pyramid as tp
import toasty.toast as tt
from vlib import chx

HARNESS = os.path.join(os.path.dirname(__file__), "chx_C13.py")

QUICK = [
    ("chk_parent_child", 60), ("chk_parent_inverse", 60), ("chk_parent_root_rejected", 30), ("chk_subtile_closed_form", 90), ("chk_subtile_step", 60),
    ("chk_postfix_pos_level", 40), ("chk_generate_pos_root", 30), ("chk_postfix_corner_level", 60),
    ("chk_generate_tiles_filtered_top", 90),
    ("chk_subpyramid_generic", 120), ("chk_position_filter", 120), ("chk_subpyramid_toast", 150), ("chk_subpyramid_toast_userfilter", 170), ("chk_subpyramid_toast_userfilter_ancestors", 240),
    ("chk_reducer_step", 120), ("chk_reducer_apex_stop", 60), ("chk_reducer_public_sequence", 150),
    ("chk_combine_leaf_and_live_counts", 40), ("chk_combine_operations", 60), ("chk_invariant_preserved", 90),
    ("chk_walk_serial_step", 60), ("chk_visit_leaves_serial_step", 40),
    ("chk_closed_form_recurrence", 60), ("chk_unfiltered_counts", 150), ("chk_history_k0_c0v1", 200), ("chk_history_k0_c1v0", 200), ("chk_history_k0_c1v1", 200), ("chk_history_k1_c0v1", 200), ("chk_history_k1_c1v0", 200), ("chk_history_k1_c1v1", 200), ("chk_history_k2_c0v1", 200), ("chk_history_k2_c1v0", 200), ("chk_history_k2_c1v1", 200),
    ("chk_e2e_depth1", 120), ("chk_e2e_unfiltered_generic", 300), ("chk_e2e_unfiltered_toast", 300),
]
THOROUGH = QUICK + [("chk_subpyramid_toast_userfilter_ancestors_wide", 900), ("chk_subpyramid_toast_userfilter_wide", 900), ("chk_e2e_depth2", 900), ("chk_e2e_depth2_apex1", 900), ("chk_e2e_depth2_apex2_q0", 900), ("chk_e2e_depth2_apex2_q1", 900), ("chk_e2e_depth2_apex2_q2", 900), ("chk_e2e_depth2_apex2_q3", 900), ("chk_e2e_depth2_pair02", 1500), ("chk_e2e_depth2_pair3", 1700)]


def declare(run):
    run.uses(tp.pos_parent, tp.pos_children, tp.is_subtile, core_u(tp, "_postfix_pos"), tp.generate_pos, tp.depth2tiles,
             tp.tiles_at_depth, core_u(tp.Pyramid, "_generator"), tp.Pyramid.subpyramid, core_u(tp, "_make_position_filter"),
             tp.PyramidReductionIterator.__next__, tp.PyramidReductionIterator.set_data,
             core_u(tp.PyramidReductionIterator, "_ensure_levels"), tp.PyramidReductionIterator.result,
             tp.Pyramid.count_leaf_tiles, tp.Pyramid.count_live_tiles, tp.Pyramid.count_operations,
             core_u(tp.Pyramid, "_walk_serial"), core_u(tp.Pyramid, "_visit_leaves_serial"), tp.Pyramid.visit_leaves, tp.Pyramid.walk,
             core_u(tt, "_postfix_corner"), tt.generate_tiles_filtered, tt.generate_tiles)
    run.bound(position_algebra="all n, x, y >= 0 (unbounded symbolic ints)", subtile_closed_form="levels <= 5",
              one_level_generators="n <= 30, depth <= 31, symbolic filter verdict / bottom_only / orientation",
              reducer_step="k <= 3 levels of arbitrary (symbolic) slot contents, Q = parent or first-descendant (<= 2 levels down) of a later sibling",
              combine_steps="four child results symbolic (unbounded non-negative ints / bools)",
              subpyramid="apex level <= 2, depth <= 3; one-object histories: [count] [walk+visit] subpyramid (count walk visit) x 2", closed_forms="d <= 30 (recurrence), depth <= 3 executed",
              end_to_end="depth 1: all 16 level-1 masks x all apexes; thorough: depth 2, 16-bit level-2 mask, every pair of accepted level-1 tiles, all apexes with free masks")
    run.assume("CrossHair's models of int/bool/list/tuple/namedtuple; hashing a symbolic Pos realises it (positions enumerated inside the stated ranges)",
               "progress_bar and print inside toasty.pyramid/toasty.toast replaced by no-ops",
               "recursive calls / Pyramid._make_iter_reducer replaced by hypothesis stubs in the one-step obligations")
    run.outside("composition of the one-step obligations into the whole-pyramid statement is a paper induction (DESIGN.md §3.1, Appendix A-1..3); "
                "its bounded machine cross-check is the end-to-end obligation")
    run.composition += [
        "post-order by structural induction on depth-n from chk_postfix_pos_level / chk_postfix_corner_level / chk_generate_tiles_filtered_top",
        "reducer soundness by induction over the yielded sequence from chk_reducer_step (+ apex stop)",
        "ops + leaves = live by induction over the tree from chk_invariant_preserved; counts = visits from chk_walk_serial_step / chk_visit_leaves_serial_step",
        "closed forms by induction from chk_closed_form_recurrence + combine steps",
    ]


def check(run):
    declare(run)
    conds = THOROUGH if run.tier == "thorough" else QUICK
    chx.run_conditions(run, HARNESS, conds)
