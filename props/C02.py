"""C02 — cascade output: every parent tile is the 2x2 downsample of its children mosaic (E2: symx + symnp).

Real functions executed: TileMerger.__init__ / walk_callback / _get_min_max_of_children, averaging_merger,
Image.from_array / update_into_maskable_buffer / clear / is_completely_masked / save, ImageMode.make_maskable_buffer,
PyramidIO.read_image / write_image / tile_path, ImageLoader.load_path — over the in-memory tile store (vlib/symfs).
Two consecutive callbacks on ONE TileMerger: first a parent with four arbitrary children, then the inspected parent
with a symbolic presence pattern, so that state carried in the merger's reused buffer is visible.
"""
from vlib.core import soft_attr as core_u
import warnings

import numpy as _np
import z3

import toasty.image as ti
import toasty.merge as tm
import toasty.pyramid as tp
from toasty.merge import TileMerger, averaging_merger
from toasty.pyramid import Pos, PyramidIO, pos_children
from vlib import e2, symfs, symnp, symx
from vlib.symnp import FElem
from vlib.symx import I

# (mode, tile format) -> stored child dtype, channels
COMBOS = {
    ("RGB", "png"): ("uint8", 3), ("RGB", "jpg"): ("uint8", 3), ("RGBA", "png"): ("uint8", 4),
    ("F32", "npy"): ("float32", 0), ("F32", "fits"): ("float32", 0), ("F64", "fits"): ("float64", 0),
    ("F16x3", "npy"): ("float16", 3), ("U8", "fits"): ("uint8", 0), ("I16", "fits"): ("int16", 0),
    ("I32", "npy"): ("int32", 0),
}
FLOATS = ("F32", "F64", "F16x3")


def ref_merge(children, mode, bottom_up):
    """Plain-numpy reference written from the property text (display orientation)."""
    a0 = [a for a in children if a is not None][0]
    if mode in FLOATS:
        und = _np.nan
        shape = (512, 512) + a0.shape[2:]
        D = _np.full(shape, und, dtype=a0.dtype)
    elif mode in ("RGB", "RGBA"):
        D = _np.zeros((512, 512, 4), dtype=_np.uint8)
    else:
        D = _np.zeros((512, 512), dtype=a0.dtype)
    for k, a in enumerate(children):
        if a is None:
            continue
        i, j = k % 2, k // 2
        disp = a[::-1] if bottom_up else a
        if mode == "RGB":
            disp = _np.concatenate([disp, _np.full(disp.shape[:2] + (1,), 255, dtype=_np.uint8)], axis=2)
        if mode == "RGBA":
            disp = _np.where(disp[..., 3:4] != 0, disp, 0)
        if mode == "F16x3":
            disp = _np.where(_np.any(_np.isnan(disp), axis=2, keepdims=True), _np.nan, disp)
        D[256 * j:256 * j + 256, 256 * i:256 * i + 256] = disp
    blocks = D.reshape((256, 2, 256, 2) + D.shape[2:])
    if mode in FLOATS:
        with warnings.catch_warnings():
            warnings.simplefilter("ignore")
            out = _np.nanmean(blocks.astype(_np.float64), axis=(1, 3)).astype(D.dtype)
    else:
        out = (blocks.astype(_np.int64).sum(axis=(1, 3)) // 4).astype(D.dtype)
    return out[::-1] if bottom_up else out


class Merge(e2.Case):
    def __init__(self, mode, fmt):
        self.mode, self.fmt = mode, fmt
        self.name = "merge-%s-%s" % (mode, fmt)
        self.max_paths = 200
        self.conform_paths = 3
        self.with_headers = False

    def run(self, w):
        dt, ch = COMBOS[(self.mode, self.fmt)]
        shape = (256, 256) + ((ch,) if ch else ())
        lo = 0 if self.mode in ("I16", "I32") else None
        fs = symfs.SymFS()
        P1, P2 = Pos(2, 0, 0), Pos(2, 1, 2)
        present = [w.bool("present%d" % k) for k in range(4)]
        present = [bool(p) for p in present]            # forks in the symbolic world
        A = [w.array("A%d" % k, shape, dt, lo=lo) for k in range(4)]
        B = [w.array("B%d" % k, shape, dt, lo=lo) if present[k] else None for k in range(4)]
        hdr = {}
        if self.fmt == "fits" and self.with_headers:
            # children written by toasty carry DATAMIN/DATAMAX (possibly absent: all-NaN is never written, but be general)
            for k in range(4):
                if present[k]:
                    hdr[k] = {}
                    mn = w.optional_real("cmin%d" % k)
                    mx = w.optional_real("cmax%d" % k)
                    if mn is not None:
                        hdr[k]["DATAMIN"] = mn
                    if mx is not None:
                        hdr[k]["DATAMAX"] = mx
        with w.patched(ti, tm), fs.installed(w):
            pio = PyramidIO("/t", default_format=self.fmt)
            for k, cpos in enumerate(pos_children(P1)):
                fs.put_tile(pio.tile_path(cpos, makedirs=False), A[k], {})
            for k, cpos in enumerate(pos_children(P2)):
                if present[k]:
                    fs.put_tile(pio.tile_path(cpos, makedirs=False), B[k], hdr.get(k))
            merger = TileMerger(pio, averaging_merger)
            merger.walk_callback(P1)
            del fs.log[:]
            merger.walk_callback(P2)
            path = pio.tile_path(P2, makedirs=False)
            f = fs.files.get(path)
        events = [e for e in fs.log if e[0] in ("save", "unlink")]
        out = dict(stored=None if f is None else f["arr"], header=None if f is None else f["header"], events=events,
                   path=path, present=present, B=B, hdr=hdr)
        if not w.symbolic and any(present):
            out["ref"] = ref_merge(B, self.mode, self.fmt == "fits")
            if self.mode in ("RGB",) and self.fmt == "jpg":
                out["ref"] = out["ref"][..., :3]
            out["ref_all_undefined"] = bool(_all_undefined(out["ref"], self.mode, self.fmt))
        return out

    def same_path(self, so, ro):
        return [e[0] for e in so["events"]] == [e[0] for e in ro["events"]]

    def claims(self, w, outs):
        mode, fmt = self.mode, self.fmt
        dt, ch = COMBOS[(mode, fmt)]
        bu = fmt == "fits"
        present, B = outs["present"], outs["B"]
        if not any(present):
            w.claim("nothing-written-when-no-child", outs["events"] == [] and outs["stored"] is None,
                    probe=lambda ro, val: ro["events"] == [] and ro["stored"] is None,
                    what="no child exists: the parent must not be touched")
            return
        och = {"RGB": 4, "RGBA": 4, "F16x3": 3}.get(mode, 0)
        if mode == "RGB" and fmt == "jpg":
            och = 3
        r = w.int("r", 0, 255)
        c = w.int("c", 0, 255)
        idx = (r, c)
        chv = None
        if och:
            chv = w.int("ch", 0, och - 1)
            idx = (r, c, chv)
        w.pixel(*idx)
        w.pixel(r, c)
        want = self.spec(w, B, present, r, c, chv)
        if outs["stored"] is not None:
            w.claim("one-save-at-own-path", outs["events"] == [("save", outs["path"])],
                    probe=lambda ro, val: ro["events"] == [("save", ro["path"])], what="parent written once, under its own position")
            w.claim_eq("pixel", outs["stored"].get(idx), want, probe=("stored", idx), ref=("ref", idx),
                       what="cascade %s/%s: parent pixel = 2x2 reduction of the display-orientation mosaic" % (mode, fmt))
            w.claim("dtype-preserved", str(outs["stored"].dtype) == dt, probe=lambda ro, val: str(ro["stored"].dtype) == dt)
        else:
            # not stored: then the merged result must be entirely undefined (inspect an arbitrary pixel of the spec)
            w.claim("unlink-only", [e[0] for e in outs["events"]] == ["unlink"] and outs["events"][0][1] == outs["path"],
                    probe=lambda ro, val: [e[0] for e in ro["events"]] == ["unlink"])
            und = self.spec_undefined(w, B, present, r, c)
            w.claim("absent-only-if-all-undefined", und, probe=lambda ro, val: ro["stored"] is not None or ro["ref_all_undefined"],
                    what="cascade %s/%s: parent not stored although its merged content has a defined pixel" % (mode, fmt))

    # ---- z3 spec from the property text
    def mosaic_elem(self, B, present, Y, X, chan):
        """Display mosaic D[Y, X(, chan)] as an element; Y, X z3 Int terms in [0, 512)."""
        mode, bu = self.mode, self.fmt == "fits"
        j = z3.If(Y >= 256, 1, 0)
        i = z3.If(X >= 256, 1, 0)
        y = Y - 256 * j
        x = X - 256 * i
        srow = (255 - y) if bu else y
        und = symnp.nan_elem() if mode in FLOATS else z3.IntVal(0)
        e = und
        for k in range(3, -1, -1):
            if not present[k]:
                v = und
            else:
                a = B[k]
                if mode == "RGB":
                    v = symnp.elem_ite(chan == 3, z3.IntVal(255), a.get((srow, x, z3.If(chan == 3, 0, chan))))
                elif mode == "RGBA":
                    v = z3.If(a.get((srow, x, z3.IntVal(3))) != 0, a.get((srow, x, chan)), 0)
                elif mode == "F16x3":
                    anynan = z3.Or(*[a.get((srow, x, z3.IntVal(q))).nan for q in range(3)])
                    v = symnp.elem_ite(anynan, symnp.nan_elem(), a.get((srow, x, chan)))
                else:
                    v = a.get((srow, x))
            e = symnp.elem_ite(z3.And(i == k % 2, j == k // 2), v, e)
        return e

    def spec(self, w, B, present, r, c, chv):
        mode, bu = self.mode, self.fmt == "fits"
        R = (255 - I(r)) if bu else I(r)
        C = I(c)
        chan = chv if (chv is None or z3.is_expr(chv)) else I(chv)
        elems = [self.mosaic_elem(B, present, 2 * R + a, 2 * C + b, chan) for a in (0, 1) for b in (0, 1)]
        if mode in FLOATS:
            tot = z3.RealVal(0)
            cnt = z3.IntVal(0)
            for e in elems:
                tot = tot + z3.If(e.nan, z3.RealVal(0), e.val)
                cnt = cnt + z3.If(e.nan, 0, 1)
            val = z3.RealVal(0)
            for k in (4, 3, 2, 1):
                val = z3.If(cnt == k, tot / k, val)
            return FElem(cnt == 0, val)
        s = elems[0] + elems[1] + elems[2] + elems[3]
        return s / 4          # non-negative: floor == truncation

    def spec_undefined(self, w, B, present, r, c):
        """z3 Bool: the merged parent pixel (r, c) is undefined in the mode's sense."""
        mode = self.mode
        if mode in ("RGB", "RGBA"):
            return self.spec(w, B, present, r, c, z3.IntVal(3)) == 0
        if mode == "F16x3":
            return z3.And(*[self.spec(w, B, present, r, c, z3.IntVal(k)).nan for k in range(3)])
        if mode in FLOATS:
            return self.spec(w, B, present, r, c, None).nan
        return self.spec(w, B, present, r, c, None) == 0


def _all_undefined(ref, mode, fmt):
    if mode in FLOATS:
        return _np.all(_np.isnan(ref))
    if mode in ("RGB", "RGBA"):
        return ref.shape[2] == 4 and _np.all(ref[..., 3] == 0)
    return not _np.any(ref)


def cases(tier):
    return [Merge(m, f) for (m, f) in COMBOS]


def check(run):
    run.uses(tm.TileMerger.__init__, tm.TileMerger.walk_callback, core_u(tm.TileMerger, "_get_min_max_of_children"), tm.averaging_merger,
             ti.Image.from_array, ti.Image.update_into_maskable_buffer, ti.Image.clear, ti.Image.is_completely_masked,
             ti.Image.save, ti.ImageMode.make_maskable_buffer, ti.ImageLoader.load_path, tp.PyramidIO.read_image,
             tp.PyramidIO.write_image, tp.PyramidIO.tile_path, tp.pos_children)
    run.bound(pixels="all 65 536 output pixels and channels (symbolic index)", presence="all 16 child-presence patterns",
              modes_formats=", ".join("%s/%s" % k for k in COMBOS), parities="top-down (png/jpg/npy) and bottom-up (fits)",
              contents="arbitrary (uninterpreted) incl. NaN / transparent pixels",
              history="the inspected callback follows a callback on a fully populated parent with the same TileMerger")
    run.assume("codecs = identity (vlib/symfs in-memory tile store): what Image.save stores is what ImageLoader.load_path returns",
               "floats are reals + NaN flag; float32 rounding of the mean is outside the claim",
               "a fully transparent RGBA source pixel counts as undefined and contributes zeros to the mean (its stored RGB is ignored)",
               "an F16x3 source pixel with NaN in any channel counts as undefined in all three channels",
               "I16/I32 data non-negative", "upper pyramid levels empty before the cascade (a parent whose four children are all absent is left untouched)",
               "serial = parallel output follows from C01 (same callbacks, children first) and determinism of the callback (Appendix A-5)")
    run.outside("PNG/JPEG/FITS/npy encode-decode", "float rounding")
    e2.run_cases_parallel(run, __name__)
