"""E1 driver: run CrossHair conditions (one OS process per condition), parse verdicts, replay counterexamples.

Harness conventions (props/chx_*.py):
  * every condition is a module-level function `chk_*` with a PEP316 docstring whose only postcondition is
    `post: _` and which returns a bool; it imports and calls toasty's real functions;
  * optional module-level `EXPLAIN = {func_name: (signature, what)}` or `def explain(func, args_text) -> (signature, what)`;
  * optional module-level `FUNCS = {func_name: [toasty callables encoded]}`.
"""
import ast
import importlib.util
import os
import re
import subprocess
import sys
import time
from concurrent.futures import ThreadPoolExecutor

PY = "/verif/.venv/bin/python"
ROOT = os.path.dirname(os.path.dirname(os.path.abspath(__file__)))
_ERR = re.compile(r"^(?P<file>[^:]+):(?P<line>\d+): error: (?P<msg>.*)$")
_CALL = re.compile(r"when calling (?P<call>.*?)(?: \(which (?:returns|raises).*\))?$", re.S)


def _find_lines(path):
    src = open(path).read()
    tree = ast.parse(src)
    out = {}
    for node in tree.body:
        if isinstance(node, ast.FunctionDef):
            out[node.name] = node.lineno + 1   # a line inside the def
    return out


def _run_one(path, func, line, timeout, env_extra, verbose=True):
    t0 = time.time()
    env = dict(os.environ)
    env["PYTHONPATH"] = (os.environ["VERIF_REPO"] + ":" if os.environ.get("VERIF_REPO") else "") + ROOT
    env["PYTHONDONTWRITEBYTECODE"] = "1"
    env["VERIF_CHX"] = "1"
    env.update(env_extra or {})
    cmd = [PY, "-m", "crosshair", "check"] + (["-v"] if verbose else []) + ["--report_all", "--per_condition_timeout", str(timeout),
           "--per_path_timeout", str(max(5, timeout // 3)), "%s:%d" % (path, line)]
    try:
        p = subprocess.run(cmd, capture_output=True, text=True, env=env, timeout=timeout * 2 + 60,
                           cwd=os.path.dirname(path))
        out, err, rc = p.stdout, p.stderr, p.returncode
    except subprocess.TimeoutExpired as e:
        out = (e.stdout or b"").decode() if isinstance(e.stdout, bytes) else (e.stdout or "")
        err, rc = "", -9
    paths = err.count("|Iteration ") or err.count("Iteration ")
    return dict(func=func, out=out, err_tail=err[-1500:] if rc not in (0, 1) else "", rc=rc, wall=time.time() - t0,
                paths=paths)


def load_harness(path):
    name = "chxh_" + os.path.basename(path)[:-3]
    spec = importlib.util.spec_from_file_location(name, path)
    mod = importlib.util.module_from_spec(spec)
    sys.modules[name] = mod
    spec.loader.exec_module(mod)
    return mod


def replay_call(path, call_text):
    """Re-execute the reported call under plain CPython in a fresh process. Returns (reproduced, detail)."""
    code = (
        "import sys, importlib.util\n"
        "sys.path.insert(0, %r)\n"
        "spec = importlib.util.spec_from_file_location('h', %r)\n"
        "h = importlib.util.module_from_spec(spec); sys.modules['h'] = h; spec.loader.exec_module(h)\n"
        "import math\nfrom math import inf, nan\n"
        "ns = dict(vars(h)); ns.update(inf=inf, nan=nan, math=math)\n"
        "try:\n"
        "    r = eval(%r, ns)\n"
        "except Exception as e:\n"
        "    import traceback\n"
        "    tb = traceback.extract_tb(e.__traceback__)\n"
        "    o = getattr(e, 'obj', None) if isinstance(e, AttributeError) else None\n"
        "    om = getattr(type(o), '__module__', '') if o is not None else ''\n"
        "    standin = om == 'h' or om.startswith(('props', 'vlib', 'chx')) or (tb and tb[-1].filename.startswith(%r))\n"
        "    # an exception raised BY a harness stand-in (a method the stand-in lacks, a guard inside it) is a limit of the harness, not behaviour of the code\n"
        "    print(('HARNESS-STANDIN exception' if standin else 'REPRODUCED exception'), type(e).__name__, e); sys.exit(0)\n"
        "print('REPRODUCED returns %%r' %% (r,) if not r else 'NOT-REPRODUCED returns %%r' %% (r,))\n"
    ) % (ROOT, path, call_text, ROOT)
    env = dict(os.environ)
    env.pop("VERIF_CHX", None)
    env["PYTHONPATH"] = (os.environ["VERIF_REPO"] + ":" if os.environ.get("VERIF_REPO") else "") + ROOT
    p = subprocess.run([PY, "-c", code], capture_output=True, text=True, env=env, timeout=600)
    txt = (p.stdout + p.stderr).strip()
    return ("REPRODUCED" in p.stdout and "NOT-REPRODUCED" not in p.stdout and "HARNESS-STANDIN" not in p.stdout), txt[-800:], code


def run_conditions(run, path, conds, engine="E1:crosshair", env_extra=None, workers=16):
    """conds: list of (func_name, timeout_s) or (func_name, timeout_s, dict(sig=..., what=...))."""
    lines = _find_lines(path)
    jobs = []
    for c in conds:
        func, timeout = c[0], c[1]
        if getattr(run, "only", None) and not any(func.startswith(p) or p in func for p in run.only):
            continue
        if func not in lines:
            run.error(func, "condition function missing in %s" % path)
            continue
        jobs.append((func, timeout, c[2] if len(c) > 2 else {}))
    mod = None
    results = []
    with ThreadPoolExecutor(max_workers=workers) as ex:
        futs = [(j, ex.submit(_run_one, path, j[0], lines[j[0]], j[1], env_extra, not j[2].get("quiet"))) for j in jobs]
        for j, f in futs:
            results.append((j, f.result()))
    for (func, timeout, meta), r in results:
        name = "%s.%s" % (os.path.basename(path)[:-3], func)
        out = r["out"].strip()
        nq = max(1, r["paths"])
        if "Confirmed over all paths" in out and "error:" not in out:
            run.ob(name, "confirmed", engine, "CrossHair: confirmed over all paths (%d paths, %.1fs)" % (r["paths"], r["wall"]),
                   queries=nq, solver_s=r["wall"])
            continue
        m = None
        for ln in out.splitlines():
            mm = _ERR.match(ln)
            if mm:
                m = mm
                break
        if m:
            msg = out[out.index(m.group("msg")):]
            cm = _CALL.search(msg.splitlines()[0] if "\n" not in msg else msg.split("\n")[0])
            if not cm:
                run.error(name, "cannot parse CrossHair counterexample: " + msg[:300])
                continue
            call = cm.group("call").strip()
            if " with crosshair.patch_to_return(" in call:
                call = call[:call.index(" with crosshair.patch_to_return(")].strip()
            ok, detail, code = replay_call(path, call)
            if not ok:
                run.error(name, "counterexample did not reproduce under plain CPython: %s -> %s" % (call, detail))
                continue
            sig, what = meta.get("sig"), meta.get("what")
            if mod is None:
                try:
                    mod = load_harness(path)
                except Exception:
                    mod = False
            if mod:
                if hasattr(mod, "explain"):
                    try:
                        e = mod.explain(func, call)
                        if e:
                            sig, what = e
                    except Exception:
                        pass
                if sig is None and hasattr(mod, "EXPLAIN") and func in mod.EXPLAIN:
                    sig, what = mod.EXPLAIN[func]
            sig = sig or name
            what = (what or "harness condition fails") + " :: counterexample " + call[:300] + " :: " + detail[:200]
            run.violation(name, sig, what, "# replay of CrossHair counterexample for %s\n%s" % (name, code), engine,
                          queries=nq, solver_s=r["wall"])
            continue
        # not confirmed / unable to meet precondition / crash / timeout
        tail = out[-300:] if out else ("rc=%s %s" % (r["rc"], r["err_tail"][-600:]))
        if r["rc"] not in (0, 1) and not out:
            run.error(name, "crosshair failed: " + tail)
        else:
            run.ob(name, "inconclusive", engine, "CrossHair (%ds budget, %d paths): %s" % (timeout, r["paths"], tail.replace("\n", " | ")),
                   queries=nq, solver_s=r["wall"])
    return results
