"""E3: models of toasty's multiprocessing stages, extracted from the real code on every run.

  * `extract_producer(run_entry)`   executes the real entry point against recording fakes of multiprocessing and
                                    returns the producer's script of primitive operations, in program order;
  * `infer_worker(...)`             executes the real worker function against scripted queue responses and returns
                                    its reaction table (memoryless loop automaton), failing closed otherwise;
  * `stage_ts(...)`                 composes script + table + the trusted environment model (bounded queue with
                                    per-process feeder buffer and pipe, event, process join) into a bmc.TS;
  * `Replay` (detsched)             thread-based fake multiprocessing in which every primitive operation is a
                                    rendezvous with a scheduler following a given trace: runs the REAL entry point
                                    and REAL workers under the schedule found by the solver.
"""
import itertools
import multiprocessing as real_mp
import threading
import time
import types
from queue import Empty

import z3

from . import bmc
from .core import HarnessError


class Stop(BaseException):
    pass


# ------------------------------------------------------------------ 1. extraction by recording fakes

class Recorder:
    def __init__(self):
        self.ops = []
        self.queues = []
        self.procs = []
        self.events = []


def recording_mp(rec, queue_script=None):
    """Fake multiprocessing primitives that only record. `queue_script[qid]` = responses for get() on queue qid."""
    queue_script = queue_script or {}

    class Q:
        def __init__(self, maxsize=0):
            self.qid = len(rec.queues)
            self.maxsize = maxsize
            rec.queues.append(self)
            self.script = list(queue_script.get(self.qid, []))
            self.items = []
            if maxsize and maxsize > 0:
                rec.ops.append(("maxsize", maxsize, self.qid))

        def put(self, item, *a, **k):
            rec.ops.append(("put", self.qid, item))
            self.items.append(item)

        def get(self, block=True, timeout=None):
            rec.ops.append(("get", self.qid))
            if not self.script:
                raise Stop()
            r = self.script.pop(0)
            if r is Empty:
                raise Empty()
            return r

        def close(self):
            rec.ops.append(("close", self.qid))

        def join_thread(self):
            rec.ops.append(("join_thread", self.qid))

        def qsize(self):
            return len(self.items)

    class E:
        def __init__(self):
            rec.events.append(self)
            self.flag = False

        def set(self):
            rec.ops.append(("set",))
            self.flag = True

        def is_set(self):
            rec.ops.append(("is_set",))
            return self.flag

    class P:
        def __init__(self, target=None, args=(), kwargs=None, **kw):
            self.wid = len(rec.procs)
            rec.procs.append(self)
            self.target, self.args = target, args
            self.daemon = False

        def start(self):
            rec.ops.append(("start", self.wid))

        def join(self, timeout=None):
            rec.ops.append(("join", self.wid))

        @property
        def exitcode(self):
            rec.ops.append(("exitcode", self.wid))
            return 0

        def is_alive(self):
            rec.ops.append(("is_alive", self.wid))
            return True

    return types.SimpleNamespace(Queue=Q, Event=E, Process=P)


class patched_mp:
    def __init__(self, fake):
        self.fake = fake

    def __enter__(self):
        self.saved = (real_mp.Queue, real_mp.Event, real_mp.Process)
        real_mp.Queue, real_mp.Event, real_mp.Process = self.fake.Queue, self.fake.Event, self.fake.Process
        return self

    def __exit__(self, *a):
        real_mp.Queue, real_mp.Event, real_mp.Process = self.saved
        return False


def extract_producer(run_entry, queue_script=None):
    """Run the real entry point (a callable taking no arguments) with recording fakes. Returns the Recorder."""
    rec = Recorder()
    fake = recording_mp(rec, queue_script)
    with patched_mp(fake):
        try:
            run_entry()
            rec.returned = True
        except Stop:
            rec.returned = False
    return rec


# ------------------------------------------------------------------ 2. worker reaction table

def infer_worker(call_worker, max_len=3, make_item=None):
    """call_worker(in_queue, event, on_callback, out_queue) must invoke the REAL worker function.

    Probes it with every response sequence of length <= max_len over {item, Empty/flag-unset, Empty/flag-set} and
    checks that its reaction is a memoryless loop; returns the table
        post_item : tuple over {'cb', 'put'}   actions performed for a received item, in order
        checks_flag, exit_on_set, exit_on_unset
    """
    alphabet = ["item", "empty_unset", "empty_set"]
    table = {}
    nseq = 0
    for n in range(1, max_len + 1):
        for seq in itertools.product(alphabet, repeat=n):
            nseq += 1
            log = []
            state = {"flag": False, "k": 0}

            class InQ:
                def get(self, block=True, timeout=None):
                    log.append(("get",))
                    if state["k"] >= len(seq):
                        raise Stop()
                    r = seq[state["k"]]
                    state["k"] += 1
                    if r == "item":
                        state["flag"] = False
                        k = state["k"]
                        if make_item is not None:
                            return make_item(k, lambda k=k: log.append(("cb", ("ITEM", k))))
                        return ("ITEM", k)
                    state["flag"] = r == "empty_set"
                    raise Empty()

                def put(self, *a, **k):
                    raise HarnessError("worker writes to its input queue")

            class OutQ:
                def put(self, item, *a, **k):
                    log.append(("put", item))

            class Ev:
                def is_set(self):
                    log.append(("is_set",))
                    return state["flag"]

            def on_cb(item):
                log.append(("cb", item))

            exited = False
            try:
                call_worker(InQ(), Ev(), on_cb, OutQ())
                exited = True
            except Stop:
                pass
            # split the log into reactions
            reactions = []
            cur = None
            for ev in log:
                if ev[0] == "get":
                    if cur is not None:
                        reactions.append(cur)
                    cur = []
                else:
                    cur.append(ev)
            if cur is not None:
                reactions.append(cur)
            for i, resp in enumerate(seq):
                if i >= len(reactions):
                    break
                react = reactions[i]
                last = i == len(reactions) - 1
                if resp == "item":
                    item = ("ITEM", i + 1)
                    acts = []
                    for ev in react:
                        if ev[0] == "cb" and ev[1] == item:
                            acts.append("cb")
                        elif ev[0] == "put" and ev[1] == item:
                            acts.append("put")
                        elif ev[0] == "is_set":
                            acts.append("is_set")
                        else:
                            raise HarnessError("worker reaction outside the modelled family: %r on item" % (ev,))
                    key = ("item", tuple(acts), exited and last)
                else:
                    acts = tuple(ev[0] for ev in react)
                    key = (resp, acts, exited and last)
                prev = table.setdefault(resp, key)
                if prev != key:
                    raise HarnessError("worker is not a memoryless loop: response %s gives %r and %r" % (resp, prev, key))
    if "item" not in table:
        raise HarnessError("worker never consumed an item")
    item_key = table["item"]
    if item_key[2]:
        raise HarnessError("worker exits after processing an item")
    post = tuple(a for a in item_key[1] if a in ("cb", "put"))
    if post.count("cb") != 1:
        raise HarnessError("worker does not call the callback exactly once per item: %r" % (post,))
    eu, es = table.get("empty_unset"), table.get("empty_set")
    return dict(post_item=post, checks_flag=bool(es and "is_set" in es[1]) or bool(eu and "is_set" in eu[1]),
                exit_on_set=bool(es and es[2]), exit_on_unset=bool(eu and eu[2]), probes=nseq)


# ------------------------------------------------------------------ 3. transition system of one producer/worker stage

NOTPUT, INBUF, INPIPE, HELD, RUNNING, CBDONE, FINISHED, LOST = range(8)
W_NOTSTARTED, W_IDLE, W_BUSY, W_EXITED, W_DEAD = range(5)


def stage_ts(script, table, n_workers, fault=False):
    """script: producer ops [('start', w) | ('put', q, item) | ('close', q) | ('join_thread', q) | ('set',) | ('join', w)
    | ('exitcode', w) ...]; table: worker reaction table; fault: one callback (symbolic item) raises."""
    ts = bmc.TS("stage")
    items = [op for op in script if op[0] == "put"]
    I, W = len(items), n_workers
    maxsize = script_maxsize(script)
    ts.var("pc", 8, 0)
    ts.var("flag", 1, 0)
    ts.var("raised", 1, 0)                       # the producer observed a worker failure and raised
    for i in range(I):
        ts.var("st%d" % i, 3, NOTPUT)
        ts.var("ow%d" % i, 3, 0)
        ts.var("cnt%d" % i, 2, 0)
    for w in range(W):
        ts.var("ws%d" % w, 3, W_NOTSTARTED)
    fitem = None
    if fault:
        fitem = z3.BitVec("fault_item", 4)
        ts.param(fitem, z3.ULT(fitem, I))
    ts.fault_item = fitem

    def outstanding(s):
        return sum([z3.If(z3.Or(s["st%d" % i] == INBUF, s["st%d" % i] == INPIPE), z3.BitVecVal(1, 8), z3.BitVecVal(0, 8)) for i in range(I)],
                   z3.BitVecVal(0, 8))

    def pipe_empty(s):
        return z3.And(*[s["st%d" % i] != INPIPE for i in range(I)]) if I else z3.BoolVal(True)

    def buf_empty(s):
        return z3.And(*[s["st%d" % i] != INBUF for i in range(I)]) if I else z3.BoolVal(True)

    # ---- producer
    put_no = 0
    end = len(script)
    for pc, op in enumerate(script):
        kind = op[0]
        at = (lambda pc: (lambda s: s["pc"] == pc))(pc)
        nxt = (lambda pc: (lambda s: {"pc": bmc.bv(pc + 1, 8)}))(pc)
        if kind == "start":
            w = op[1]
            ts.t("start w%d" % w, "main", at, (lambda pc, w: (lambda s: {"pc": bmc.bv(pc + 1, 8), "ws%d" % w: bmc.bv(W_IDLE, 3)}))(pc, w))
        elif kind == "put":
            i = put_no
            put_no += 1
            g = (lambda pc: (lambda s: z3.And(s["pc"] == pc, z3.ULT(outstanding(s), maxsize) if maxsize > 0 else z3.BoolVal(True))))(pc)
            ts.t("put i%d" % i, "main", g, (lambda pc, i: (lambda s: {"pc": bmc.bv(pc + 1, 8), "st%d" % i: bmc.bv(INBUF, 3)}))(pc, i))
        elif kind == "join_thread":
            ts.t("join_thread", "main", (lambda pc: (lambda s: z3.And(s["pc"] == pc, buf_empty(s))))(pc), nxt)
        elif kind == "set":
            ts.t("set", "main", at, (lambda pc: (lambda s: {"pc": bmc.bv(pc + 1, 8), "flag": bmc.bv(1, 1)}))(pc))
        elif kind == "join":
            w = op[1]
            ts.t("join w%d" % w, "main", (lambda pc, w: (lambda s: z3.And(s["pc"] == pc, z3.Or(s["ws%d" % w] == W_EXITED, s["ws%d" % w] == W_DEAD))))(pc, w), nxt)
        elif kind == "exitcode":
            w = op[1]
            # reading the exit code of a joined worker: a failure becomes visible (the producer raises)
            ts.t("exitcode w%d" % w, "main", at,
                 (lambda pc, w: (lambda s: {"pc": bmc.bv(pc + 1, 8), "raised": z3.If(s["ws%d" % w] == W_DEAD, bmc.bv(1, 1), s["raised"])}))(pc, w))
        else:   # close, is_alive, anything without effect on the model
            ts.t(kind, "main", at, nxt)
    ts.end_pc = end
    # ---- feeder thread of the producer process
    for i in range(I):
        ts.t("flush i%d" % i, "feeder", (lambda i: (lambda s: s["st%d" % i] == INBUF))(i), (lambda i: (lambda s: {"st%d" % i: bmc.bv(INPIPE, 3)}))(i))
    # ---- workers
    post = table["post_item"]
    for w in range(W):
        wsn = "ws%d" % w
        for i in range(I):
            st, ow, cnt = "st%d" % i, "ow%d" % i, "cnt%d" % i
            ts.t("get w%d i%d" % (w, i), "w%d" % w,
                 (lambda wsn, st: (lambda s: z3.And(s[wsn] == W_IDLE, s[st] == INPIPE)))(wsn, st),
                 (lambda wsn, st, ow, w: (lambda s: {wsn: bmc.bv(W_BUSY, 3), st: bmc.bv(HELD, 3), ow: bmc.bv(w, 3)}))(wsn, st, ow, w))
            mine = (lambda st, ow, w, val: (lambda s: z3.And(s[st] == val, s[ow] == w)))
            ts.t("cb_start w%d i%d" % (w, i), "w%d" % w, mine(st, ow, w, HELD), (lambda st: (lambda s: {st: bmc.bv(RUNNING, 3)}))(st))
            if fault:
                ok = (lambda st, ow, w, i: (lambda s: z3.And(s[st] == RUNNING, s[ow] == w, fitem != i)))(st, ow, w, i)
                ts.t("cb_end w%d i%d" % (w, i), "w%d" % w, ok,
                     (lambda st, cnt, wsn: (lambda s: {st: bmc.bv(FINISHED, 3), cnt: s[cnt] + 1, wsn: bmc.bv(W_IDLE, 3)}))(st, cnt, wsn))
                bad = (lambda st, ow, w, i: (lambda s: z3.And(s[st] == RUNNING, s[ow] == w, fitem == i)))(st, ow, w, i)
                ts.t("cb_raise w%d i%d" % (w, i), "w%d" % w, bad,
                     (lambda st, wsn: (lambda s: {st: bmc.bv(LOST, 3), wsn: bmc.bv(W_DEAD, 3)}))(st, wsn))
            else:
                ts.t("cb_end w%d i%d" % (w, i), "w%d" % w, mine(st, ow, w, RUNNING),
                     (lambda st, cnt, wsn: (lambda s: {st: bmc.bv(FINISHED, 3), cnt: s[cnt] + 1, wsn: bmc.bv(W_IDLE, 3)}))(st, cnt, wsn))
        # exit: a receive time-out (possible only while the pipe is empty) followed by the worker's flag test
        if table["exit_on_unset"]:
            g = (lambda wsn: (lambda s: z3.And(s[wsn] == W_IDLE, pipe_empty(s))))(wsn)
        elif table["exit_on_set"]:
            g = (lambda wsn: (lambda s: z3.And(s[wsn] == W_IDLE, pipe_empty(s), s["flag"] == 1)))(wsn)
        else:
            g = None
        if g is not None:
            ts.t("exit w%d" % w, "w%d" % w, g, (lambda wsn: (lambda s: {wsn: bmc.bv(W_EXITED, 3)}))(wsn))
    ts.I, ts.W = I, W
    ts.max_steps = len(script) + I + 3 * I + W + 2
    return ts


def script_maxsize(script):
    for op in script:
        if op[0] == "maxsize":
            return op[1]
    return 0


def stage_good_final(ts, s):
    return z3.And(s["pc"] == ts.end_pc, *[s["st%d" % i] == FINISHED for i in range(ts.I)], *[s["cnt%d" % i] == 1 for i in range(ts.I)],
                  *[s["ws%d" % w] == W_EXITED for w in range(ts.W)])


def stage_returned_early(ts, s):
    """The entry point has returned although some item is not fully processed or some worker has not exited."""
    return z3.And(s["pc"] == ts.end_pc, z3.Not(z3.And(*[s["st%d" % i] == FINISHED for i in range(ts.I)],
                                                      *[z3.Or(s["ws%d" % w] == W_EXITED, s["ws%d" % w] == W_DEAD) for w in range(ts.W)])))


# ------------------------------------------------------------------ 4. deterministic-schedule replay on the real code

class Killed(BaseException):
    pass


class Sched:
    """Every fake primitive is a rendezvous: the calling thread announces its operation and blocks until the driver
    grants that actor the next turn (only while the operation is enabled)."""

    def __init__(self):
        self.cv = threading.Condition()
        self.turn = None
        self.waiting = {}
        self.log = []
        self.dead = False
        self.local = threading.local()

    def me(self):
        return getattr(self.local, "name", "main")

    def op(self, name, enabled=lambda: True):
        a = self.me()
        with self.cv:
            self.waiting[a] = (name, enabled)
            self.cv.notify_all()
            while self.turn != a:
                if self.dead:
                    raise Killed()
                self.cv.wait(0.05)
            self.turn = None
            del self.waiting[a]
            self.log.append((a, name))
            self.cv.notify_all()

    def drive(self, schedule, step_timeout=3.0, free_run=True):
        """Follow `schedule` (list of actor names); afterwards optionally let every enabled actor run (fair
        round-robin) until quiescence. Returns ('ok' | 'stuck', detail)."""
        for step, a in enumerate(schedule):
            if not self._grant(a, step_timeout):
                with self.cv:
                    w = dict((k, v[0]) for k, v in self.waiting.items())
                return ("stuck", step, a, w)
        if free_run:
            idle = 0
            while idle < 3:
                progressed = False
                with self.cv:
                    names = sorted(self.waiting)
                for a in names:
                    if self._grant(a, 0.05):
                        progressed = True
                if not progressed:
                    idle += 1
                    time.sleep(0.03)
                else:
                    idle = 0
        with self.cv:
            w = dict((k, v[0]) for k, v in self.waiting.items())
        return ("end", w)

    def _grant(self, a, timeout):
        t0 = time.time()
        with self.cv:
            while True:
                w = self.waiting.get(a)
                if w is not None and self.turn is None:
                    try:
                        en = w[1]()
                    except Exception:
                        en = False
                    if en:
                        self.turn = a
                        self.cv.notify_all()
                        break
                if time.time() - t0 > timeout:
                    return False
                self.cv.wait(0.01)
        with self.cv:
            t1 = time.time()
            while self.turn is not None:
                self.cv.wait(0.01)
                if time.time() - t1 > 5:
                    return False
        return True

    def kill(self):
        with self.cv:
            self.dead = True
            self.cv.notify_all()


def sched_mp(S):
    """Thread-based multiprocessing stand-in driven by scheduler S (environment model of DESIGN §2/E3)."""
    state = types.SimpleNamespace(nq=0, np=0, procs=[])

    class Q:
        def __init__(self, maxsize=0):
            self.qid = state.nq
            state.nq += 1
            self.maxsize = maxsize
            self.bufs = {}          # producer actor -> its feeder buffer
            self.pipe = []
            self.outstanding = 0

        def _feeder(self, owner):
            q = self

            def body():
                S.local.name = "feeder:%s:q%d" % (owner, q.qid)
                try:
                    while True:
                        S.op("flush", lambda: len(q.bufs[owner]) > 0)
                        q.pipe.append(q.bufs[owner].pop(0))
                except Killed:
                    pass

            threading.Thread(target=body, daemon=True).start()

        def put(self, item, *a, **k):
            S.op("put q%d" % self.qid, lambda: self.maxsize <= 0 or self.outstanding < self.maxsize)
            me = S.me()
            if me not in self.bufs:
                self.bufs[me] = []
                self._feeder(me)
            self.outstanding += 1
            self.bufs[me].append(item)

        def get(self, block=True, timeout=None):
            S.op("get q%d" % self.qid)           # granted at a moment chosen by the schedule: Empty iff the pipe is empty then
            if self.pipe:
                self.outstanding -= 1
                return self.pipe.pop(0)
            raise Empty()

        def close(self):
            S.op("close q%d" % self.qid)

        def join_thread(self):
            me = S.me()
            S.op("join_thread q%d" % self.qid, lambda: not self.bufs.get(me))

        def qsize(self):
            return len(self.pipe)

    class E:
        def __init__(self):
            self.f = False

        def set(self):
            S.op("set")
            self.f = True

        def is_set(self):
            return self.f

    class P:
        def __init__(self, target=None, args=(), kwargs=None, **kw):
            self.target, self.args = target, args
            self.daemon = False
            self.exited = False
            self.exitcode = None
            self.name = "w%d" % state.np
            state.np += 1
            state.procs.append(self)

        def start(self):
            S.op("start")

            def body():
                S.local.name = self.name
                try:
                    self.target(*self.args)
                    self.exitcode = 0
                except Killed:
                    return
                except BaseException:
                    self.exitcode = 1          # an exception in the worker kills the process
                finally:
                    self.exited = True

            threading.Thread(target=body, daemon=True).start()

        def join(self, timeout=None):
            S.op("join %s" % self.name, lambda: self.exited)

        def is_alive(self):
            return not self.exited

    return types.SimpleNamespace(Queue=Q, Event=E, Process=P), state


def replay(run_entry_with_cb, schedule, step_timeout=3.0, snapshot=None):
    """run_entry_with_cb(S) runs the REAL entry point (in the calling thread named 'main'); returns observation dict."""
    S = Sched()
    fake, state = sched_mp(S)
    result = {}

    def main():
        S.local.name = "main"
        try:
            run_entry_with_cb(S)
            # what is true at the very moment the entry point returns
            result["procs_at_return"] = [(p.name, p.exited, p.exitcode) for p in state.procs]
            if snapshot is not None:
                result["at_return"] = snapshot()
            result["returned"] = True
        except Killed:
            pass
        except BaseException as e:      # visible failure of the entry point
            result["raised"] = "%s: %s" % (type(e).__name__, e)

    with patched_mp(fake):
        t = threading.Thread(target=main, daemon=True)
        t.start()
        out = S.drive(schedule, step_timeout=step_timeout)
        time.sleep(0.05)
        S.kill()
        t.join(1.0)
    result["drive"] = out
    result["log"] = list(S.log)
    result["procs"] = [(p.name, p.exited, p.exitcode) for p in state.procs]
    return result
