"""E3: models of toasty's multiprocessing stages, extracted from the real code on every run.

  * `extract_producer(run_entry)`   executes the real entry point against recording fakes of multiprocessing and
                                    returns the producer's script of primitive operations, in program order;
  * `infer_worker(...)`             executes the real worker function against scripted queue responses and returns
                                    its reaction table (memoryless loop automaton), failing closed otherwise;
  * `stage_ts(...)`                 composes script + table + the trusted environment model (bounded queue with
                                    per-process feeder buffer and pipe, event, process join) into a bmc.TS;
  * `Replay` (detsched)             thread-based fake multiprocessing in which every primitive operation is a
                                    rendezvous with a scheduler following a given trace: runs the REAL entry point
                                    and REAL workers under the schedule found by the solver.
"""
import itertools
import multiprocessing as real_mp
import threading
import time
import types
from queue import Empty, Full

import z3

from . import bmc
from .core import HarnessError


class Stop(BaseException):
    pass


# ------------------------------------------------------------------ 1. extraction by recording fakes

class Recorder:
    def __init__(self):
        self.ops = []
        self.queues = []
        self.procs = []
        self.events = []
        self.exitcode_value = 0       # what recorded fake processes report
        self.alive_value = True


def _container_snapshot(obj):
    """What pickling `obj` now would capture, for the built-in containers a message is usually made of."""
    if isinstance(obj, list):
        return [_container_snapshot(x) for x in obj]
    if isinstance(obj, tuple) and type(obj) is tuple:
        return tuple(_container_snapshot(x) for x in obj)
    if isinstance(obj, dict):
        return {k: _container_snapshot(v) for k, v in obj.items()}
    if isinstance(obj, set):
        return set(obj)
    return obj


def recording_mp(rec, queue_script=None):
    """Fake multiprocessing primitives that only record. `queue_script[qid]` = responses for get() on queue qid."""
    queue_script = queue_script or {}

    class Q:
        def __init__(self, maxsize=0):
            self.qid = len(rec.queues)
            self.maxsize = maxsize
            rec.queues.append(self)
            sc = queue_script.get(self.qid, [])
            self.script = sc if callable(sc) else list(sc)
            self.items = []
            if maxsize and maxsize > 0:
                rec.ops.append(("maxsize", maxsize, self.qid))

        def put(self, item, block=True, timeout=None):
            rec.n_put_calls = getattr(rec, "n_put_calls", 0) + 1
            if timeout is not None or not block:
                rec.put_timeouts = getattr(rec, "put_timeouts", set()) | {self.qid}
                if rec.n_put_calls in getattr(rec, "full_at", ()):
                    rec.ops.append(("full", self.qid))
                    raise Full()
            # 4th field: the message AS IT IS NOW (a real Queue pickles it later, in the feeder thread, whenever that runs)
            rec.ops.append(("put", self.qid, item, _container_snapshot(item)))
            self.items.append(item)

        def get(self, block=True, timeout=None):
            rec.ops.append(("get", self.qid))
            if callable(self.script):
                r = self.script()
            else:
                if not self.script:
                    raise Stop()
                r = self.script.pop(0)
            if r is Empty:
                raise Empty()
            return r

        def close(self):
            rec.ops.append(("close", self.qid))

        def join_thread(self):
            rec.ops.append(("join_thread", self.qid))

        def cancel_join_thread(self):
            rec.ops.append(("cancel_join_thread", self.qid))

        def qsize(self):
            return len(self.items)

        def empty(self):
            return not self.items

        def full(self):
            return bool(self.maxsize and self.maxsize > 0 and len(self.items) >= self.maxsize)

        def put_nowait(self, item):
            return self.put(item, block=False)

        def get_nowait(self):
            return self.get(block=False)

    class E:
        def __init__(self):
            rec.events.append(self)
            self.flag = False

        def set(self):
            rec.ops.append(("set",))
            self.flag = True

        def is_set(self):
            rec.ops.append(("is_set",))
            return self.flag

        def wait(self, timeout=None):
            rec.ops.append(("is_set",))
            return self.flag

        def clear(self):
            rec.ops.append(("clear",))
            self.flag = False

    class P:
        def __init__(self, target=None, args=(), kwargs=None, **kw):
            self.wid = len(rec.procs)
            rec.procs.append(self)
            self.target, self.args, self.kwargs = target, tuple(args), dict(kwargs or {})
            self.daemon = False

        def start(self):
            rec.ops.append(("start", self.wid))

        def join(self, timeout=None):
            rec.ops.append(("join", self.wid))

        @property
        def exitcode(self):
            rec.ops.append(("exitcode", self.wid))
            return getattr(rec, "exitcode_of", {}).get(self.wid, rec.exitcode_value)

        def is_alive(self):
            rec.ops.append(("is_alive", self.wid))
            return getattr(rec, "alive_of", {}).get(self.wid, rec.alive_value)

        pid = property(lambda self: 1000 + self.wid)
        name = property(lambda self: "w%d" % self.wid)
        sentinel = property(lambda self: self)

        def terminate(self):
            rec.ops.append(("terminate", self.wid))

        kill = terminate

        def close(self):
            rec.ops.append(("pclose", self.wid))

    return types.SimpleNamespace(Queue=Q, Event=E, Process=P)


class patched_mp:
    def __init__(self, fake):
        self.fake = fake

    def __enter__(self):
        self.saved = (real_mp.Queue, real_mp.Event, real_mp.Process)
        real_mp.Queue, real_mp.Event, real_mp.Process = self.fake.Queue, self.fake.Event, self.fake.Process
        return self

    def __exit__(self, *a):
        real_mp.Queue, real_mp.Event, real_mp.Process = self.saved
        return False


def extract_producer(run_entry, queue_script=None, exitcode=0, alive=True):
    """Run the real entry point (a callable taking no arguments) with recording fakes. Returns the Recorder."""
    rec = Recorder()
    rec.exitcode_value, rec.alive_value = exitcode, alive
    fake = recording_mp(rec, queue_script)
    rec.raised = None
    with patched_mp(fake):
        try:
            run_entry()
            rec.returned = True
        except Stop:
            rec.returned = False
        except Exception as e:          # the entry point reports a failure to its caller
            rec.returned = False
            rec.raised = "%s: %s" % (type(e).__name__, e)
    return rec


def extract_full_reaction(run_entry, n_workers):
    """How does the real entry point react when a put() on its bounded queue times out (queue.Full)?
    None if it never passes a time-out to put().  Otherwise a dict:
      raises_if_some_dead / raises_if_all_dead : it raises at that moment when one / every worker is not alive
      prunes_dead : after a Full with worker 0 dead it goes on, and worker 0's exit code is never read afterwards"""
    base = extract_producer(run_entry)
    if not getattr(base, "put_timeouts", None):
        return None

    def probe(dead):
        rec = Recorder()
        rec.exitcode_value, rec.alive_value = 0, True
        rec.alive_of = {w: False for w in dead}
        rec.exitcode_of = {w: 1 for w in dead}
        rec.full_at = {1}
        rec.raised = None
        fake = recording_mp(rec)
        with patched_mp(fake):
            try:
                run_entry()
                rec.returned = True
            except Stop:
                rec.returned = False
            except Exception as e:
                rec.returned = False
                rec.raised = "%s: %s" % (type(e).__name__, e)
        return rec

    some = probe({0})
    allw = probe(set(range(n_workers)))
    after = some.ops[some.ops.index(("full", [o for o in some.ops if o[0] == "full"][0][1])):] if any(o[0] == "full" for o in some.ops) else []
    checked = {o[1] for o in after if o[0] == "exitcode"}
    raised_at_full = some.raised is not None and not any(o[0] == "put" for o in after)
    return dict(raises_if_some_dead=raised_at_full, raises_if_all_dead=allw.raised is not None and not any(o[0] == "put" for o in allw.ops[allw.ops.index([o for o in allw.ops if o[0] == "full"][0]):]),
                prunes_dead=(not raised_at_full) and 0 not in checked, reads_exit_codes_of=sorted(checked), raised_finally=some.raised)


# ------------------------------------------------------------------ 2. worker reaction table

def call_worker_as_entry_does(run_entry, inq, ev, outq):
    """Invoke the REAL worker function exactly as the REAL entry point would start it: the entry point runs against
    recording fakes, the first Process's (target, args, kwargs) are taken, the queue the producer puts to is replaced by
    `inq`, any other queue by `outq`, the event the producer sets by `ev` (other events stay passive fakes), and the
    target is called in this thread.  Robust against changes of the worker's signature / argument order."""
    rec = extract_producer(run_entry)
    if not rec.procs:
        raise HarnessError("the entry point started no worker process")
    put_q = {op[1] for op in rec.ops if op[0] == "put"} or {0}

    def mp_(a):
        if any(a is q for q in rec.queues):
            return inq if a.qid in put_q else outq
        if any(a is e for e in rec.events):
            return ev if a.flag or len(rec.events) == 1 else a
        return a

    p0 = rec.procs[0]
    return p0.target(*[mp_(a) for a in p0.args], **{k: mp_(v) for k, v in p0.kwargs.items()})


def infer_fault_reaction(call_worker, make_item=None):
    """What does the REAL worker function do when the per-item action raises?  Probe: a failing item, a good item, then
    an empty queue with the shutdown flag up.
      'die'            the exception (or a non-zero SystemExit) leaves the worker function at once
      'exit0'          the worker swallows it and returns normally without receiving again
      'continue'       the worker swallows it, goes on receiving and finally returns normally
      'continue_exit1' ... goes on receiving and finally exits with a non-zero status"""

    class Boom(Exception):
        pass

    state = {"k": 0, "gets": 0, "cbs": 0}

    def hook_for(k):
        def hook(*a):
            if k == 1:
                raise Boom("injected failure")
            state["cbs"] += 1
        return hook

    class InQ:
        def get(self, block=True, timeout=None):
            state["gets"] += 1
            state["k"] += 1
            k = state["k"]
            if k <= 2:
                if make_item is not None:
                    return make_item(k, hook_for(k))
                return ("ITEM", k)
            if k == 3:
                raise Empty()
            raise Stop()

    class Ev:
        def is_set(self):
            return state["k"] >= 2

        def wait(self, timeout=None):
            return self.is_set()

        def set(self):
            pass

    class OutQ:
        def put(self, item, *a, **k):
            if state["k"] == 1:
                raise HarnessError("the worker reports the item whose action raised as done: not modelled")

    def on_cb(item):
        hook_for(state["k"])()

    try:
        call_worker(InQ(), Ev(), on_cb, OutQ())
        end = "returned"
    except Boom:
        end = "propagated"
    except SystemExit as e:
        end = "exit-nonzero" if e.code not in (0, None) else "returned"
    except Stop:
        end = "stop"
    if end == "propagated" or (end == "exit-nonzero" and state["gets"] == 1):
        return "die"
    if state["gets"] == 1 and end == "returned":
        return "exit0"
    if state["gets"] >= 2 and end == "returned":
        return "continue"
    if state["gets"] >= 2 and end == "exit-nonzero":
        return "continue_exit1"
    raise HarnessError("worker reaction to a failing item outside the modelled family: end=%s after %d receives" % (end, state["gets"]))


def worker_callbacks_for(call_worker, message):
    """Hand ONE recorded queue message to the REAL worker function (then end of input) and return the callback
    arguments it produces for it, in order — the work items a message stands for (normally exactly one)."""
    out = []
    state = {"k": 0}

    class InQ:
        def get(self, block=True, timeout=None):
            state["k"] += 1
            if state["k"] == 1:
                return message
            raise Stop()

    class Ev:
        def is_set(self):
            return False

        def wait(self, timeout=None):
            return False

    class OutQ:
        def put(self, item, *a, **k):
            pass

    try:
        call_worker(InQ(), Ev(), lambda item: out.append(item), OutQ())
    except Stop:
        pass
    return out


def infer_worker(call_worker, max_len=3, make_item=None):
    """call_worker(in_queue, event, on_callback, out_queue) must invoke the REAL worker function.

    Probes it with every response sequence of length <= max_len over {item, Empty/flag-unset, Empty/flag-set} and
    checks that its reaction is a memoryless loop; returns the table
        post_item : tuple over {'cb', 'put'}   actions performed for a received item, in order
        checks_flag, exit_on_set, exit_on_unset
    """
    alphabet = ["item", "empty_unset", "empty_set"]
    table = {}
    nseq = 0
    styles = set()
    style = {"v": None}       # fixed by the first flag read of the first probe
    for n in range(1, max_len + 1):
        for seq in itertools.product(alphabet, repeat=n):
            nseq += 1
            log = []
            state = {"flag": False, "k": 0}

            class InQ:
                def get(self, block=True, timeout=None):
                    log.append(("get",))
                    if state["k"] >= len(seq):
                        raise Stop()
                    r = seq[state["k"]]
                    state["k"] += 1
                    if r == "item":
                        state["flag"] = False
                        k = state["k"]
                        if make_item is not None:
                            return make_item(k, lambda k=k: log.append(("cb", ("ITEM", k))))
                        return ("ITEM", k)
                    state["flag"] = r == "empty_set"
                    raise Empty()

                def put(self, *a, **k):
                    raise HarnessError("worker writes to its input queue")

            class OutQ:
                def put(self, item, *a, **k):
                    log.append(("put", item))

            class Ev:
                def is_set(self):
                    if style["v"] is None:
                        style["v"] = "before_get" if not log else "after_empty"
                    log.append(("is_set",))
                    if style["v"] == "after_empty":
                        return state["flag"]          # flag as of the receive that just timed out
                    # read BEFORE the receive: the flag that goes with the upcoming response
                    k = state["k"]
                    return k < len(seq) and seq[k] == "empty_set"

                def wait(self, timeout=None):
                    return self.is_set()

            def on_cb(item):
                # with a caller-supplied message the callback argument is whatever the code passes: name it by the
                # receive it belongs to
                log.append(("cb", ("ITEM", state["k"]) if make_item is not None else item))

            exited = False
            try:
                call_worker(InQ(), Ev(), on_cb, OutQ())
                exited = True
            except Stop:
                pass
            if log and log[0] == ("is_set",):
                styles.add("before_get")
            elif ("is_set",) in log:
                styles.add("after_empty")
            # split the log into reactions
            reactions = []
            cur = None
            for ev in log:
                if ev[0] == "get":
                    if cur is not None:
                        reactions.append(cur)
                    cur = []
                elif cur is not None:
                    cur.append(ev)
            if cur is not None:
                reactions.append(cur)
            for i, resp in enumerate(seq):
                if i >= len(reactions):
                    break
                react = reactions[i]
                last = i == len(reactions) - 1
                if resp == "item":
                    item = ("ITEM", i + 1)
                    acts = []
                    for ev in react:
                        if ev[0] == "cb" and ev[1] == item:
                            acts.append("cb")
                        elif ev[0] == "put" and ev[1] == item:
                            acts.append("put")
                        elif ev[0] == "is_set":
                            pass                          # (a flag read belonging to the next loop iteration)
                        else:
                            raise HarnessError("worker reaction outside the modelled family: %r on item" % (ev,))
                    key = ("item", tuple(acts), exited and last)
                else:
                    acts = tuple(ev[0] for ev in react if ev[0] != "is_set")
                    key = (resp, acts, exited and last)
                prev = table.setdefault(resp, key)
                if prev != key:
                    raise HarnessError("worker is not a memoryless loop: response %s gives %r and %r" % (resp, prev, key))
    if "item" not in table:
        raise HarnessError("worker never consumed an item")
    item_key = table["item"]
    if item_key[2]:
        raise HarnessError("worker exits after processing an item")
    post = tuple(a for a in item_key[1] if a in ("cb", "put"))
    if post.count("cb") != 1:
        raise HarnessError("worker does not call the callback exactly once per item: %r" % (post,))
    eu, es = table.get("empty_unset"), table.get("empty_set")
    if len(styles) > 1:
        raise HarnessError("worker reads the shutdown flag at varying points of its loop: %r" % (styles,))
    return dict(post_item=post, checks_flag=bool(styles),
                exit_on_set=bool(es and es[2]), exit_on_unset=bool(eu and eu[2]), probes=nseq,
                flag_read=(list(styles)[0] if styles else "never"))


# ------------------------------------------------------------------ 3. transition system of one producer/worker stage

NOTPUT, INBUF, INPIPE, HELD, RUNNING, CBDONE, FINISHED, LOST = range(8)
W_NOTSTARTED, W_IDLE, W_BUSY, W_EXITED, W_DEAD, W_CHECK, W_READY = range(7)


def stage_ts(script, table, n_workers, fault=False, detects=True, full=None):
    """script: producer ops [('start', w) | ('put', q, item) | ('close', q) | ('join_thread', q) | ('set',) | ('join', w)
    | ('exitcode', w) ...]; table: worker reaction table; fault: one callback (symbolic item) raises."""
    ts = bmc.TS("stage")
    items = [op for op in script if op[0] == "put"]
    I, W = len(items), n_workers
    maxsize = script_maxsize(script)
    ts.var("pc", 8, 0)
    ts.var("flag", 1, 0)
    ts.var("raised", 1, 0)                       # the producer observed a worker failure and raised
    for w in range(n_workers):
        ts.var("pr%d" % w, 1, 0)                 # worker dropped from the producer's list after a put() time-out
    for i in range(I):
        ts.var("st%d" % i, 3, NOTPUT)
        ts.var("ow%d" % i, 3, 0)
        ts.var("cnt%d" % i, 2, 0)
    for w in range(W):
        ts.var("ws%d" % w, 3, W_NOTSTARTED)
        ts.var("wx%d" % w, 1, 0)                 # this worker's per-item action raised at some point
    fitem = None
    if fault:
        fitem = z3.BitVec("fault_item", 4)
        ts.param(fitem, z3.ULT(fitem, I))
    ts.fault_item = fitem

    def outstanding(s):
        return sum([z3.If(z3.Or(s["st%d" % i] == INBUF, s["st%d" % i] == INPIPE), z3.BitVecVal(1, 8), z3.BitVecVal(0, 8)) for i in range(I)],
                   z3.BitVecVal(0, 8))

    def pipe_empty(s):
        return z3.And(*[s["st%d" % i] != INPIPE for i in range(I)]) if I else z3.BoolVal(True)

    def buf_empty(s):
        return z3.And(*[s["st%d" % i] != INBUF for i in range(I)]) if I else z3.BoolVal(True)

    # ---- producer
    put_no = 0
    end = len(script)
    for pc, op in enumerate(script):
        kind = op[0]
        at = (lambda pc: (lambda s: s["pc"] == pc))(pc)
        nxt = (lambda pc: (lambda s: {"pc": bmc.bv(pc + 1, 8)}))(pc)
        if kind == "start":
            w = op[1]
            ts.t("start w%d" % w, "main", at, (lambda pc, w: (lambda s: {"pc": bmc.bv(pc + 1, 8), "ws%d" % w: bmc.bv(W_IDLE, 3)}))(pc, w))
        elif kind == "put":
            i = put_no
            put_no += 1
            g = (lambda pc: (lambda s: z3.And(s["pc"] == pc, z3.ULT(outstanding(s), maxsize) if maxsize > 0 else z3.BoolVal(True))))(pc)
            ts.t("put i%d" % i, "main", g, (lambda pc, i: (lambda s: {"pc": bmc.bv(pc + 1, 8), "st%d" % i: bmc.bv(INBUF, 3)}))(pc, i))
            if full and maxsize > 0:
                # put(timeout=...) on a queue that stays full: queue.Full, handled as extracted from the real code
                isfull = (lambda pc: (lambda s: z3.And(s["pc"] == pc, outstanding(s) == maxsize)))(pc)
                somedead = lambda s: z3.Or(*[s["ws%d" % w] == W_DEAD for w in range(W)])
                alldead = lambda s: z3.And(*[z3.Or(s["ws%d" % w] == W_DEAD, s["ws%d" % w] == W_EXITED) for w in range(W)])
                ts.t("put-timeout i%d (nobody dead)" % i, "main", (lambda isfull: (lambda s: z3.And(isfull(s), z3.Not(somedead(s)))))(isfull), lambda s: {}, spin=True)

                def upd(s, end=len(script)):
                    raise_now = z3.Or(z3.BoolVal(bool(full.get("raises_if_some_dead"))), z3.And(z3.BoolVal(bool(full.get("raises_if_all_dead"))), alldead(s)))
                    out = {"raised": z3.If(raise_now, bmc.bv(1, 1), s["raised"]), "pc": z3.If(raise_now, bmc.bv(end, 8), s["pc"])}
                    if full.get("prunes_dead"):
                        for w in range(W):
                            out["pr%d" % w] = z3.If(z3.And(z3.Not(raise_now), s["ws%d" % w] == W_DEAD), bmc.bv(1, 1), s["pr%d" % w])
                    return out
                ts.t("put-timeout i%d" % i, "main", (lambda isfull: (lambda s: z3.And(isfull(s), somedead(s), z3.Or(*[z3.And(s["ws%d" % w] == W_DEAD, s["pr%d" % w] == 0) for w in range(W)]))))(isfull), upd)
        elif kind == "join_thread":
            cancelled = any(o[0] == "cancel_join_thread" for o in script[:pc])
            if cancelled:
                # Queue.cancel_join_thread() was called before: join_thread() returns without waiting for the flush
                ts.t("join_thread", "main", at, nxt)
            else:
                ts.t("join_thread", "main", (lambda pc: (lambda s: z3.And(s["pc"] == pc, buf_empty(s))))(pc), nxt)
        elif kind == "set":
            ts.t("set", "main", at, (lambda pc: (lambda s: {"pc": bmc.bv(pc + 1, 8), "flag": bmc.bv(1, 1)}))(pc))
        elif kind == "join":
            w = op[1]
            ts.t("join w%d" % w, "main", (lambda pc, w: (lambda s: z3.And(s["pc"] == pc, z3.Or(s["ws%d" % w] == W_EXITED, s["ws%d" % w] == W_DEAD, s["pr%d" % w] == 1))))(pc, w), nxt)
        elif kind == "exitcode":
            w = op[1]
            # reading the exit code of a joined worker: a failure becomes visible (the producer raises)
            ts.t("exitcode w%d" % w, "main", at,
                 (lambda pc, w: (lambda s: {"pc": bmc.bv(pc + 1, 8), "raised": z3.If(z3.And(s["ws%d" % w] == W_DEAD, s["pr%d" % w] == 0), bmc.bv(1 if detects else 0, 1), s["raised"])}))(pc, w))
        elif kind in ("clear", "terminate"):
            raise HarnessError("the producer calls Event.clear() / Process.terminate(): not modelled")
        else:   # close, is_alive, anything without effect on the model
            ts.t(kind, "main", at, nxt)
    ts.end_pc = end
    # ---- feeder thread of the producer process
    for i in range(I):
        ts.t("flush i%d" % i, "feeder", (lambda i: (lambda s: s["st%d" % i] == INBUF))(i), (lambda i: (lambda s: {"st%d" % i: bmc.bv(INPIPE, 3)}))(i))
    # ---- workers
    post = table["post_item"]
    for w in range(W):
        wsn = "ws%d" % w
        for i in range(I):
            st, ow, cnt = "st%d" % i, "ow%d" % i, "cnt%d" % i
            ts.t("get w%d i%d" % (w, i), "w%d" % w,
                 (lambda wsn, st: (lambda s: z3.And(s[wsn] == W_IDLE, s[st] == INPIPE)))(wsn, st),
                 (lambda wsn, st, ow, w: (lambda s: {wsn: bmc.bv(W_BUSY, 3), st: bmc.bv(HELD, 3), ow: bmc.bv(w, 3)}))(wsn, st, ow, w))
            mine = (lambda st, ow, w, val: (lambda s: z3.And(s[st] == val, s[ow] == w)))
            ts.t("cb_start w%d i%d" % (w, i), "w%d" % w, mine(st, ow, w, HELD), (lambda st: (lambda s: {st: bmc.bv(RUNNING, 3)}))(st))
            if fault:
                ok = (lambda st, ow, w, i: (lambda s: z3.And(s[st] == RUNNING, s[ow] == w, fitem != i)))(st, ow, w, i)
                ts.t("cb_end w%d i%d" % (w, i), "w%d" % w, ok,
                     (lambda st, cnt, wsn: (lambda s: {st: bmc.bv(FINISHED, 3), cnt: s[cnt] + 1, wsn: bmc.bv(W_IDLE, 3)}))(st, cnt, wsn))
                bad = (lambda st, ow, w, i: (lambda s: z3.And(s[st] == RUNNING, s[ow] == w, fitem == i)))(st, ow, w, i)
                on_raise = table.get("on_raise", "die")
                after = {"die": W_DEAD, "exit0": W_EXITED, "continue": W_IDLE, "continue_exit1": W_IDLE}[on_raise]
                ts.t("cb_raise w%d i%d" % (w, i), "w%d" % w, bad,
                     (lambda st, wsn, after, w: (lambda s: {st: bmc.bv(LOST, 3), wsn: bmc.bv(after, 3), "wx%d" % w: bmc.bv(1, 1)}))(st, wsn, after, w))
            else:
                ts.t("cb_end w%d i%d" % (w, i), "w%d" % w, mine(st, ow, w, RUNNING),
                     (lambda st, cnt, wsn: (lambda s: {st: bmc.bv(FINISHED, 3), cnt: s[cnt] + 1, wsn: bmc.bv(W_IDLE, 3)}))(st, cnt, wsn))
        # leaving the loop: a receive time-out (possible only while the pipe is empty) and the worker's test of the
        # shutdown flag are SEPARATE steps; which comes first is part of the extracted table
        ts.var("wf%d" % w, 1, 0)
        style = table.get("flag_read", "after_empty")
        idle_empty = (lambda wsn: (lambda s: z3.And(s[wsn] == W_IDLE, pipe_empty(s))))(wsn)
        if fault and table.get("on_raise") == "continue_exit1":
            # a worker that swallowed a failure leaves its loop with a non-zero exit status
            to = (lambda wsn, val, w=w: (lambda s: {wsn: (z3.If(s["wx%d" % w] == 1, bmc.bv(W_DEAD, 3), bmc.bv(W_EXITED, 3)) if val == W_EXITED else bmc.bv(val, 3))}))
        else:
            to = (lambda wsn, val: (lambda s: {wsn: bmc.bv(val, 3)}))
        if table["exit_on_unset"]:
            ts.t("timeout-exit w%d" % w, "w%d" % w, idle_empty, to(wsn, W_EXITED))
        elif not table["exit_on_set"]:
            pass                                                  # never leaves its loop
        elif style == "before_get":
            # flag read, then the blocking receive; exits if the receive times out and the flag HAD been set
            ts.t("readflag w%d" % w, "w%d" % w, (lambda wsn: (lambda s: z3.And(s[wsn] == W_IDLE, pipe_empty(s), s["flag"] == 0)))(wsn),
                 (lambda wsn, w: (lambda s: {wsn: bmc.bv(W_READY, 3), "wf%d" % w: s["flag"]}))(wsn, w), spin=True)
            ts.t("readflag w%d (flag up)" % w, "w%d" % w, (lambda wsn: (lambda s: z3.And(s[wsn] == W_IDLE, pipe_empty(s), s["flag"] == 1)))(wsn),
                 (lambda wsn, w: (lambda s: {wsn: bmc.bv(W_READY, 3), "wf%d" % w: s["flag"]}))(wsn, w))
            for i in range(I):
                st, ow = "st%d" % i, "ow%d" % i
                ts.t("get w%d i%d (ready)" % (w, i), "w%d" % w, (lambda wsn, st: (lambda s: z3.And(s[wsn] == W_READY, s[st] == INPIPE)))(wsn, st),
                     (lambda wsn, st, ow, w: (lambda s: {wsn: bmc.bv(W_BUSY, 3), st: bmc.bv(HELD, 3), ow: bmc.bv(w, 3)}))(wsn, st, ow, w))
            ts.t("timeout-exit w%d" % w, "w%d" % w, (lambda wsn, w: (lambda s: z3.And(s[wsn] == W_READY, pipe_empty(s), s["wf%d" % w] == 1)))(wsn, w), to(wsn, W_EXITED))
            ts.t("timeout-retry w%d" % w, "w%d" % w, (lambda wsn, w: (lambda s: z3.And(s[wsn] == W_READY, pipe_empty(s), s["wf%d" % w] == 0, s["flag"] == 0)))(wsn, w), to(wsn, W_IDLE), spin=True)
            ts.t("timeout-retry w%d (flag up meanwhile)" % w, "w%d" % w, (lambda wsn, w: (lambda s: z3.And(s[wsn] == W_READY, pipe_empty(s), s["wf%d" % w] == 0, s["flag"] == 1)))(wsn, w), to(wsn, W_IDLE))
        else:
            # receive times out first, the flag is tested afterwards (possibly much later)
            ts.t("timeout w%d" % w, "w%d" % w, (lambda wsn: (lambda s: z3.And(s[wsn] == W_IDLE, pipe_empty(s), s["flag"] == 0)))(wsn), to(wsn, W_CHECK), spin=True)
            ts.t("timeout w%d (flag up)" % w, "w%d" % w, (lambda wsn: (lambda s: z3.And(s[wsn] == W_IDLE, pipe_empty(s), s["flag"] == 1)))(wsn), to(wsn, W_CHECK))
            ts.t("flagcheck-exit w%d" % w, "w%d" % w, (lambda wsn: (lambda s: z3.And(s[wsn] == W_CHECK, s["flag"] == 1)))(wsn), to(wsn, W_EXITED))
            ts.t("flagcheck-retry w%d" % w, "w%d" % w, (lambda wsn: (lambda s: z3.And(s[wsn] == W_CHECK, s["flag"] == 0)))(wsn), to(wsn, W_IDLE), spin=True)
    ts.I, ts.W = I, W
    ts.max_steps = len(script) + I + 3 * I + 5 * W + 2

    def spin_norm(s):
        # a worker in the middle of a polling round (timed out / flag read, flag down) is back at the receive
        out = {}
        for w in range(W):
            x = s["ws%d" % w]
            out["ws%d" % w] = z3.If(z3.And(s["flag"] == 0, z3.Or(x == W_CHECK, z3.And(x == W_READY, s["wf%d" % w] == 0))), bmc.bv(W_IDLE, 3), x)
        return out
    ts.spin_norm = spin_norm
    return ts


def script_maxsize(script):
    for op in script:
        if op[0] == "maxsize":
            return op[1]
    return 0


def stage_good_final(ts, s):
    return z3.And(s["pc"] == ts.end_pc, *[s["st%d" % i] == FINISHED for i in range(ts.I)], *[s["cnt%d" % i] == 1 for i in range(ts.I)],
                  *[s["ws%d" % w] == W_EXITED for w in range(ts.W)])


def stage_returned_early(ts, s):
    """The entry point has returned although some item is not fully processed or some worker has not exited."""
    return z3.And(s["pc"] == ts.end_pc, z3.Not(z3.And(*[s["st%d" % i] == FINISHED for i in range(ts.I)],
                                                      *[z3.Or(s["ws%d" % w] == W_EXITED, s["ws%d" % w] == W_DEAD) for w in range(ts.W)])))


# ------------------------------------------------------------------ 4. deterministic-schedule replay on the real code

class Killed(BaseException):
    pass


class Sched:
    """Every fake primitive is a rendezvous: the calling thread announces its operation and blocks until the driver
    grants that actor the next turn (only while the operation is enabled)."""

    def __init__(self):
        self.cv = threading.Condition()
        self.turn = None
        self.waiting = {}
        self.log = []
        self.dead = False
        self.local = threading.local()

    def me(self):
        return getattr(self.local, "name", "main")

    def op(self, name, enabled=lambda: True):
        a = self.me()
        with self.cv:
            self.waiting[a] = (name, enabled)
            self.cv.notify_all()
            while self.turn != a:
                if self.dead:
                    raise Killed()
                self.cv.wait(0.05)
            self.turn = None
            del self.waiting[a]
            self.log.append((a, name))
            self.cv.notify_all()

    def drive(self, schedule, step_timeout=3.0, free_run=True):
        """Follow `schedule` (list of actor names); afterwards optionally let every enabled actor run (fair
        round-robin) until quiescence. Returns ('ok' | 'stuck', detail)."""
        for step, a in enumerate(schedule):
            ok = self._grant(a, 0.25)
            helps = 0
            while not ok and helps < 12:
                # the model's steps are coarser than the real primitives in places (e.g. the dispatcher's consume+put,
                # FIFO order of the pipes): let another enabled actor move (main first), then retry the scheduled one
                with self.cv:
                    names = sorted(self.waiting, key=lambda n: (n != "main", n))
                moved = False
                for b in names:
                    if b != a and self._grant(b, 0.02):
                        moved = True
                        helps += 1
                        break
                ok = self._grant(a, 0.25 if moved else step_timeout / 4.0)
                if not moved and not ok:
                    break
            if not ok:
                with self.cv:
                    w = dict((k, v[0]) for k, v in self.waiting.items())
                return ("stuck", step, a, w)
        if free_run:
            idle = 0
            grants = 0
            while idle < 3 and grants < 400:
                progressed = False
                with self.cv:
                    names = sorted(self.waiting)
                for a in names:
                    if self._grant(a, 0.05):
                        progressed = True
                        grants += 1
                if not progressed:
                    idle += 1
                    time.sleep(0.03)
                else:
                    idle = 0
        with self.cv:
            w = dict((k, v[0]) for k, v in self.waiting.items())
        return ("end", w)

    def _grant(self, a, timeout):
        t0 = time.time()
        with self.cv:
            while True:
                w = self.waiting.get(a)
                if w is not None and self.turn is None:
                    try:
                        en = w[1]()
                    except Exception:
                        en = False
                    if en:
                        self.turn = a
                        self.cv.notify_all()
                        break
                if time.time() - t0 > timeout:
                    return False
                self.cv.wait(0.01)
        with self.cv:
            t1 = time.time()
            while self.turn is not None:
                self.cv.wait(0.01)
                if time.time() - t1 > 5:
                    return False
        return True

    def kill(self):
        with self.cv:
            self.dead = True
            self.cv.notify_all()


def sched_mp(S):
    """Thread-based multiprocessing stand-in driven by scheduler S (environment model of DESIGN §2/E3)."""
    state = types.SimpleNamespace(nq=0, np=0, procs=[])

    class Q:
        def __init__(self, maxsize=0):
            self.qid = state.nq
            state.nq += 1
            self.maxsize = maxsize
            self.bufs = {}          # producer actor -> its feeder buffer
            self.pipe = []
            self.outstanding = 0

        def _feeder(self, owner):
            q = self

            def body():
                S.local.name = "feeder:%s:q%d" % (owner, q.qid)
                try:
                    while True:
                        S.op("flush", lambda: len(q.bufs[owner]) > 0)
                        # the feeder thread pickles the object NOW: later mutations by the producer are not seen, earlier ones are
                        q.pipe.append(_container_snapshot(q.bufs[owner].pop(0)))
                except Killed:
                    pass

            threading.Thread(target=body, daemon=True).start()

        def put(self, item, block=True, timeout=None):
            if timeout is not None or not block:
                # granted at a moment chosen by the schedule: Full iff the queue is full then (it stayed full for the time-out)
                S.op("put q%d" % self.qid)
                if self.maxsize > 0 and self.outstanding >= self.maxsize:
                    raise Full()
            else:
                S.op("put q%d" % self.qid, lambda: self.maxsize <= 0 or self.outstanding < self.maxsize)
            me = S.me()
            if me not in self.bufs:
                self.bufs[me] = []
                self._feeder(me)
            self.outstanding += 1
            self.bufs[me].append(item)

        def get(self, block=True, timeout=None):
            S.op("get q%d" % self.qid)           # granted at a moment chosen by the schedule: Empty iff the pipe is empty then
            if self.pipe:
                self.outstanding -= 1
                return self.pipe.pop(0)
            raise Empty()

        def close(self):
            S.op("close q%d" % self.qid)

        def join_thread(self):
            me = S.me()
            # after cancel_join_thread() the call does not wait for the feeder buffer to be flushed
            S.op("join_thread q%d" % self.qid, lambda: not self.bufs.get(me) or getattr(self, "cancelled", False))

        def cancel_join_thread(self):
            self.cancelled = True

        def qsize(self):
            return len(self.pipe)

        def empty(self):
            return not self.pipe

        def full(self):
            return self.maxsize > 0 and self.outstanding >= self.maxsize

        def put_nowait(self, item):
            return self.put(item, block=False)

        def get_nowait(self):
            return self.get(block=False)

    class E:
        def __init__(self):
            self.f = False

        def set(self):
            S.op("set")
            self.f = True

        def is_set(self):
            if S.me() != "main":
                S.op("is_set")
            return self.f

        def wait(self, timeout=None):
            if S.me() != "main":
                S.op("is_set")
            return self.f

    class P:
        def __init__(self, target=None, args=(), kwargs=None, **kw):
            self.target, self.args, self.kwargs = target, tuple(args), dict(kwargs or {})
            self.daemon = False
            self.exited = False
            self.exitcode = None
            self.name = "w%d" % state.np
            state.np += 1
            state.procs.append(self)

        def start(self):
            S.op("start")

            def body():
                S.local.name = self.name
                try:
                    self.target(*self.args, **self.kwargs)
                    self.exitcode = 0
                except Killed:
                    return
                except SystemExit as e:
                    self.exitcode = e.code if isinstance(e.code, int) else (0 if e.code is None else 1)
                except BaseException:
                    self.exitcode = 1          # an exception in the worker kills the process
                finally:
                    self.exited = True

            threading.Thread(target=body, daemon=True).start()

        def join(self, timeout=None):
            S.op("join %s" % self.name, lambda: self.exited)

        def is_alive(self):
            return not self.exited

        pid = property(lambda self: 1000 + int(self.name[1:]))
        sentinel = property(lambda self: self)

        def terminate(self):
            raise HarnessError("Process.terminate() is not modelled by the replay scheduler")

        kill = terminate

        def close(self):
            pass

    return types.SimpleNamespace(Queue=Q, Event=E, Process=P), state


def replay(run_entry_with_cb, schedule, step_timeout=3.0, snapshot=None):
    """run_entry_with_cb(S) runs the REAL entry point (in the calling thread named 'main'); returns observation dict."""
    S = Sched()
    fake, state = sched_mp(S)
    result = {}

    def main():
        S.local.name = "main"
        try:
            run_entry_with_cb(S)
            # what is true at the very moment the entry point returns
            result["procs_at_return"] = [(p.name, p.exited, p.exitcode) for p in state.procs]
            if snapshot is not None:
                result["at_return"] = snapshot()
            result["returned"] = True
        except Killed:
            pass
        except BaseException as e:      # visible failure of the entry point
            result["raised"] = "%s: %s" % (type(e).__name__, e)

    with patched_mp(fake):
        t = threading.Thread(target=main, daemon=True)
        t.start()
        out = S.drive(schedule, step_timeout=step_timeout)
        time.sleep(0.05)
        S.kill()
        t.join(1.0)
    result["drive"] = out
    result["log"] = list(S.log)
    result["procs"] = [(p.name, p.exited, p.exitcode) for p in state.procs]
    return result


# ------------------------------------------------------------------ 5. the walk protocol (dispatcher + workers, two queues)

def learn_dispatcher(make_pyramid, parent, children, depth_label=""):
    """Learn the REAL dispatcher's release behaviour for one parent by driving Pyramid.walk(parallel=2) against
    recording fakes: for every pattern of dead children and every order in which the live children are reported,
    observe after which report the parent is put on the ready queue, and whether reporting the apex ends the loop.

    make_pyramid(live_set) -> Pyramid whose `children[i]` is live iff i in live_set (parent must be the apex or be
    reported upward).  Returns R: {(dead_mask, reported_mask_before, bit) -> released_now(bool)} and facts."""
    R = {}
    facts = dict(runs=0, seeds_ok=True, frame_ok=True, apex_break=None)
    for dead in range(15):
        live = [i for i in range(4) if not (dead >> i) & 1]
        for order in itertools.permutations(live):
            rec = Recorder()
            state = dict(k=0, released_at=None, fed_parent=False)

            def responder(rec=rec, state=state, order=order):
                # what happened since the previous get?
                if state["k"] > 0 and state["released_at"] is None:
                    puts = [op for op in rec.ops[state["mark"]:] if op[0] == "put" and op[1] == 0]
                    if any(op[2] == parent for op in puts):
                        state["released_at"] = state["k"] - 1
                    others = [op for op in puts if op[2] != parent]
                    if others:
                        facts["frame_ok"] = False
                state["mark"] = len(rec.ops)
                if state["k"] < len(order):
                    c = children[order[state["k"]]]
                    state["k"] += 1
                    return c
                if state["released_at"] is not None and not state["fed_parent"]:
                    state["fed_parent"] = True
                    state["k"] += 1
                    return parent
                raise Stop()

            fake = recording_mp(rec, {1: responder})
            pyr = make_pyramid(set(live))
            with patched_mp(fake):
                try:
                    pyr.walk(lambda pos: None, parallel=2)
                    returned = True
                except Stop:
                    returned = False
            facts["runs"] += 1
            seeds = [op[2] for op in rec.ops if op[0] == "put" and op[1] == 0 and op[2] in children]
            if sorted(seeds) != sorted(children[i] for i in live):
                facts["seeds_ok"] = False
            # record the table entries of this run
            rep = 0
            for j, i in enumerate(order):
                R[(dead, rep, i)] = (state["released_at"] == j)
                rep |= 1 << i
                if state["released_at"] is not None and state["released_at"] <= j:
                    break
            if state["fed_parent"]:
                facts["apex_break"] = returned if facts["apex_break"] in (None, returned) else "inconsistent"
    return R, facts


WT_NOTREADY, WT_RBUF, WT_RPIPE, WT_HELD, WT_RUN, WT_CBDONE, WT_DBUF, WT_DPIPE, WT_CONS, WT_LOST = range(10)


def walk_ts(tree, n_workers, R, worker_post, done_maxsize, shutdown, fault=False, max_live_seeds=None, apex_breaks=True,
            loop_detects_dead=False, detects=True, flag_read="after_empty", early_set=(), on_raise="die"):
    """tree: list of dicts(name, parent (index or None), bit, seed (bool: level == depth-1)).  The last entry is the apex.
    Liveness of every seed tile is a symbolic Boolean; an upper tile is live iff one of its children in the tree is.
    R: learned release table; shutdown: producer ops after the loop, e.g. ['close','join_thread','set','join','join'].
    """
    ts = bmc.TS("walk")
    N, W = len(tree), n_workers
    kids = {p: [i for i, t in enumerate(tree) if t["parent"] == p] for p in range(N)}
    live_seed = {i: z3.Bool("live_%s" % t["name"]) for i, t in enumerate(tree) if t["seed"]}
    live = {}

    def liveness(i):
        if i in live:
            return live[i]
        if tree[i]["seed"]:
            live[i] = live_seed[i]
        else:
            live[i] = z3.Or(*[liveness(c) for c in kids[i]]) if kids[i] else z3.BoolVal(False)
        return live[i]

    for i in range(N):
        liveness(i)
    apex = N - 1
    ts.param(z3.Bool("dummy_param"), liveness(apex))          # something to do: the apex is live
    if max_live_seeds is not None:
        ts.param_constraints.append(z3.PbLe([(v, 1) for v in live_seed.values()], max_live_seeds))
    fitem = None
    if fault:
        fitem = z3.BitVec("fault_tile", 4)
        ts.param(fitem, z3.ULT(fitem, N), z3.Or(*[z3.And(fitem == i, liveness(i)) for i in range(N)]))
    ts.fault_item = fitem
    ts.live = live
    ts.live_seed = live_seed
    for i, t in enumerate(tree):
        init = z3.If(liveness(i), bmc.bv(WT_RBUF, 4), bmc.bv(WT_NOTREADY, 4)) if t["seed"] else bmc.bv(WT_NOTREADY, 4)
        ts.var("st%d" % i, 4, init)
        ts.var("ow%d" % i, 3, 0)
        ts.var("cb%d" % i, 2, 0)           # completed callbacks
        ts.var("rep%d" % i, 4, 0)          # children of i reported so far (mask)
    ts.var("pcd", 5, 0)                    # 0 = dispatch loop; 1.. = shutdown script position + 1
    ts.var("flag", 1, 0)
    ts.var("err", 1, 0)
    ts.var("raised", 1, 0)
    for w in range(W):
        ts.var("wx%d" % w, 2, 0)           # 0 running, 1 exited, 2 dead

    def dead_mask(p):
        m = bmc.bv(0, 4)
        for b in range(4):
            c = [k for k in kids[p] if tree[k]["bit"] == b]
            d = z3.Not(liveness(c[0])) if c else z3.BoolVal(True)
            m = m | z3.If(d, bmc.bv(1 << b, 4), bmc.bv(0, 4))
        return m

    def released_now(p, bit, s):
        dm = dead_mask(p)
        opts = [z3.And(dm == d, s["rep%d" % p] == rep) for (d, rep, b), rel in R.items() if b == bit and rel]
        return z3.Or(*opts) if opts else z3.BoolVal(False)

    # ---- dispatcher: consume a completion report
    for i, t in enumerate(tree):
        p = t["parent"]
        g = (lambda i: (lambda s: z3.And(s["pcd"] == 0, s["st%d" % i] == WT_DPIPE)))(i)
        if p is None:
            if apex_breaks:
                ts.t("consume %s" % t["name"], "main", g, (lambda i: (lambda s: {"st%d" % i: bmc.bv(WT_CONS, 4), "pcd": bmc.bv(1, 5)}))(i))
            else:
                ts.t("consume %s" % t["name"], "main", g, (lambda i: (lambda s: {"st%d" % i: bmc.bv(WT_CONS, 4)}))(i))
        else:
            def upd(s, i=i, p=p, bit=t["bit"]):
                rel = released_now(p, bit, s)
                stp = s["st%d" % p]
                out = {"st%d" % i: bmc.bv(WT_CONS, 4), "rep%d" % p: s["rep%d" % p] | bmc.bv(1 << bit, 4),
                       "st%d" % p: z3.If(rel, bmc.bv(WT_RBUF, 4), stp),
                       "err": z3.If(z3.And(rel, stp != WT_NOTREADY), bmc.bv(1, 1), s["err"])}
                if p in early_set:
                    # the real dispatcher sets the shutdown flag right after handing this tile out (extracted)
                    out["flag"] = z3.If(rel, bmc.bv(1, 1), s["flag"])
                return out
            ts.t("consume %s" % t["name"], "main", g, upd)
    # ---- dispatcher: shutdown script
    def rbuf_empty(s):
        return z3.And(*[s["st%d" % i] != WT_RBUF for i in range(N)])

    for k, op in enumerate(shutdown):
        at = (lambda k: (lambda s: s["pcd"] == k + 1))(k)
        nx = (lambda k: (lambda s: {"pcd": bmc.bv(k + 2, 5)}))(k)
        if op == "join_thread":
            ts.t("join_thread", "main", (lambda k: (lambda s: z3.And(s["pcd"] == k + 1, rbuf_empty(s))))(k), nx)
        elif op == "set":
            ts.t("set", "main", at, (lambda k: (lambda s: {"pcd": bmc.bv(k + 2, 5), "flag": bmc.bv(1, 1)}))(k))
        elif op[0] == "join":
            w = op[1]
            ts.t("join w%d" % w, "main", (lambda k, w: (lambda s: z3.And(s["pcd"] == k + 1, z3.Or(s["wx%d" % w] == 1, s["wx%d" % w] == 2))))(k, w), nx)
        elif op[0] == "exitcode":
            w = op[1]
            ts.t("exitcode w%d" % w, "main", at, (lambda k, w: (lambda s: {"pcd": bmc.bv(k + 2, 5), "raised": z3.If(s["wx%d" % w] == 2, bmc.bv(1 if detects else 0, 1), s["raised"])}))(k, w))
        else:
            ts.t(str(op), "main", at, nx)
    ts.end_pcd = len(shutdown) + 1
    # a dispatcher that polls worker liveness inside its loop notices a dead worker on a receive time-out
    if loop_detects_dead:
        ts.t("detect-dead-worker", "main",
             lambda s: z3.And(s["pcd"] == 0, z3.Or(*[s["wx%d" % w] == 2 for w in range(W)]), z3.And(*[s["st%d" % i] != WT_DPIPE for i in range(N)])),
             lambda s: {"pcd": bmc.bv(len(shutdown) + 1, 5), "raised": bmc.bv(1, 1)})
    # ---- feeders
    for i, t in enumerate(tree):
        ts.t("flush-ready %s" % t["name"], "feeder:main", (lambda i: (lambda s: s["st%d" % i] == WT_RBUF))(i), (lambda i: (lambda s: {"st%d" % i: bmc.bv(WT_RPIPE, 4)}))(i))
        ts.t("flush-done %s" % t["name"], "feeder:w", (lambda i: (lambda s: s["st%d" % i] == WT_DBUF))(i), (lambda i: (lambda s: {"st%d" % i: bmc.bv(WT_DPIPE, 4)}))(i))
    # ---- workers
    def busy(s, w):
        return z3.Or(*[z3.And(z3.Or(s["st%d" % i] == WT_HELD, s["st%d" % i] == WT_RUN, s["st%d" % i] == WT_CBDONE), s["ow%d" % i] == w) for i in range(N)])

    def n_done_outstanding(s):
        return sum([z3.If(z3.Or(s["st%d" % i] == WT_DBUF, s["st%d" % i] == WT_DPIPE), bmc.bv(1, 5), bmc.bv(0, 5)) for i in range(N)], bmc.bv(0, 5))

    def rpipe_empty(s):
        return z3.And(*[s["st%d" % i] != WT_RPIPE for i in range(N)])

    put_first = tuple(worker_post) == ("put", "cb")
    if on_raise not in ("die", "exit0", "continue", "continue_exit1"):
        raise HarnessError("unknown worker reaction to a failing callback: %r" % (on_raise,))

    def exit_code_of(w):
        # a worker that swallowed a failure and kept going may still leave with a non-zero status
        if fault and on_raise == "continue_exit1":
            return lambda s: {"wx%d" % w: z3.If(s["wq%d" % w] == 1, bmc.bv(2, 2), bmc.bv(1, 2))}
        return lambda s: {"wx%d" % w: bmc.bv(1, 2)}

    for w in range(W):
        ts.var("wq%d" % w, 1, 0)
        alive = (lambda w: (lambda s: s["wx%d" % w] == 0))(w)
        for i, t in enumerate(tree):
            st, ow, cb = "st%d" % i, "ow%d" % i, "cb%d" % i
            ts.t("get w%d %s" % (w, t["name"]), "w%d" % w,
                 (lambda w, st: (lambda s: z3.And(s["wx%d" % w] == 0, z3.Not(busy(s, w)), s[st] == WT_RPIPE)))(w, st),
                 (lambda st, ow, w: (lambda s: {st: bmc.bv(WT_HELD, 4), ow: bmc.bv(w, 3)}))(st, ow, w))
            mine = (lambda w, st, ow, val: (lambda s: z3.And(s["wx%d" % w] == 0, s[st] == val, s[ow] == w)))
            # child-before-parent safety is checked at the moment the callback starts
            def start_upd(s, i=i, st=st):
                viol = z3.Or(*[z3.And(liveness(c), s["cb%d" % c] == 0) for c in kids[i]]) if kids[i] else z3.BoolVal(False)
                return {st: bmc.bv(WT_RUN, 4), "err": z3.If(viol, bmc.bv(1, 1), s["err"])}
            if not put_first:
                ts.t("cb_start w%d %s" % (w, t["name"]), "w%d" % w, mine(w, st, ow, WT_HELD), start_upd)
                if fault:
                    ts.t("cb_end w%d %s" % (w, t["name"]), "w%d" % w, (lambda w, st, ow, i: (lambda s: z3.And(s["wx%d" % w] == 0, s[st] == WT_RUN, s[ow] == w, fitem != i)))(w, st, ow, i),
                         (lambda st, cb: (lambda s: {st: bmc.bv(WT_CBDONE, 4), cb: s[cb] + 1}))(st, cb))
                    ts.t("cb_raise w%d %s" % (w, t["name"]), "w%d" % w, (lambda w, st, ow, i: (lambda s: z3.And(s["wx%d" % w] == 0, s[st] == WT_RUN, s[ow] == w, fitem == i)))(w, st, ow, i),
                         (lambda st, w: (lambda s: {st: bmc.bv(WT_LOST, 4), "wx%d" % w: bmc.bv({"die": 2, "exit0": 1}.get(on_raise, 0), 2), "wq%d" % w: bmc.bv(1, 1)}))(st, w))
                else:
                    ts.t("cb_end w%d %s" % (w, t["name"]), "w%d" % w, mine(w, st, ow, WT_RUN), (lambda st, cb: (lambda s: {st: bmc.bv(WT_CBDONE, 4), cb: s[cb] + 1}))(st, cb))
                ts.t("put-done w%d %s" % (w, t["name"]), "w%d" % w,
                     (lambda w, st, ow: (lambda s: z3.And(s["wx%d" % w] == 0, s[st] == WT_CBDONE, s[ow] == w, z3.ULT(n_done_outstanding(s), done_maxsize))))(w, st, ow),
                     (lambda st: (lambda s: {st: bmc.bv(WT_DBUF, 4)}))(st))
            else:
                # a worker that reports BEFORE running the callback: the report may be consumed while the callback still runs
                raise HarnessError("worker reports completion before running the callback (order %r): not modelled — child-before-parent is violated by construction" % (worker_post,))
        own_dbuf_empty = (lambda w: (lambda s: z3.And(*[z3.Not(z3.And(s["st%d" % i] == WT_DBUF, s["ow%d" % i] == w)) for i in range(N)])))(w)
        # leaving the loop: receive time-out (pipe empty) and flag test are separate steps (wx: 0 running, 3 = timed out, flag not yet tested)
        idle = (lambda w, ode: (lambda s: z3.And(s["wx%d" % w] == 0, z3.Not(busy(s, w)), rpipe_empty(s), ode(s))))(w, own_dbuf_empty)
        if flag_read == "before_get":
            ts.var("wf%d" % w, 1, 0)
            ts.t("readflag w%d" % w, "w%d" % w, (lambda idle: (lambda s: z3.And(idle(s), s["flag"] == 0)))(idle), (lambda w: (lambda s: {"wx%d" % w: bmc.bv(3, 2), "wf%d" % w: s["flag"]}))(w), spin=True)
            ts.t("readflag w%d (flag up)" % w, "w%d" % w, (lambda idle: (lambda s: z3.And(idle(s), s["flag"] == 1)))(idle), (lambda w: (lambda s: {"wx%d" % w: bmc.bv(3, 2), "wf%d" % w: s["flag"]}))(w))
            for i, t in enumerate(tree):
                st, ow = "st%d" % i, "ow%d" % i
                ts.t("get w%d %s (ready)" % (w, t["name"]), "w%d" % w, (lambda w, st: (lambda s: z3.And(s["wx%d" % w] == 3, s[st] == WT_RPIPE)))(w, st),
                     (lambda st, ow, w: (lambda s: {st: bmc.bv(WT_HELD, 4), ow: bmc.bv(w, 3), "wx%d" % w: bmc.bv(0, 2)}))(st, ow, w))
            ts.t("timeout-exit w%d" % w, "w%d" % w, (lambda w: (lambda s: z3.And(s["wx%d" % w] == 3, rpipe_empty(s), s["wf%d" % w] == 1)))(w), exit_code_of(w))
            ts.t("timeout-retry w%d" % w, "w%d" % w, (lambda w: (lambda s: z3.And(s["wx%d" % w] == 3, rpipe_empty(s), s["wf%d" % w] == 0, s["flag"] == 0)))(w), (lambda w: (lambda s: {"wx%d" % w: bmc.bv(0, 2)}))(w), spin=True)
            ts.t("timeout-retry w%d (flag up meanwhile)" % w, "w%d" % w, (lambda w: (lambda s: z3.And(s["wx%d" % w] == 3, rpipe_empty(s), s["wf%d" % w] == 0, s["flag"] == 1)))(w), (lambda w: (lambda s: {"wx%d" % w: bmc.bv(0, 2)}))(w))
        else:
            ts.t("timeout w%d" % w, "w%d" % w, (lambda idle: (lambda s: z3.And(idle(s), s["flag"] == 0)))(idle), (lambda w: (lambda s: {"wx%d" % w: bmc.bv(3, 2)}))(w), spin=True)
            ts.t("timeout w%d (flag up)" % w, "w%d" % w, (lambda idle: (lambda s: z3.And(idle(s), s["flag"] == 1)))(idle), (lambda w: (lambda s: {"wx%d" % w: bmc.bv(3, 2)}))(w))
            ts.t("flagcheck-exit w%d" % w, "w%d" % w, (lambda w: (lambda s: z3.And(s["wx%d" % w] == 3, s["flag"] == 1)))(w), exit_code_of(w))
            ts.t("flagcheck-retry w%d" % w, "w%d" % w, (lambda w: (lambda s: z3.And(s["wx%d" % w] == 3, s["flag"] == 0)))(w), (lambda w: (lambda s: {"wx%d" % w: bmc.bv(0, 2)}))(w), spin=True)
    ts.N, ts.W, ts.tree = N, W, tree
    ts.max_steps = N * 8 + len(shutdown) + 5 * W + 2

    def spin_norm(s):
        out = {}
        for w in range(W):
            x = s["wx%d" % w]
            polling = z3.And(x == 3, s["flag"] == 0)
            if flag_read == "before_get":
                polling = z3.And(polling, s["wf%d" % w] == 0)
            out["wx%d" % w] = z3.If(polling, bmc.bv(0, 2), x)
        return out
    ts.spin_norm = spin_norm
    return ts


def walk_good_final(ts, s):
    conj = [s["pcd"] == ts.end_pcd, s["err"] == 0]
    for i in range(ts.N):
        conj.append(z3.If(ts.live[i], z3.And(s["st%d" % i] == WT_CONS, s["cb%d" % i] == 1), z3.And(s["st%d" % i] == WT_NOTREADY, s["cb%d" % i] == 0)))
    for w in range(ts.W):
        conj.append(s["wx%d" % w] == 1)
    return z3.And(*conj)
