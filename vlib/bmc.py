"""E3 core: bounded model checking of small actor systems with z3 (QF_BV).

A transition system is a set of bit-vector state variables and labelled guarded transitions.  `unroll(K)` builds K
steps; at every step the solver picks ONE enabled transition (the schedule is a solver variable) or stutters when
nothing is enabled.  Every transition of the models built on top of this makes progress in a finite measure, so with K
at least the sum of the actors' maximal numbers of transitions, "unsat" means "for every schedule", not "for every
schedule up to an arbitrary length"; `bound_complete()` checks that no transition is enabled after K steps (unwinding
assertion).
"""
import time

import z3


class TS:
    def __init__(self, name="ts"):
        self.name = name
        self.vars = {}          # name -> (width, init int | None(symbolic, constrained by init_constraints))
        self.trans = []         # (label, actor, guard_fn, update_fn)
        self.params = []        # z3 constants that are not state (symbolic configuration), with constraints
        self.param_constraints = []

    def var(self, name, width, init=0):
        self.vars[name] = (width, init)

    def param(self, const, *constraints):
        self.params.append(const)
        self.param_constraints += list(constraints)

    def t(self, label, actor, guard, update, spin=False):
        """guard(s) -> z3 Bool ; update(s) -> {var: bitvec expr} (unmentioned variables keep their value).
        spin=True marks a transition without lasting effect of its own (a polling time-out that may be followed by a
        return to the same state): it is ignored when asking whether the system can still make progress."""
        self.trans.append((label, actor, guard, update))
        self.spin = getattr(self, "spin", set())
        if spin:
            self.spin.add(len(self.trans) - 1)


class Unrolled:
    def __init__(self, ts, K, timeout_ms=600000):
        self.ts, self.K = ts, K
        self.solver = z3.SolverFor("QF_BV")
        self.solver.set("timeout", timeout_ms)
        self.S = []
        nt = len(ts.trans)
        self.aw = max(1, (nt + 1).bit_length())
        self.STUT = nt
        for t in range(K + 1):
            self.S.append({v: z3.BitVec("%s@%d" % (v, t), w) for v, (w, _i) in ts.vars.items()})
        self.act = [z3.BitVec("act@%d" % t, self.aw) for t in range(K)]
        s = self.solver
        for c in ts.param_constraints:
            s.add(c)
        for v, (w, init) in ts.vars.items():
            if init is not None:
                s.add(self.S[0][v] == (init if z3.is_expr(init) else z3.BitVecVal(init, w)))
        for t in range(K):
            a, b = self.S[t], self.S[t + 1]
            opts = []
            guards = []
            for k, (label, actor, guard, update) in enumerate(ts.trans):
                g = guard(a)
                guards.append(g)
                upd = update(a)
                eff = [b[v] == (upd[v] if v in upd else a[v]) for v in ts.vars]
                opts.append(z3.And(self.act[t] == k, g, *eff))
            frame = [b[v] == a[v] for v in ts.vars]
            opts.append(z3.And(self.act[t] == self.STUT, z3.Not(z3.Or(*guards)) if guards else z3.BoolVal(True), *frame))
            s.add(z3.Or(*opts))

    def enabled(self, st, progress_only=False):
        """progress_only: is a transition with a lasting effect enabled — now, or once the actors that are in the middle
        of a polling round (ts.spin_norm: their spin transitions taken back to the state they return to) have finished
        that round?  (A worker between its receive time-out and its flag test is not blocked.)"""
        spin = getattr(self.ts, "spin", set())
        norm = getattr(self.ts, "spin_norm", None)
        if progress_only and norm is not None:
            # evaluated on the normalised state only: normalisation moves pollers back to the receive, where every
            # progress step they could take from the polling state is still available
            st2 = dict(st)
            st2.update(norm(st))
            gs = [g(st2) for k, (_l, _a, g, _u) in enumerate(self.ts.trans) if k not in spin]
        else:
            gs = [g(st) for k, (_l, _a, g, _u) in enumerate(self.ts.trans) if not (progress_only and k in spin)]
        return z3.Or(*gs) if gs else z3.BoolVal(False)

    def check(self, *extra):
        t0 = time.time()
        self.solver.push()
        for e in extra:
            self.solver.add(e)
        r = self.solver.check()
        m = self.solver.model() if r == z3.sat else None
        self.solver.pop()
        return str(r), m, time.time() - t0

    def trace(self, m):
        """List of (label, actor) of the schedule in a model (stutters dropped)."""
        out = []
        for t in range(self.K):
            k = m.eval(self.act[t], model_completion=True).as_long()
            if k < len(self.ts.trans):
                out.append((self.ts.trans[k][0], self.ts.trans[k][1]))
        return out

    def state(self, m, t):
        return {v: m.eval(self.S[t][v], model_completion=True).as_long() for v in self.ts.vars}

    def exists(self, pred):
        """z3 Bool: some state of the run satisfies pred(state)."""
        return z3.Or(*[pred(self.S[t]) for t in range(self.K + 1)])

    def final(self):
        return self.S[self.K]


def bv(val, width):
    return z3.BitVecVal(val, width)
