"""python -m vlib.runner <ID> [--tier quick|thorough] [--replay PATH]"""
import argparse
import importlib
import os
import subprocess
import sys
import traceback

from .core import Run, HarnessError


def main():
    ap = argparse.ArgumentParser()
    ap.add_argument("pid")
    ap.add_argument("--tier", default=os.environ.get("VERIF_TIER") or "quick", choices=["quick", "thorough"])
    ap.add_argument("--replay", default=None)
    ap.add_argument("--only", default=None, help="comma-separated obligation-name prefixes (development aid)")
    a = ap.parse_args()

    if a.replay:
        # replays are self-contained python scripts executed against /repo
        r = subprocess.run([sys.executable, a.replay])
        sys.exit(r.returncode)

    run = Run(a.pid, a.tier)
    run.only = a.only.split(",") if a.only else None
    try:
        mod = importlib.import_module("props." + a.pid)
        mod.check(run)
    except HarnessError as e:
        run.error("harness", e)
    except Exception:
        run.error("harness", traceback.format_exc())
    rc = run.finish()
    sys.stdout.flush()
    sys.exit(rc)


if __name__ == "__main__":
    main()
