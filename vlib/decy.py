"""E4: fail-closed source-to-source translation of toasty/_libtoasty.pyx (Cython) into plain Python, regenerated from
the working tree on every run, plus differential validation against the compiled extension.

Only the constructs the file uses are handled (cdef struct, typed signatures, cdef local declarations, &x
out-parameters, DEF constants, decorators, cimport lines); anything else raises HarnessError (exit 2).
"""
import os
import re
import types

import numpy as np

from .core import HarnessError


def pyx_path():
    import toasty
    return os.path.join(os.path.dirname(toasty.__file__), "_libtoasty.pyx")


def _split_top(text):
    parts, depth, cur = [], 0, ""
    for ch in text:
        if ch in "[(":
            depth += 1
        if ch in "])":
            depth -= 1
        if ch == "," and depth == 0:
            parts.append(cur.strip())
            cur = ""
        else:
            cur += ch
    if cur.strip():
        parts.append(cur.strip())
    return parts


def decythonise(src):
    out = []
    lines = src.split("\n")
    i = 0
    structs = {}
    while i < len(lines):
        ln = lines[i]
        s = ln.strip()
        ind = ln[:len(ln) - len(ln.lstrip())]
        if s.startswith(("cimport ", "from libc", "np.import_array", "ctypedef ")) or s.startswith("@cython."):
            i += 1
            continue
        if s.startswith("from ") and " cimport " in s:
            i += 1
            continue
        m = re.match(r"cdef struct (\w+):", s)
        if m:
            name = m.group(1)
            fields = []
            i += 1
            while i < len(lines) and lines[i].strip():
                fields.append(lines[i].split()[-1])
                i += 1
            structs[name] = fields
            out.append("class %s:" % name)
            out.append("    __slots__ = %r" % (tuple(fields),))
            out.append("    def __init__(self, %s):" % ", ".join("%s=None" % f for f in fields))
            for f in fields:
                out.append("        self.%s = %s" % (f, f))
            continue
        m = re.match(r"DEF (\w+) = (.*)", s)
        if m:
            out.append("%s%s = %s" % (ind, m.group(1), m.group(2)))
            i += 1
            continue
        if re.match(r"(cdef|cpdef) ", s) and "(" in s and "=" not in s[:s.index("(")] and (s.endswith(":") or not s.endswith(")")):
            hdr = s
            while not hdr.rstrip().endswith(":"):
                i += 1
                if i >= len(lines):
                    raise HarnessError("decythonise: unterminated function header: %s" % s)
                hdr += " " + lines[i].strip()
            name = re.match(r"(?:cdef|cpdef) .*?(\w+)\(", hdr).group(1)
            params = hdr[hdr.index("(") + 1: hdr.rindex(")")]
            names = [p.strip().split()[-1].lstrip("*") for p in _split_top(params)]
            out.append("%sdef %s(%s):" % (ind, name, ", ".join(names)))
            i += 1
            continue
        m = re.match(r"cdef ([\w\.]+(?:\[[^\]]*\])?) (.*)", s)
        if m:
            typ, rest = m.group(1), m.group(2)
            for p in _split_top(rest):
                if "=" in p:
                    out.append("%s%s" % (ind, p))
                elif typ in structs:
                    out.append("%s%s = %s()" % (ind, p, typ))
            i += 1
            continue
        if s.startswith(("cdef ", "cpdef ")):
            raise HarnessError("decythonise: unsupported construct: %s" % s)
        out.append(re.sub(r"&(\w+)", r"\1", ln))
        i += 1
    return "\n".join(out)


def load(extra_globals=None):
    """-> (module, python source). The module's math functions / numpy can be replaced through extra_globals."""
    src = open(pyx_path()).read()
    py = "from math import sin, cos, atan2, hypot\nimport numpy as np\nDTYPE = np.float64\n" + decythonise(src)
    mod = types.ModuleType("decy_libtoasty")
    try:
        exec(compile(py, "decy_libtoasty", "exec"), mod.__dict__)
    except SyntaxError as e:
        raise HarnessError("decythonised _libtoasty.pyx does not compile: %s" % e)
    if extra_globals:
        mod.__dict__.update(extra_globals)
    for need in ("_mid", "mid", "_subsample", "subsample", "_tile_intersects_latlon_bbox"):
        if need not in mod.__dict__:
            raise HarnessError("decythonised module lacks %s" % need)
    return mod, py


def validate(mod, seed=0, n=2000):
    """Differential validation of the translation against the compiled extension. -> dict of measurements."""
    from toasty._libtoasty import mid as cmid, subsample as csub, tile_intersects_latlon_bbox as cbbox
    from toasty.toast import ToastCoordinateSystem, _create_level1_tiles, _div4
    rng = np.random.default_rng(seed)
    worst_mid = 0.0
    for _ in range(n):
        a = (rng.uniform(-6, 6), rng.uniform(-1.5, 1.5))
        b = (rng.uniform(-6, 6), rng.uniform(-1.5, 1.5))
        x, y = mod.mid(a, b)
        cx, cy = cmid(a, b)
        worst_mid = max(worst_mid, abs(x - cx), abs(y - cy))
    worst_sub = 0.0
    for cs in (ToastCoordinateSystem.ASTRONOMICAL, ToastCoordinateSystem.PLANETARY):
        for t1 in _create_level1_tiles(cs):
            for t in [t1] + _div4(t1):
                xs, ys = mod.subsample(*t.corners, 16, t.increasing)
                cxs, cys = csub(*t.corners, 16, t.increasing)
                worst_sub = max(worst_sub, float(np.abs(xs - cxs).max()), float(np.abs(ys - cys).max()))
    nb = 0
    ntot = 0
    for _ in range(n):
        base = rng.uniform(-6, 6)
        c = np.column_stack([base + rng.uniform(0, 3.0, 4) + 2 * np.pi * rng.integers(-1, 2, 4), rng.uniform(-1.5, 1.5, 4)])
        bb = sorted(rng.uniform(-6, 6, 2))
        lb = sorted(rng.uniform(-1.5, 1.5, 2))
        ntot += 1
        if bool(mod.tile_intersects_latlon_bbox(c.copy(), bb[0], bb[1], lb[0], lb[1])) != bool(cbbox(c.copy(), bb[0], bb[1], lb[0], lb[1])):
            nb += 1
    return dict(mid_max_abs_diff=worst_mid, subsample16_max_abs_diff=worst_sub, bbox_disagreements=nb, bbox_samples=ntot)
