"""E2: a lazy symbolic numpy ("symnp") sufficient for toasty's array glue.

An SArr has a shape (python ints and/or SymInt), a real numpy dtype and a getter  idx -> element  where idx is a tuple
of z3 Int terms and an element is
    float dtypes : FElem(nan: z3 Bool, val: z3 Real)       (floats are reals + a NaN flag; no infinities, no rounding)
    int dtypes   : z3 Int term
    bool         : z3 Bool term
Basic indexing returns a *live view* (writes go through to the base); everything numpy computes eagerly snapshots
("freezes") its sources at call time.  Unsupported constructs raise symx.Unsupported (fail closed).
"""
import itertools
import types

import numpy as _np
import z3

from .symx import (B, I, R, SymBool, SymInt, SymReal, Unsupported, ctx, is_sym, ite, q, sym_round_half_even,
                   sym_trunc)


# ------------------------------------------------------------------ elements

class FElem:
    """A float value: NaN flag + real value (value irrelevant when nan). Also serves as a float scalar proxy."""
    __slots__ = ("nan", "val", "frac", "rng")

    def __init__(self, nan, val, frac=None, rng=None):
        self.nan = nan
        self.val = val
        self.frac = frac      # optional exact form (int_term, positive python int): val == int_term / n
        self.rng = rng        # optional (lo, hi) python ints known to bound val (from the source dtype)

    def __repr__(self):
        return "FElem(%s, %s)" % (self.nan, self.val)

    def _bin(self, o, op):
        o = lift(o, True)
        return FElem(z3.Or(self.nan, o.nan), op(self.val, o.val))

    def __add__(s, o):
        return s._bin(o, lambda a, b: a + b)

    __radd__ = __add__

    def __sub__(s, o):
        return s._bin(o, lambda a, b: a - b)

    def __rsub__(s, o):
        return lift(o, True)._bin(s, lambda a, b: a - b)

    def __mul__(s, o):
        return s._bin(o, lambda a, b: a * b)

    __rmul__ = __mul__

    def __neg__(s):
        return FElem(s.nan, -s.val)

    # comparisons with NaN are False
    def _cmp(s, o, op):
        o = lift(o, True)
        return SymBool(z3.And(z3.Not(s.nan), z3.Not(o.nan), op(s.val, o.val)))

    def __lt__(s, o):
        return s._cmp(o, lambda a, b: a < b)

    def __le__(s, o):
        return s._cmp(o, lambda a, b: a <= b)

    def __gt__(s, o):
        return s._cmp(o, lambda a, b: a > b)

    def __ge__(s, o):
        return s._cmp(o, lambda a, b: a >= b)

    def __eq__(s, o):
        return s._cmp(o, lambda a, b: a == b)

    def __ne__(s, o):
        return ~s.__eq__(o)

    __hash__ = None

    def __float__(s):
        raise Unsupported("float(symbolic float) would concretise")


def nan_elem():
    return FElem(z3.BoolVal(True), z3.RealVal(0))


def lift(v, isfloat):
    """Python / proxy / z3 value -> element of the given kind."""
    if isinstance(v, FElem):
        return v
    if isfloat:
        if isinstance(v, float) and v != v:
            return nan_elem()
        if isinstance(v, SymReal):
            return FElem(z3.BoolVal(False), v.t)
        if isinstance(v, SymInt):
            return FElem(z3.BoolVal(False), z3.ToReal(v.t))
        if isinstance(v, (bool, int, float)):
            return FElem(z3.BoolVal(False), q(v))
        if isinstance(v, _np.generic):
            return lift(v.item(), True)
        if z3.is_expr(v):
            return FElem(z3.BoolVal(False), z3.ToReal(v) if z3.is_int(v) else v)
        raise TypeError("cannot lift %r to float element" % (v,))
    if isinstance(v, SymInt):
        return v.t
    if isinstance(v, SymBool):
        return v.t
    if isinstance(v, (bool, _np.bool_)):
        return z3.BoolVal(bool(v))
    if isinstance(v, (int, _np.integer)):
        return z3.IntVal(int(v))
    if z3.is_expr(v):
        return v
    raise TypeError("cannot lift %r to int/bool element" % (v,))


def elem_ite(c, a, b):
    if isinstance(a, FElem) or isinstance(b, FElem):
        a = lift(a, True)
        b = lift(b, True)
        return FElem(z3.If(c, a.nan, b.nan), z3.If(c, a.val, b.val))
    return z3.If(c, a, b)


def elem_eq(a, b):
    """z3 Bool: two elements denote the same stored value (NaN == NaN here)."""
    if isinstance(a, FElem) or isinstance(b, FElem):
        a = lift(a, True)
        b = lift(b, True)
        return z3.And(a.nan == b.nan, z3.Or(a.nan, a.val == b.val))
    return a == b


def to_scalar(e, dtype):
    """Element -> python-facing scalar proxy."""
    if isinstance(e, FElem):
        return e
    if dtype.kind == "b":
        return SymBool(e)
    return SymInt(e)


def _dt(dt):
    """dtype argument, tolerating the symbolic-aware `int` stand-in."""
    from . import symx as _sx
    if dt is _sx.sym_int:
        dt = int
    return _np.dtype(dt)


def _dim_int(d):
    return isinstance(d, int) or isinstance(d, _np.integer)


def _dimt(d):
    return I(d)


def _simp(t):
    return z3.simplify(t, som=True) if z3.is_expr(t) else t


def _key_of(idx):
    return tuple(i.get_id() if z3.is_expr(i) else ("c", i) for i in idx)


# ------------------------------------------------------------------ symbolic slices

def slice_plan(sl, dim):
    """-> (start_term_or_int, step(+-k int), length(int or SymInt)). Concrete fast path, symbolic for step +-1."""
    parts = (sl.start, sl.stop, sl.step)
    if all(p is None or _dim_int(p) for p in parts) and _dim_int(dim):
        start, stop, step = sl.indices(int(dim))
        return start, step, len(range(start, stop, step))
    step = 1 if sl.step is None else sl.step
    if is_sym(step) or step not in (1, -1):
        raise Unsupported("symbolic slice with step %r" % (step,))
    d = _dimt(dim)

    def norm(v, lo, hi):
        v = I(v)
        return z3.If(v < 0, z3.If(v + d < lo, lo, v + d), z3.If(v > hi, hi, v))

    if step == 1:
        s = z3.IntVal(0) if sl.start is None else norm(sl.start, z3.IntVal(0), d)
        e = d if sl.stop is None else norm(sl.stop, z3.IntVal(0), d)
        ln = z3.If(e - s > 0, e - s, 0)
    else:
        s = d - 1 if sl.start is None else norm(sl.start, z3.IntVal(-1), d - 1)
        e = z3.IntVal(-1) if sl.stop is None else norm(sl.stop, z3.IntVal(-1), d - 1)
        ln = z3.If(s - e > 0, s - e, 0)
    ln = z3.simplify(ln)
    s = z3.simplify(s)
    return (s.as_long() if z3.is_int_value(s) else s), step, (ln.as_long() if z3.is_int_value(ln) else SymInt(ln))


# ------------------------------------------------------------------ arrays

class _Flags:
    def __init__(self):
        self.writeable = True
        self.owndata = True


class SArr:
    def __init__(self, shape, dtype, get, setreg=None, frz=None, name=None):
        self.shape = tuple(shape)
        self.dtype = _np.dtype(dtype)
        if setreg is None and frz is None:
            # a computed (immutable) array: memoise its elements per index term
            raw = get
            memo = {}

            def get(idx, raw=raw, memo=memo):
                k = _key_of(idx)
                r = memo.get(k)
                if r is None:
                    r = raw(idx)
                    memo[k] = r
                return r
        self._get = get
        self._setreg = setreg
        self._frz = frz or (lambda: get)
        self.flags = _Flags()
        self.name = name
        self.base = None

    # -- numpy-ish attributes
    @property
    def ndim(self):
        return len(self.shape)

    @property
    def itemsize(self):
        return self.dtype.itemsize

    @property
    def isfloat(self):
        return self.dtype.kind == "f"

    @property
    def size(self):
        n = 1
        for d in self.shape:
            n = n * d
        return n

    @property
    def T(self):
        if self.ndim != 2:
            raise Unsupported(".T on ndim != 2")
        src = self
        return SArr((self.shape[1], self.shape[0]), self.dtype, lambda idx: src.get((idx[1], idx[0])),
                    frz=lambda: (lambda g: (lambda idx: g((idx[1], idx[0]))))(src._frz()))

    def setflags(self, write=None):
        if write is not None:
            self.flags.writeable = bool(write)

    def __len__(self):
        return self.shape[0]

    def get(self, idx):
        return self._get(tuple(I(i) for i in idx))

    def elem(self, *idx):
        """Scalar proxy of one element (harness convenience)."""
        return to_scalar(self.get(idx), self.dtype)

    def frozen(self):
        return SArr(self.shape, self.dtype, self._frz(), name=self.name)

    def copy(self):
        g = self._frz()
        return SArr.base_array(self.shape, self.dtype, g)

    def in_bounds(self, idx):
        return z3.And(*[z3.And(I(i) >= 0, I(i) < _dimt(d)) for i, d in zip(idx, self.shape)]) if idx else z3.BoolVal(True)

    # -- construction
    @classmethod
    def base_array(cls, shape, dtype, g0, name=None):
        cell = [g0]

        def get(idx):
            return cell[0](idx)

        def setreg(cond, val):
            old = cell[0]
            memo = {}

            def layer(idx):
                # every layer is immutable once created: memoise per index term (avoids exponential re-evaluation
                # when a write reads the previous content, e.g. np.maximum(b, i, out=b))
                k = _key_of(idx)
                r = memo.get(k)
                if r is None:
                    r = elem_ite(cond(idx), val(idx), old(idx))
                    memo[k] = r
                return r

            cell[0] = layer

        return cls(shape, dtype, get, setreg, frz=lambda: cell[0], name=name)

    @classmethod
    def fresh(cls, name, shape, dtype, lo=None, hi=None, nonan=False):
        """Uninterpreted content. Integer dtypes get their range as side conditions at every index touched."""
        dtype = _np.dtype(dtype)
        n = len(shape)
        c = ctx()
        ints = [z3.IntSort()] * n
        if dtype.kind == "f":
            fn = z3.Function(name + "__nan", *ints, z3.BoolSort())
            fv = z3.Function(name + "__val", *ints, z3.RealSort())

            seenf = set()
            lim = 1000 if dtype.itemsize == 2 else 10 ** 6

            def g0(idx):
                v = fv(*idx)
                cc = ctx()
                k = (id(cc), v.get_id())
                if k not in seenf:
                    seenf.add(k)
                    # preference for replayable counterexample / twin models only (never an assumption of a proof)
                    cc.model_hints.append(z3.And(v >= -lim, v <= lim))
                if nonan:
                    return FElem(z3.BoolVal(False), v)
                return FElem(fn(*idx), v)
        elif dtype.kind == "b":
            fb = z3.Function(name, *ints, z3.BoolSort())

            def g0(idx):
                return fb(*idx)
        else:
            fi = z3.Function(name, *ints, z3.IntSort())
            info = _np.iinfo(dtype)
            l = info.min if lo is None else lo
            h = info.max if hi is None else hi
            seen = set()

            def g0(idx):
                t = fi(*idx)
                k = t.get_id()
                cc = ctx()
                if (id(cc), k) not in seen:
                    seen.add((id(cc), k))
                    cc.add_side(z3.And(t >= l, t <= h))
                return t
        return cls.base_array(shape, dtype, g0, name=name)

    @classmethod
    def const(cls, shape, dtype, value):
        dtype = _np.dtype(dtype)
        e = lift(value, dtype.kind == "f")
        return cls.base_array(shape, dtype, lambda idx: e)

    # -- indexing
    def _norm_key(self, key):
        if not isinstance(key, tuple):
            key = (key,)
        n_real = sum(1 for k in key if k is not None and k is not Ellipsis)
        out = []
        seen_ell = False
        for k in key:
            if k is Ellipsis:
                if seen_ell:
                    raise IndexError("an index can only have a single ellipsis")
                seen_ell = True
                out += [slice(None)] * (self.ndim - n_real)
            else:
                out.append(k)
        n_real2 = sum(1 for k in out if k is not None)
        if n_real2 > self.ndim:
            raise IndexError("too many indices for array")
        out += [slice(None)] * (self.ndim - n_real2)
        return out

    def __getitem__(self, key):
        key = self._norm_key(key)
        if any(isinstance(k, SArr) for k in key):
            return self._fancy_get(key)
        if any(isinstance(k, (list, _np.ndarray)) for k in key):
            raise Unsupported("list / ndarray index on symbolic array")
        vshape = []
        plan = []   # ('s', bdim, start, step, vdim) | ('i', bdim, k) | ('n', vdim)
        bdim = 0
        for k in key:
            if k is None:
                plan.append(("n", len(vshape)))
                vshape.append(1)
            elif isinstance(k, slice):
                start, step, ln = slice_plan(k, self.shape[bdim])
                plan.append(("s", bdim, start, step, len(vshape)))
                vshape.append(ln)
                bdim += 1
            else:
                if is_sym(k) or z3.is_expr(k):
                    kk = I(k)
                    d = _dimt(self.shape[bdim])
                    ctx().require(z3.And(kk >= -d, kk < d), "index out of bounds")
                    kk = z3.If(kk < 0, kk + d, kk)
                else:
                    kk = int(k)
                    if _dim_int(self.shape[bdim]):
                        if kk < -self.shape[bdim] or kk >= self.shape[bdim]:
                            raise IndexError("index %d is out of bounds for axis %d with size %d" % (kk, bdim, self.shape[bdim]))
                        if kk < 0:
                            kk += self.shape[bdim]
                    else:
                        d = _dimt(self.shape[bdim])
                        ctx().require(z3.And(kk >= -d, kk < d), "index out of bounds")
                        kk = z3.If(z3.IntVal(kk) < 0, kk + d, z3.IntVal(kk)) if kk < 0 else kk
                plan.append(("i", bdim, kk))
                bdim += 1
        nb = self.ndim

        def fwd(vidx):
            b = [None] * nb
            for p in plan:
                if p[0] == "s":
                    b[p[1]] = _simp(I(p[2]) + p[3] * vidx[p[4]])
                elif p[0] == "i":
                    b[p[1]] = I(p[2])
            return tuple(b)

        def inv(bidx):
            conds = []
            v = [z3.IntVal(0)] * len(vshape)
            for p in plan:
                if p[0] == "s":
                    _, bd, start, step, vd = p
                    d = _simp(bidx[bd] - I(start))
                    if step == 1:
                        vi = d
                    elif step == -1:
                        vi = _simp(-d)
                    else:
                        vi = d / step
                        conds.append(d % step == 0)
                    conds.append(z3.And(vi >= 0, vi < _dimt(vshape[vd])))
                    v[vd] = vi
                elif p[0] == "i":
                    conds.append(bidx[p[1]] == I(p[2]))
            return (z3.And(*conds) if conds else z3.BoolVal(True)), tuple(v)

        if not vshape:
            # full integer index: a scalar
            return to_scalar(self._get(fwd(())), self.dtype)
        parent = self

        def get(vidx):
            return parent._get(fwd(vidx))

        def setreg(cond, val):
            if parent._setreg is None:
                raise Unsupported("write into a read-only (computed) array")

            def bcond(bidx):
                c, v = inv(bidx)
                return z3.And(c, cond(v))

            def bval(bidx):
                c, v = inv(bidx)
                return val(v)

            parent._setreg(bcond, bval)

        def frz():
            pg = parent._frz()
            return lambda vidx: pg(fwd(vidx))

        out = SArr(vshape, self.dtype, get, setreg if self._setreg is not None else None, frz=frz, name=self.name)
        out.base = self if self.base is None else self.base
        out.flags = self.flags
        return out

    def _fancy_get(self, key):
        """data[iy, ix] with integer index arrays of one common shape on the leading axes, slices after."""
        arrs = []
        for k in key:
            if isinstance(k, SArr):
                if k.dtype.kind not in "iu":
                    raise Unsupported("boolean / non-integer fancy index")
                arrs.append(k.frozen())
            else:
                break
        rest = key[len(arrs):]
        if any(not (isinstance(k, slice) and k == slice(None)) for k in rest):
            raise Unsupported("fancy index mixed with non-trivial slices")
        ishape = arrs[0].shape
        for a in arrs[1:]:
            if len(a.shape) != len(ishape):
                raise Unsupported("fancy index arrays of different ndim")
        src = self.frozen()
        c = ctx()
        na = len(arrs)
        ni = len(ishape)

        def get(idx):
            lead = idx[:ni]
            ii = [a.get(lead) for a in arrs]
            for t, d in zip(ii, src.shape):
                c2 = ctx()
                c2.require(z3.And(t >= -_dimt(d), t < _dimt(d)), "fancy index out of bounds")
            ii = [z3.If(t < 0, t + _dimt(d), t) for t, d in zip(ii, src.shape)]
            return src.get(tuple(ii) + tuple(idx[ni:]))

        return SArr.base_array(tuple(ishape) + tuple(src.shape[na:]), self.dtype, get)

    def _fancy_set(self, key, value):
        """data[iy, ix, <slices / ints>] = value with integer index arrays of one common CONCRETE shape on the leading axes.
        numpy semantics: positions are assigned in order, so for repeated targets the last one wins."""
        import itertools
        arrs = []
        for k in key:
            if isinstance(k, SArr):
                if k.dtype.kind not in "iu":
                    raise Unsupported("boolean / non-integer fancy index in assignment")
                arrs.append(k.frozen())
            else:
                break
        rest = key[len(arrs):]
        if any(isinstance(k, SArr) or k is None for k in rest):
            raise Unsupported("fancy index arrays after a slice / newaxis in assignment")
        ishape = arrs[0].shape
        for a in arrs[1:]:
            if tuple(a.shape) != tuple(ishape):
                raise Unsupported("fancy index arrays of different shapes in assignment")
        if not all(_dim_int(d) for d in ishape):
            raise Unsupported("fancy assignment with index arrays of symbolic shape")
        positions = list(itertools.product(*[range(int(d)) for d in ishape]))
        if len(positions) > 32:
            raise Unsupported("fancy assignment with more than 32 index positions")
        na, ni = len(arrs), len(ishape)
        trail = []      # per trailing base axis: ('i', k) | ('s', start, step, length)
        vshape = [int(d) for d in ishape]
        for j, k in enumerate(rest):
            d = self.shape[na + j]
            if isinstance(k, slice):
                start, step, ln = slice_plan(k, d)
                trail.append(("s", start, step, ln))
                vshape.append(ln)
            else:
                kk = I(k)
                dd = _dimt(d)
                ctx().require(z3.And(kk >= -dd, kk < dd), "index out of bounds")
                trail.append(("i", z3.If(kk < 0, kk + dd, kk)))
        f = SArr(tuple(vshape), self.dtype, None)._bc(value)
        targets = []
        for p in positions:
            tt = []
            for a, d in zip(arrs, self.shape):
                t = a.get(p)
                ctx().require(z3.And(t >= -_dimt(d), t < _dimt(d)), "fancy index out of bounds")
                tt.append(z3.If(t < 0, t + _dimt(d), t))
            targets.append(tt)

        def tmatch(idx):
            cs, vi = [], []
            for j, tr in enumerate(trail):
                x = idx[na + j]
                if tr[0] == "i":
                    cs.append(x == tr[1])
                else:
                    _s, st, sp, ln = tr
                    off = (x - I(st)) if sp > 0 else (I(st) - x)
                    a = abs(sp)
                    cs.append(z3.And(off >= 0, off % a == 0, off / a < I(ln)))
                    vi.append(off / a)
            return (z3.And(*cs) if cs else z3.BoolVal(True)), vi

        def pmatch(p, idx):
            return z3.And(*[idx[d] == targets[p][d] for d in range(na)])

        def cond(idx):
            tm, _vi = tmatch(idx)
            return z3.And(tm, z3.Or(*[pmatch(p, idx) for p in range(len(positions))]))

        def val(idx):
            _tm, vi = tmatch(idx)
            e = f(tuple(z3.IntVal(x) for x in positions[0]) + tuple(vi))
            for p in range(1, len(positions)):
                e = elem_ite(pmatch(p, idx), f(tuple(z3.IntVal(x) for x in positions[p]) + tuple(vi)), e)
            return e

        if self._setreg is None:
            raise Unsupported("write into a computed array")
        self._setreg(cond, val)

    def __setitem__(self, key, value):
        if not self.flags.writeable:
            raise ValueError("assignment destination is read-only")
        if isinstance(key, SArr) and key.dtype.kind == "b":
            # boolean-mask assignment a[mask] = scalar  (same shape mask)
            mask = key.frozen()
            if len(mask.shape) != self.ndim:
                raise Unsupported("boolean mask of different ndim")
            if isinstance(value, SArr):
                raise Unsupported("boolean-mask assignment from an array")
            e = lift(value, self.isfloat)
            self._setreg(lambda idx: mask.get(idx), lambda idx: e)
            return
        kt = key if isinstance(key, tuple) else (key,)
        if any(isinstance(k, SArr) for k in kt):
            # (normalise the key only here: _norm_key may branch on symbolic slice bounds, and the plain path below
            # normalises again inside self[key])
            return self._fancy_set(self._norm_key(key), value)
        view = self[key]
        if not isinstance(view, SArr):
            # scalar position: write through a 1-element slice view
            key2 = self._norm_key(key)
            key3 = tuple((slice(k, k + 1) if not isinstance(k, slice) and k is not None else k) for k in key2)
            view = self[key3]
        view._assign(value)

    def _bc(self, value):
        """-> function vidx -> element, broadcasting value to self.shape (numpy rules; symbolic dims must agree)."""
        isf = self.isfloat
        if isinstance(value, _np.ndarray):
            if value.ndim == 0:
                value = value.item()
            else:
                value = from_numpy(value)
        if isinstance(value, SArr):
            value = value.frozen()
            vs = value.shape
            if len(vs) > self.ndim:
                lead = vs[:len(vs) - self.ndim]
                if not all(_dim_int(d) and d == 1 for d in lead):
                    raise ValueError("could not broadcast input array")
                raise Unsupported("broadcast with extra leading unit dims")
            off = self.ndim - len(vs)
            ones = []
            for i, d in enumerate(vs):
                sd = self.shape[i + off]
                if _dim_int(d) and d == 1 and not (_dim_int(sd) and sd == 1):
                    ones.append(True)
                else:
                    ones.append(False)
                    if _dim_int(d) and _dim_int(sd):
                        if d != sd:
                            raise ValueError("could not broadcast input array from shape %r into shape %r" % (vs, self.shape))
                    else:
                        ctx().require(_dimt(d) == _dimt(sd), "shape mismatch in assignment: %s vs %s" % (d, sd))
            src_float = value.isfloat

            def f(idx):
                sub = tuple((z3.IntVal(0) if ones[i] else idx[i + off]) for i in range(len(vs)))
                e = value.get(sub)
                return convert_elem(e, value.dtype, self.dtype)

            return f
        e = convert_elem(lift(value, isf or isinstance(value, (float, SymReal, FElem))), None, self.dtype)
        return lambda idx: e

    def _assign(self, value):
        if self._setreg is None:
            raise Unsupported("write into a computed array")
        f = self._bc(value)
        self._setreg(lambda idx: z3.BoolVal(True), f)

    def fill(self, v):
        if not self.flags.writeable:
            raise ValueError("assignment destination is read-only")
        self._assign(v)

    # -- eager operations (snapshot sources)
    def reshape(self, *s):
        if len(s) == 1 and isinstance(s[0], (tuple, list)):
            s = tuple(s[0])
        if not all(_dim_int(x) for x in s) or not all(_dim_int(x) for x in self.shape):
            raise Unsupported("reshape with symbolic dims")
        s = tuple(int(x) for x in s)
        old = self.shape
        if _np.prod(s, dtype=object) != _np.prod(old, dtype=object):
            raise ValueError("cannot reshape array of size %s into shape %s" % (old, s))
        src = self.frozen()
        groups = _reshape_groups(old, s)

        def get(idx):
            if groups is not None:
                out = [None] * len(old)
                for olds, news in groups:
                    if len(olds) == 1:
                        # several new axes merge into one old axis: linear
                        t = z3.IntVal(0)
                        for k in news:
                            t = t * s[k] + idx[k]
                        out[olds[0]] = t
                    else:
                        # one new axis splits into several old axes: div/mod of that single index
                        t = idx[news[0]]
                        for k in reversed(olds):
                            out[k] = t % old[k]
                            t = t / old[k]
                return src.get(tuple(out))
            flat = z3.IntVal(0)
            for d, i in zip(s, idx):
                flat = flat * d + i
            out = []
            for d in reversed(old):
                out.append(flat % d)
                flat = flat / d
            return src.get(tuple(reversed(out)))

        return SArr(s, self.dtype, get)

    def flatten(self):
        n = 1
        for d in self.shape:
            n *= d
        if self.ndim == 2 and not all(_dim_int(d) for d in self.shape):
            # symbolic 2-D shape: element k is [k div width, k mod width] (a copy, as numpy's flatten)
            src = self.frozen()
            wd = _dimt(self.shape[1])
            return SArr((n,), self.dtype, lambda idx: src.get((idx[0] / wd, idx[0] % wd)))
        return self.reshape((n,))

    def astype(self, dt, copy=True):
        dt = _dt(dt)
        src = self.frozen()
        sdt = self.dtype
        return SArr(self.shape, dt, lambda idx: convert_elem(src.get(idx), sdt, dt, cast=True))

    def _elementwise(self, other, op, dtype):
        a = self.frozen()
        if isinstance(other, _np.ndarray):
            other = other.item() if other.ndim == 0 else from_numpy(other)
        if isinstance(other, SArr):
            other = other.frozen()
            shape = bc_shapes(self.shape, other.shape)
        else:
            shape = self.shape

        def pick(arr, idx):
            if not isinstance(arr, SArr):
                return arr
            off = len(shape) - arr.ndim
            return arr.get(tuple((z3.IntVal(0) if (_dim_int(arr.shape[i]) and arr.shape[i] == 1 and not (_dim_int(shape[i + off]) and shape[i + off] == 1)) else idx[i + off])
                                 for i in range(arr.ndim)))

        return SArr(shape, dtype, lambda idx: op(pick(a, idx), pick(other, idx)))

    def _arith(self, other, fn, rev=False):
        odt = other.dtype if isinstance(other, (SArr, _np.ndarray)) else None
        isf = self.isfloat or (odt is not None and odt.kind == "f") or isinstance(other, (float, SymReal, FElem))
        if isf:
            rdt = self.dtype if self.isfloat else _np.dtype("float64")
            if odt is not None and odt.kind == "f" and odt.itemsize > rdt.itemsize:
                rdt = odt
            if isinstance(other, (float, SymReal)) and self.isfloat and self.dtype.itemsize < 8:
                rdt = self.dtype     # numpy 2: python scalars are weak
            def op(x, y):
                x, y = lift(x, True), lift(y, True)
                if rev:
                    x, y = y, x
                return FElem(z3.Or(x.nan, y.nan), fn(x.val, y.val))
            return self._elementwise(other, op, rdt)
        rdt = _np.result_type(self.dtype, odt) if odt is not None else self.dtype
        if self.dtype.kind == "b" and odt is None:
            rdt = _np.dtype("int64")

        def opi(x, y):
            x, y = lift_int(x), lift_int(y)
            if rev:
                x, y = y, x
            return fn(x, y)

        return self._elementwise(other, opi, rdt)

    def __add__(s, o):
        return s._arith(o, lambda a, b: a + b)

    __radd__ = __add__

    def __sub__(s, o):
        return s._arith(o, lambda a, b: a - b)

    def __rsub__(s, o):
        return s._arith(o, lambda a, b: a - b, rev=True)

    def __mul__(s, o):
        return s._arith(o, lambda a, b: a * b)

    __rmul__ = __mul__

    def __neg__(s):
        return s._arith(0, lambda a, b: b - a)

    def __truediv__(s, o):
        if isinstance(o, SArr):
            raise Unsupported("array / array")
        d = R(o)
        if not z3.is_rational_value(d):
            ctx().require(d != 0, "division by zero")
        src = s.frozen()
        rdt = s.dtype if s.isfloat else _np.dtype("float64")

        def get(idx):
            e = lift(src.get(idx), True)
            return FElem(e.nan, e.val / d)

        return SArr(s.shape, rdt, get)

    def __mod__(s, o):
        """float array % positive constant -> [0, m) ; one fresh integer quotient per touched index."""
        if isinstance(o, SArr):
            raise Unsupported("array % array")
        if not s.isfloat:
            if isinstance(o, int) and o > 0:
                return s._arith(o, lambda a, b: a % b)
            raise Unsupported("int array % non-constant")
        d = R(o)
        if not (z3.is_rational_value(d) and d.numerator_as_long() > 0):
            raise Unsupported("array % non-positive-constant")
        src = s.frozen()
        memo = {}

        def get(idx):
            k = _key_of(idx)
            cc = ctx()
            if (id(cc), k) in memo:
                return memo[(id(cc), k)]
            e = lift(src.get(idx), True)
            kq = cc.fresh_int("modq")
            r = e.val - z3.ToReal(kq) * d
            # range fact in SCALED form (unit coefficient on the integer quotient): z3's mixed integer/real
            # arithmetic diverges on the huge rational coefficients of 2*pi otherwise
            sc = e.val / d - z3.ToReal(kq)
            cc.add_side(z3.Implies(z3.Not(e.nan), z3.And(sc >= 0, sc < 1)))
            cc.note_mod(e.val, d, kq)
            out = FElem(e.nan, r)
            memo[(id(cc), k)] = out
            return out

        return SArr(s.shape, s.dtype, get)

    def __pow__(s, o):
        if isinstance(o, int) and 0 <= o <= 3:
            r = s
            if o == 0:
                return s * 0 + 1
            for _ in range(o - 1):
                r = r * s
            return r
        raise Unsupported("array ** %r" % (o,))

    def _compare(s, o, fn, nan_result=False):
        def op(x, y):
            if isinstance(x, FElem) or isinstance(y, FElem) or s.isfloat:
                x, y = lift(x, True), lift(y, True)
                core = fn(x.val, y.val)
                if nan_result:
                    return z3.Or(x.nan, y.nan, core)
                return z3.And(z3.Not(x.nan), z3.Not(y.nan), core)
            return fn(lift_int(x), lift_int(y))
        return s._elementwise(o, op, bool)

    def __eq__(s, o):
        return s._compare(o, lambda a, b: a == b)

    def __ne__(s, o):
        return s._compare(o, lambda a, b: a != b, nan_result=True)

    def __lt__(s, o):
        return s._compare(o, lambda a, b: a < b)

    def __le__(s, o):
        return s._compare(o, lambda a, b: a <= b)

    def __gt__(s, o):
        return s._compare(o, lambda a, b: a > b)

    def __ge__(s, o):
        return s._compare(o, lambda a, b: a >= b)

    __hash__ = None

    def __invert__(s):
        if s.dtype.kind != "b":
            raise Unsupported("~ on non-bool array")
        me = s.frozen()
        return SArr(s.shape, bool, lambda idx: z3.Not(me.get(idx)))

    def __and__(s, o):
        return s._elementwise(o, lambda a, b: z3.And(B(a) if not z3.is_expr(a) else a, B(b) if not z3.is_expr(b) else b), bool)

    __rand__ = __and__

    def __or__(s, o):
        return s._elementwise(o, lambda a, b: z3.Or(B(a) if not z3.is_expr(a) else a, B(b) if not z3.is_expr(b) else b), bool)

    __ror__ = __or__

    def __bool__(s):
        if all(_dim_int(d) and d == 1 for d in s.shape):
            e = s.get(tuple(z3.IntVal(0) for _ in s.shape))
            if s.dtype.kind == "b":
                return ctx().branch(e)
        raise ValueError("The truth value of an array with more than one element is ambiguous")

    def all(self, axis=None):
        return all_(self, axis)

    def any(self, axis=None):
        return any_(self, axis)

    def __array__(self, *a, **k):
        raise Unsupported("conversion of a symbolic array to a real numpy array")

    def __iter__(self):
        raise Unsupported("iteration over a symbolic array")

    def __repr__(self):
        return "SArr(%s, %s, %s)" % (self.name, self.shape, self.dtype)


def _reshape_groups(old, new):
    """Partition old/new axes into aligned groups with equal products where one side is a single axis; None if not possible."""
    groups = []
    i = j = 0
    while i < len(old) or j < len(new):
        if i >= len(old) or j >= len(new):
            # trailing unit dims
            rest_o = list(range(i, len(old)))
            rest_n = list(range(j, len(new)))
            if all(old[k] == 1 for k in rest_o) and all(new[k] == 1 for k in rest_n):
                if rest_o and groups:
                    return None
                return groups if not rest_o else None
            return None
        oi, nj = [i], [j]
        po, pn = old[i], new[j]
        i += 1
        j += 1
        while po != pn:
            if po < pn:
                if i >= len(old):
                    return None
                po *= old[i]
                oi.append(i)
                i += 1
            else:
                if j >= len(new):
                    return None
                pn *= new[j]
                nj.append(j)
                j += 1
        if len(oi) > 1 and len(nj) > 1:
            return None
        groups.append((oi, nj))
    return groups


def lift_int(v):
    if isinstance(v, SymBool):
        return z3.If(v.t, 1, 0)
    if z3.is_expr(v) and z3.is_bool(v):
        return z3.If(v, 1, 0)
    return lift(v, False) if not isinstance(v, FElem) else v


def convert_elem(e, sdt, ddt, cast=False):
    """Element conversion for assignment / astype between dtypes (numpy 'unsafe' casting as used by the code)."""
    if ddt.kind == "f":
        if isinstance(e, FElem):
            return e
        if z3.is_expr(e) and z3.is_bool(e):
            return FElem(z3.BoolVal(False), z3.If(e, z3.RealVal(1), z3.RealVal(0)))
        return lift(e, True)
    if ddt.kind == "b":
        if isinstance(e, FElem):
            return z3.Or(e.nan, e.val != 0)
        if z3.is_expr(e) and z3.is_bool(e):
            return e
        return e != 0
    # integer destination
    if isinstance(e, FElem) and e.frac is not None:
        num, n = e.frac
        t = z3.If(num >= 0, num / n, -((-num) / n))
    elif isinstance(e, FElem):
        t = sym_trunc(e.val)
        # NaN -> int is undefined behaviour in C; flag it so that a claim depending on it cannot be proven silently
        ctx().require(z3.Not(e.nan), "NaN converted to integer")
    elif z3.is_expr(e) and z3.is_bool(e):
        t = z3.If(e, 1, 0)
    else:
        t = e
    info = _np.iinfo(ddt)
    if sdt is not None and sdt.kind in "iu" and _np.iinfo(sdt).min >= info.min and _np.iinfo(sdt).max <= info.max:
        return t
    if isinstance(e, FElem) and e.rng is not None and e.rng[0] >= info.min and e.rng[1] <= info.max:
        return t
    if ddt.itemsize >= 8:
        return t
    # wrap-around (two's complement) into the destination range
    span = info.max - info.min + 1
    return (t - info.min) % span + info.min


def bc_shapes(a, b):
    n = max(len(a), len(b))
    a2 = (1,) * (n - len(a)) + tuple(a)
    b2 = (1,) * (n - len(b)) + tuple(b)
    out = []
    for x, y in zip(a2, b2):
        if _dim_int(x) and x == 1:
            out.append(y)
        elif _dim_int(y) and y == 1:
            out.append(x)
        elif _dim_int(x) and _dim_int(y):
            if x != y:
                raise ValueError("operands could not be broadcast together with shapes %r %r" % (a, b))
            out.append(x)
        else:
            ctx().require(_dimt(x) == _dimt(y), "operand shape mismatch")
            out.append(x)
    return tuple(out)


def from_numpy(a):
    """A concrete numpy array as an SArr (small constant tables only)."""
    a = _np.asarray(a)
    if a.size > 4096:
        raise Unsupported("large concrete array inside symbolic execution")
    isf = a.dtype.kind == "f"
    flat = [lift(x.item(), isf) for x in a.reshape(-1)]
    shape = a.shape

    def g0(idx):
        out = flat[-1] if flat else None
        # nested ite over the flat index
        fl = z3.IntVal(0)
        for d, i in zip(shape, idx):
            fl = fl * d + i
        fl = z3.simplify(fl)
        if z3.is_int_value(fl):
            return flat[fl.as_long()]
        e = flat[-1]
        for k in range(len(flat) - 2, -1, -1):
            e = elem_ite(fl == k, flat[k], e)
        return e

    return SArr.base_array(shape, a.dtype, g0)


# ------------------------------------------------------------------ module-level functions of the shim

def _as_sarr(a):
    if isinstance(a, SArr):
        return a
    if isinstance(a, _np.ndarray):
        return from_numpy(a)
    raise Unsupported("expected array, got %r" % type(a))


def isnan(a):
    if isinstance(a, FElem):
        return SymBool(a.nan)
    if isinstance(a, (SymReal, SymInt)):
        return False
    if not isinstance(a, SArr):
        return _np.isnan(a)
    src = a.frozen()
    if not a.isfloat:
        return SArr(a.shape, bool, lambda idx: z3.BoolVal(False))
    return SArr(a.shape, bool, lambda idx: src.get(idx).nan)


def isfinite(a):
    if isinstance(a, FElem):
        return SymBool(z3.Not(a.nan))
    if isinstance(a, (SymReal, SymInt)):
        return True
    if not isinstance(a, SArr):
        return _np.isfinite(a)
    src = a.frozen()
    return SArr(a.shape, bool, lambda idx: z3.Not(src.get(idx).nan) if a.isfloat else z3.BoolVal(True))


def broadcast_to(a, shape):
    a = _as_sarr(a).frozen()
    shape = tuple(shape)
    off = len(shape) - a.ndim
    if off < 0:
        raise ValueError("broadcast_to: fewer dims")
    ones = []
    for i, d in enumerate(a.shape):
        sd = shape[i + off]
        if _dim_int(d) and d == 1 and not (_dim_int(sd) and sd == 1):
            ones.append(True)
        else:
            ones.append(False)
            if _dim_int(d) and _dim_int(sd):
                if d != sd:
                    raise ValueError("operands could not be broadcast together")
            else:
                ctx().require(_dimt(d) == _dimt(sd), "broadcast_to shape mismatch")
    out = SArr(shape, a.dtype, lambda idx: a.get(tuple((z3.IntVal(0) if ones[i] else idx[i + off]) for i in range(a.ndim))))
    out.flags.writeable = False
    return out


def putmask(dst, mask, src):
    if not isinstance(dst, SArr):
        raise Unsupported("putmask on non-symbolic destination")
    if not dst.flags.writeable:
        raise ValueError("putmask: output array is read-only")
    mask = _as_sarr(mask).frozen()
    if len(mask.shape) != dst.ndim:
        raise Unsupported("putmask with mask of different ndim")
    for d, m in zip(dst.shape, mask.shape):
        if _dim_int(d) and _dim_int(m):
            if d != m:
                raise ValueError("putmask: mask and data must be the same size")
        else:
            ctx().require(_dimt(d) == _dimt(m), "putmask shape mismatch")
    if isinstance(src, SArr):
        # numpy repeats `values` if shorter; toasty always passes same-shape values
        for d, m in zip(dst.shape, src.shape):
            if _dim_int(d) and _dim_int(m):
                if d != m:
                    raise Unsupported("putmask with values of a different shape (numpy would cycle them)")
            else:
                ctx().require(_dimt(d) == _dimt(m), "putmask values shape mismatch")
        if len(src.shape) != dst.ndim:
            raise Unsupported("putmask with values of different ndim")
    f = dst._bc(src)
    mk = mask.dtype.kind

    def cond(idx):
        m = mask.get(idx)
        return m if mk == "b" else (m != 0)

    dst._setreg(cond, f)


def _axes(a, axis):
    if axis is None:
        return tuple(range(a.ndim))
    if isinstance(axis, int):
        axis = (axis,)
    return tuple(ax % a.ndim for ax in axis)


def _reduce_small(a, axis, combine, dtype, max_cells=64):
    """Expand a reduction over small concrete axes."""
    a = _as_sarr(a).frozen()
    axis = _axes(a, axis)
    for ax in axis:
        if not _dim_int(a.shape[ax]):
            raise Unsupported("reduction over a symbolic axis")
    cells = 1
    for ax in axis:
        cells *= a.shape[ax]
    if cells > max_cells:
        raise Unsupported("reduction over %d cells (cap %d)" % (cells, max_cells))
    keep = [i for i in range(a.ndim) if i not in axis]
    shape = tuple(a.shape[i] for i in keep)
    red = list(itertools.product(*[range(a.shape[i]) for i in axis]))

    def get(idx):
        elems = []
        for r in red:
            full = [None] * a.ndim
            for k, i in zip(keep, idx):
                full[k] = i
            for k, i in zip(axis, r):
                full[k] = z3.IntVal(i)
            elems.append(a.get(tuple(full)))
        return combine(elems)

    out = SArr(shape, dtype, get)
    if not shape:
        return to_scalar(get(()), _np.dtype(dtype))
    return out


def nanmean(a, axis=None):
    a = _as_sarr(a)
    if axis is None:
        raise Unsupported("nanmean over the whole array")
    isf = a.isfloat

    def combine(elems):
        if not any(isinstance(e, FElem) for e in elems):
            # integer input: no NaN, exact rational mean; keep the integer numerator for a later integer cast
            ti = z3.IntVal(0)
            for e in elems:
                ti = ti + lift_int(e)
            rng = (int(_np.iinfo(a.dtype).min), int(_np.iinfo(a.dtype).max)) if a.dtype.kind in "iu" else None
            return FElem(z3.BoolVal(False), z3.ToReal(ti) / len(elems), frac=(ti, len(elems)), rng=rng)
        tot = z3.RealVal(0)
        cnt = z3.IntVal(0)
        for e in elems:
            e = lift(e, True)
            tot = tot + z3.If(e.nan, z3.RealVal(0), e.val)
            cnt = cnt + z3.If(e.nan, 0, 1)
        val = z3.RealVal(0)
        for k in range(len(elems), 0, -1):
            val = z3.If(cnt == k, tot / k, val)       # division by constants only (linear)
        return FElem(cnt == 0, val)

    return _reduce_small(a, axis, combine, a.dtype if isf else _np.float64)


def mean(a, axis=None):
    a = _as_sarr(a)
    if axis is None:
        raise Unsupported("mean over the whole array")
    isf = a.isfloat

    def combine(elems):
        if not any(isinstance(e, FElem) for e in elems):
            ti = z3.IntVal(0)
            for e in elems:
                ti = ti + lift_int(e)
            rng = (int(_np.iinfo(a.dtype).min), int(_np.iinfo(a.dtype).max)) if a.dtype.kind in "iu" else None
            return FElem(z3.BoolVal(False), z3.ToReal(ti) / len(elems), frac=(ti, len(elems)), rng=rng)
        tot = z3.RealVal(0)
        anynan = z3.BoolVal(False)
        for e in elems:
            e = lift(e, True)
            tot = tot + e.val
            anynan = z3.Or(anynan, e.nan)
        return FElem(anynan, tot / len(elems))

    return _reduce_small(a, axis, combine, a.dtype if isf else _np.float64)


def _forall_bool(a, positive):
    """np.all (positive) / np.any (not positive) over a whole array as a fresh Bool with its defining facts."""
    a = _as_sarr(a).frozen()
    if a.dtype.kind != "b":
        b = a
        a = SArr(b.shape, bool, lambda idx: (lambda e: (z3.Or(e.nan, e.val != 0) if isinstance(e, FElem) else e != 0))(b.get(idx)))
    c = ctx()
    res = c.fresh_bool("all" if positive else "any")
    n = a.ndim

    def inb(idx):
        return a.in_bounds(idx)

    nonempty = z3.And(*[_dimt(d) > 0 for d in a.shape]) if a.shape else z3.BoolVal(True)
    w = tuple(c.fresh_int("wit") for _ in range(n))
    # the witness is always an in-bounds index when the array is non-empty (harmless when it is not needed)
    c.add_side(z3.Implies(nonempty, inb(w)))
    if positive:
        # res => forall idx. a[idx]      ;   not res => a[w] is False for some in-bounds w
        c.add_forall(n, lambda idx: z3.Implies(z3.And(res, inb(idx)), a.get(idx)))
        c.add_side(z3.Implies(z3.Not(res), z3.And(inb(w), z3.Not(a.get(w)))))
        c.add_side(z3.Implies(z3.Not(nonempty), res))
    else:
        c.add_forall(n, lambda idx: z3.Implies(z3.And(z3.Not(res), inb(idx)), z3.Not(a.get(idx))))
        c.add_side(z3.Implies(res, z3.And(inb(w), a.get(w))))
        c.add_side(z3.Implies(z3.Not(nonempty), z3.Not(res)))
    c.register_index(w)
    return SymBool(res)


def all_(a, axis=None):
    if not isinstance(a, SArr):
        return _np.all(a, axis=axis)
    if axis is None:
        return _forall_bool(a, True)
    return _reduce_small(a, axis, lambda es: z3.And(*[_truth(e) for e in es]), bool)


def any_(a, axis=None):
    if not isinstance(a, SArr):
        return _np.any(a, axis=axis)
    if axis is None:
        return _forall_bool(a, False)
    return _reduce_small(a, axis, lambda es: z3.Or(*[_truth(e) for e in es]), bool)


def _truth(e):
    if isinstance(e, FElem):
        return z3.Or(e.nan, e.val != 0)
    if z3.is_bool(e):
        return e
    return e != 0


def _nan_extreme(a, is_min):
    """np.nanmin / np.nanmax over a whole float array: fresh (allnan, m) with defining facts."""
    a = _as_sarr(a).frozen()
    c = ctx()
    n = a.ndim
    if not a.isfloat:
        b = a
        a = SArr(b.shape, _np.float64, lambda idx: lift(b.get(idx), True))
    allnan = c.fresh_bool("allnan")
    m = c.fresh_real("nanmin" if is_min else "nanmax")
    w = tuple(c.fresh_int("wit") for _ in range(n))

    def fact(idx):
        e = a.get(idx)
        order = (m <= e.val) if is_min else (m >= e.val)
        return z3.Implies(a.in_bounds(idx), z3.And(z3.Implies(allnan, e.nan), z3.Implies(z3.Not(e.nan), z3.And(z3.Not(allnan), order))))

    c.add_forall(n, fact)
    ew = a.get(w)
    c.add_side(z3.Implies(z3.Not(allnan), z3.And(a.in_bounds(w), z3.Not(ew.nan), ew.val == m)))
    c.register_index(w)
    return FElem(allnan, m)


def nanmin(a, axis=None):
    if not isinstance(a, SArr):
        return _np.nanmin(a, axis=axis)
    if axis is not None:
        raise Unsupported("nanmin with axis")
    return _nan_extreme(a, True)


def nanmax(a, axis=None):
    if not isinstance(a, SArr):
        return _np.nanmax(a, axis=axis)
    if axis is not None:
        raise Unsupported("nanmax with axis")
    return _nan_extreme(a, False)


def empty(shape, dtype=float):
    if isinstance(shape, (int, SymInt)):
        shape = (shape,)
    c = ctx()
    return SArr.fresh(c._name("empty"), tuple(shape), dtype)


def zeros(shape, dtype=float):
    if isinstance(shape, (int, SymInt)):
        shape = (shape,)
    return SArr.const(tuple(shape), dtype, 0)


def ones(shape, dtype=float):
    if isinstance(shape, (int, SymInt)):
        shape = (shape,)
    return SArr.const(tuple(shape), dtype, 1)


def full(shape, fill_value, dtype=None):
    if isinstance(shape, (int, SymInt)):
        shape = (shape,)
    if dtype is None:
        dtype = _np.float64 if isinstance(fill_value, (float, SymReal, FElem)) else _np.int64
    return SArr.const(tuple(shape), dtype, fill_value)


def atleast_2d(a):
    if isinstance(a, SArr):
        if a.ndim >= 2:
            return a
        if a.ndim == 1:
            return a[None, :]
        raise Unsupported("atleast_2d of 0-d")
    return _np.atleast_2d(a)


def asarray(a, dtype=None):
    if isinstance(a, SArr):
        return a if dtype is None else a.astype(dtype)
    if isinstance(a, (tuple, list)) and any(isinstance(x, SArr) or is_sym(x) or isinstance(x, (tuple, list)) and any(is_sym(y) for y in x) for x in a):
        return stack_rows(a)
    return _np.asarray(a, dtype=dtype)


def stack_rows(rows):
    """np.asarray of a nested tuple/list of symbolic scalars (e.g. tile corners)."""
    def conv(x):
        if isinstance(x, (tuple, list)):
            return [conv(y) for y in x]
        return x
    nested = conv(rows)
    shape = []
    p = nested
    while isinstance(p, list):
        shape.append(len(p))
        p = p[0]
    flat = []

    def walk(x):
        if isinstance(x, list):
            for y in x:
                walk(y)
        else:
            flat.append(lift(x, True))
    walk(nested)
    shape = tuple(shape)

    def g0(idx):
        fl = z3.IntVal(0)
        for d, i in zip(shape, idx):
            fl = fl * d + i
        fl = z3.simplify(fl)
        if z3.is_int_value(fl):
            return flat[fl.as_long()]
        e = flat[-1]
        for k in range(len(flat) - 2, -1, -1):
            e = elem_ite(fl == k, flat[k], e)
        return e

    return SArr.base_array(shape, _np.float64, g0)


def copy(a):
    if isinstance(a, SArr):
        return a.copy()
    return _np.copy(a)


def maximum(a, b, out=None):
    if not isinstance(a, SArr) and not isinstance(b, SArr):
        return _np.maximum(a, b, out=out)
    a = _as_sarr(a)

    def op(x, y):
        if isinstance(x, FElem) or isinstance(y, FElem):
            x, y = lift(x, True), lift(y, True)
            return FElem(z3.Or(x.nan, y.nan), z3.If(x.val >= y.val, x.val, y.val))
        x, y = lift_int(x), lift_int(y)
        return z3.If(x >= y, x, y)

    r = a._elementwise(b, op, a.dtype if not isinstance(b, SArr) else _np.result_type(a.dtype, b.dtype))
    if out is not None:
        if not out.flags.writeable:
            raise ValueError("output array is read-only")
        g = r._get
        odt = out.dtype
        rdt = r.dtype
        out._setreg(lambda idx: z3.BoolVal(True), lambda idx: convert_elem(g(idx), rdt, odt))
        return out
    return r


def minimum(a, b, out=None):
    a = _as_sarr(a)

    def op(x, y):
        if isinstance(x, FElem) or isinstance(y, FElem):
            x, y = lift(x, True), lift(y, True)
            return FElem(z3.Or(x.nan, y.nan), z3.If(x.val <= y.val, x.val, y.val))
        x, y = lift_int(x), lift_int(y)
        return z3.If(x <= y, x, y)

    if out is not None:
        raise Unsupported("minimum with out=")
    return a._elementwise(b, op, a.dtype)


def round_(a, decimals=0):
    if decimals != 0:
        raise Unsupported("round with decimals")
    if isinstance(a, SymReal):
        return SymReal(z3.ToReal(sym_round_half_even(a.t)))
    if isinstance(a, SymInt):
        return a
    if not isinstance(a, SArr):
        return _np.round(a)
    src = a.frozen()
    if not a.isfloat:
        return src

    def get(idx):
        e = src.get(idx)
        return FElem(e.nan, z3.ToReal(sym_round_half_even(e.val)))

    return SArr(a.shape, a.dtype, get)


def floor(a):
    if isinstance(a, SymReal):
        return SymReal(z3.ToReal(z3.ToInt(a.t)))
    if isinstance(a, SymInt):
        return _IntAsFloat(a)
    if not isinstance(a, SArr):
        return _np.floor(a)
    src = a.frozen()
    if not a.isfloat:
        return src
    return SArr(a.shape, a.dtype, lambda idx: (lambda e: FElem(e.nan, z3.ToReal(z3.ToInt(e.val))))(src.get(idx)))


def ceil(a):
    if isinstance(a, SymReal):
        return SymReal(-z3.ToReal(z3.ToInt(-a.t)))
    if isinstance(a, SymInt):
        return _IntAsFloat(a)
    if not isinstance(a, SArr):
        return _np.ceil(a)
    src = a.frozen()
    return SArr(a.shape, a.dtype, lambda idx: (lambda e: FElem(e.nan, -z3.ToReal(z3.ToInt(-e.val))))(src.get(idx)))


class _IntAsFloat(SymReal):
    """np.floor(int) returns a float scalar; .astype(int) gives the integer back."""
    __slots__ = ("i",)

    def __init__(self, i):
        SymReal.__init__(self, z3.ToReal(i.t))
        self.i = i

    def astype(self, dt):
        if _dt(dt).kind in "iu":
            return self.i
        return self


def _symreal_astype(self, dt):
    if _dt(dt).kind in "iu":
        return SymInt(sym_trunc(self.t))
    return self


SymReal.astype = _symreal_astype


def clip(a, lo, hi):
    if not isinstance(a, SArr):
        if is_sym(a) or is_sym(lo) or is_sym(hi):
            return ite(a < lo, lo, ite(a > hi, hi, a))
        return _np.clip(a, lo, hi)
    src = a.frozen()
    if a.isfloat:
        l, h = R(lo), R(hi)
        return SArr(a.shape, a.dtype, lambda idx: (lambda e: FElem(e.nan, z3.If(e.val < l, l, z3.If(e.val > h, h, e.val))))(src.get(idx)))
    l, h = I(lo), I(hi)
    return SArr(a.shape, a.dtype, lambda idx: (lambda e: z3.If(e < l, l, z3.If(e > h, h, e)))(src.get(idx)))


def where(cond, a, b):
    cond = _as_sarr(cond).frozen()
    aa = a.frozen() if isinstance(a, SArr) else a
    bb = b.frozen() if isinstance(b, SArr) else b
    dtype = aa.dtype if isinstance(aa, SArr) else (bb.dtype if isinstance(bb, SArr) else _np.float64)
    shape = cond.shape

    def pick(x, idx):
        return x.get(idx) if isinstance(x, SArr) else lift(x, _np.dtype(dtype).kind == "f")

    return SArr(shape, dtype, lambda idx: elem_ite(cond.get(idx), pick(aa, idx), pick(bb, idx)))


def roll(a, shift, axis=None):
    """numpy.roll along one axis: out[.., i, ..] = a[.., (i - shift) mod n, ..] (n may be symbolic; |shift| <= n is
    established with the solver, otherwise the call is unsupported)."""
    if not isinstance(a, SArr):
        return _np.roll(a, shift, axis=axis)
    if axis is None or isinstance(axis, (tuple, list)) or isinstance(shift, (tuple, list)):
        raise Unsupported("numpy.roll without a single axis")
    ax = axis if axis >= 0 else a.ndim + axis
    n = _dimt(a.shape[ax])
    sh = I(shift)
    r, _m = ctx().prove(z3.And(sh >= -n, sh <= n))
    if r != "unsat":
        raise Unsupported("numpy.roll with a shift not provably within [-n, n]")
    src = a.frozen()

    def get(idx):
        j = idx[ax] - sh
        j = z3.If(j < 0, j + n, z3.If(j >= n, j - n, j))
        return src.get(tuple(idx[:ax]) + (j,) + tuple(idx[ax + 1:]))

    return SArr(a.shape, a.dtype, get)


def log2(x):
    if is_sym(x):
        raise Unsupported("log2 of a symbolic value")
    return _np.log2(x)


def result_type(*a):
    return _np.result_type(*[x.dtype if isinstance(x, SArr) else x for x in a])


def make_shim():
    m = types.ModuleType("symnp_shim")
    m.__dict__.update(dict(
        isnan=isnan, isfinite=isfinite, broadcast_to=broadcast_to, putmask=putmask, nanmean=nanmean, mean=mean,
        all=all_, any=any_, nanmin=nanmin, nanmax=nanmax, empty=empty, zeros=zeros, ones=ones, full=full,
        atleast_2d=atleast_2d, asarray=asarray, copy=copy, maximum=maximum, minimum=minimum, round=round_,
        around=round_, floor=floor, ceil=ceil, clip=clip, where=where, log2=log2, roll=roll, result_type=result_type,
        nan=float("nan"), pi=_np.pi, inf=float("inf"), newaxis=None,
        uint8=_np.uint8, int16=_np.int16, int32=_np.int32, int64=_np.int64, float16=_np.float16,
        float32=_np.float32, float64=_np.float64, bool_=_np.bool_, dtype=_np.dtype, ndarray=SArr,
        iinfo=_np.iinfo, finfo=_np.finfo, integer=_np.integer, floating=_np.floating, generic=_np.generic,
        radians=_np.radians, degrees=_np.degrees, sqrt=_np.sqrt,
    ))

    def __getattr__(name):
        raise Unsupported("numpy.%s is not modelled by symnp" % name)

    m.__getattr__ = __getattr__
    return m


shim = make_shim()
