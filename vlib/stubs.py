"""Harness-side stubs shared by E1/E2/E3 harnesses (all monkey-patching; toasty's source is untouched)."""
from contextlib import contextmanager
from queue import Empty


class _NoProgress:
    def update(self, n):
        pass


@contextmanager
def no_progress_bar(total=None, show=None):
    yield _NoProgress()


def quiet(*modules):
    """tqdm crashes under CrossHair and formatting is never the subject: empty bodies."""
    for m in modules:
        if hasattr(m, "progress_bar"):
            m.progress_bar = no_progress_bar
        m.print = lambda *a, **k: None


class Stop(BaseException):
    """Leaves a real loop from inside a fake primitive."""


class FakeQueue:
    def __init__(self, maxsize=0):
        self.maxsize = maxsize
        self.puts = []
        self.script = []      # responses for get: None = Empty
        self.events = []

    def put(self, item, *a, **k):
        self.puts.append(item)
        self.events.append(("put", item))

    def get(self, block=True, timeout=None):
        if not self.script:
            raise Stop()
        r = self.script.pop(0)
        if r is None:
            raise Empty()
        return r

    def close(self):
        self.events.append("close")

    def join_thread(self):
        self.events.append("join_thread")

    def qsize(self):
        return len(self.puts)


class FakeEvent:
    def __init__(self):
        self.flag = False
        self.events = []

    def set(self):
        self.flag = True
        self.events.append("set")

    def is_set(self):
        return self.flag


class FakeProcess:
    def __init__(self, target=None, args=(), kwargs=None, **kw):
        self.target = target
        self.args = args
        self.daemon = False
        self.started = False
        self.joined = False
        self.exitcode = 0

    def start(self):
        self.started = True

    def join(self, timeout=None):
        self.joined = True

    def is_alive(self):
        return False


class FakeRiter:
    """A reducer that yields exactly the crafted items (inductive cut of Pyramid._make_iter_reducer)."""

    def __init__(self, items):
        self.items = list(items)
        self.data = []

    def __iter__(self):
        return self

    def __next__(self):
        if not self.items:
            raise StopIteration
        return self.items.pop(0)

    def set_data(self, v):
        self.data.append(v)

    def result(self):
        return self.data[-1]
