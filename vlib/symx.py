"""E2 core: proxy-object symbolic execution driven by z3.

* SymInt / SymReal / SymBool wrap z3 terms and follow Python / numpy scalar semantics (floats are REALS: no rounding).
* `SymBool.__bool__` asks the current path context for a decision (DFS over decision vectors, both sides checked for
  feasibility by z3) so that the *real* toasty code runs unmodified on symbolic values.
* `Ctx.prove(claim)` checks  path-condition /\\ side-conditions /\\ forall-instances /\\ not claim.
"""
import time
from fractions import Fraction

import z3


class PathAbort(Exception):
    """Infeasible path or explicit prune."""


class Unsupported(Exception):
    """Construct outside the shim's modelled subset (fail closed: exit 2)."""


class PathCap(Exception):
    """Unwinding / path cap hit (inconclusive, never success)."""


CUR = [None]


def ctx():
    c = CUR[0]
    if c is None:
        raise RuntimeError("no symbolic context active")
    return c


# ------------------------------------------------------------------ conversions

def q(v):
    """Exact rational of a python number as a z3 real."""
    if isinstance(v, bool):
        return z3.RealVal(int(v))
    if isinstance(v, int):
        return z3.RealVal(v)
    if isinstance(v, float):
        if v != v or v in (float("inf"), float("-inf")):
            raise Unsupported("non-finite float constant in real arithmetic: %r" % v)
        n, d = v.as_integer_ratio()
        return z3.Q(n, d)
    if isinstance(v, Fraction):
        return z3.Q(v.numerator, v.denominator)
    if hasattr(v, "item"):
        return q(v.item())
    raise TypeError("cannot convert %r to real" % (v,))


def is_sym(v):
    return isinstance(v, (SymInt, SymReal, SymBool))


def I(v):
    """z3 Int term of an int-like."""
    if isinstance(v, SymInt):
        return v.t
    if isinstance(v, SymBool):
        return z3.If(v.t, 1, 0)
    if isinstance(v, bool):
        return z3.IntVal(int(v))
    if isinstance(v, int):
        return z3.IntVal(v)
    if hasattr(v, "__index__"):
        return z3.IntVal(int(v))
    if z3.is_expr(v) and z3.is_int(v):
        return v
    raise TypeError("not an int-like: %r" % (v,))


def R(v):
    """z3 Real term of a number-like."""
    if isinstance(v, SymReal):
        return v.t
    if isinstance(v, SymInt):
        return z3.ToReal(v.t)
    if isinstance(v, SymBool):
        return z3.If(v.t, z3.RealVal(1), z3.RealVal(0))
    if z3.is_expr(v):
        return z3.ToReal(v) if z3.is_int(v) else v
    return q(v)


def B(v):
    if isinstance(v, SymBool):
        return v.t
    if isinstance(v, bool):
        return z3.BoolVal(v)
    if z3.is_expr(v) and z3.is_bool(v):
        return v
    if hasattr(v, "dtype") and getattr(v, "shape", None) == ():
        return z3.BoolVal(bool(v))
    raise TypeError("not a bool-like: %r" % (v,))


def _is_intlike(v):
    return isinstance(v, (SymInt, int)) and not isinstance(v, bool) or (hasattr(v, "__index__") and not isinstance(v, (float, SymReal)))


# ------------------------------------------------------------------ proxies

class SymBool:
    __slots__ = ("t",)

    def __init__(self, t):
        self.t = t

    def __bool__(self):
        return ctx().branch(self.t)

    def __and__(self, o):
        return SymBool(z3.And(self.t, B(o)))

    __rand__ = __and__

    def __or__(self, o):
        return SymBool(z3.Or(self.t, B(o)))

    __ror__ = __or__

    def __invert__(self):
        return SymBool(z3.Not(self.t))

    def __eq__(self, o):
        return SymBool(self.t == B(o))

    def __ne__(self, o):
        return SymBool(self.t != B(o))

    __hash__ = None

    def __repr__(self):
        return "SymBool(%s)" % self.t


class SymInt:
    __slots__ = ("t",)

    def __init__(self, t):
        self.t = t

    # arithmetic
    def __add__(s, o):
        if isinstance(o, (SymReal, float)):
            return SymReal(R(s) + R(o))
        return SymInt(s.t + I(o))

    __radd__ = __add__

    def __sub__(s, o):
        if isinstance(o, (SymReal, float)):
            return SymReal(R(s) - R(o))
        return SymInt(s.t - I(o))

    def __rsub__(s, o):
        if isinstance(o, (SymReal, float)):
            return SymReal(R(o) - R(s))
        return SymInt(I(o) - s.t)

    def __mul__(s, o):
        if isinstance(o, (SymReal, float)):
            return SymReal(R(s) * R(o))
        return SymInt(s.t * I(o))

    __rmul__ = __mul__

    def __neg__(s):
        return SymInt(-s.t)

    def __pos__(s):
        return s

    def __abs__(s):
        return SymInt(z3.If(s.t >= 0, s.t, -s.t))

    def __floordiv__(s, o):
        if isinstance(o, (SymReal, float)):
            return SymReal(R(s)).__floordiv__(o)
        d = I(o)
        if isinstance(o, int) and o > 0:
            return SymInt(s.t / d)          # z3 int div == floor for positive divisors
        # general python floor division
        ctx().require(d != 0, "integer division by zero")
        return SymInt(_floordiv_any(s.t, d))

    def __rfloordiv__(s, o):
        return SymInt(I(o)).__floordiv__(s)

    def __mod__(s, o):
        if isinstance(o, (SymReal, float)):
            return SymReal(R(s)).__mod__(o)
        if isinstance(o, int) and o > 0:
            return SymInt(s.t % o)
        d = I(o)
        c = ctx()
        c.require(d != 0, "integer modulo by zero")
        return SymInt(s.t - d * _floordiv_any(s.t, d))

    def __rmod__(s, o):
        return SymInt(I(o)).__mod__(s)

    def __truediv__(s, o):
        return SymReal(R(s)).__truediv__(o)

    def __rtruediv__(s, o):
        return SymReal(R(o)).__truediv__(s)

    def __pow__(s, o):
        if isinstance(o, int) and 0 <= o <= 4:
            r = SymInt(z3.IntVal(1))
            for _ in range(o):
                r = r * s
            return r
        raise Unsupported("SymInt ** %r" % (o,))

    def __rpow__(s, o):
        raise Unsupported("%r ** SymInt" % (o,))

    def __lshift__(s, o):
        if isinstance(o, int):
            return SymInt(s.t * (1 << o))
        raise Unsupported("SymInt << sym")

    def __rshift__(s, o):
        if isinstance(o, int):
            return SymInt(s.t / (1 << o))
        raise Unsupported("SymInt >> sym")

    # comparisons
    def _cmp(s, o, op):
        if isinstance(o, (SymReal, float)):
            return SymBool(op(R(s), R(o)))
        return SymBool(op(s.t, I(o)))

    def __lt__(s, o):
        return s._cmp(o, lambda a, b: a < b)

    def __le__(s, o):
        return s._cmp(o, lambda a, b: a <= b)

    def __gt__(s, o):
        return s._cmp(o, lambda a, b: a > b)

    def __ge__(s, o):
        return s._cmp(o, lambda a, b: a >= b)

    def __eq__(s, o):
        if o is None:
            return False
        try:
            return s._cmp(o, lambda a, b: a == b)
        except TypeError:
            return False

    def __ne__(s, o):
        if o is None:
            return True
        try:
            return s._cmp(o, lambda a, b: a != b)
        except TypeError:
            return True

    __hash__ = None

    def __bool__(s):
        return ctx().branch(s.t != 0)

    def __index__(s):
        return ctx().concretize_int(s.t)

    def __int__(s):
        return s.__index__()

    def __float__(s):
        raise Unsupported("float(SymInt) would concretise")

    def astype(s, dt):
        import numpy as _np
        if dt is sym_int:
            dt = int
        return s if _np.dtype(dt).kind in "iu" else SymReal(R(s))

    def __repr__(s):
        return "SymInt(%s)" % s.t


def _floordiv_any(a, d):
    # python floor division for any non-zero divisor: floor(a/d)
    qv = a / d                      # z3: a = d*q + r, 0 <= r < |d|
    return z3.If(d > 0, qv, z3.If(a % d == 0, qv, qv - 1))


class SymReal:
    __slots__ = ("t",)

    def __init__(self, t):
        self.t = t

    def __add__(s, o):
        return SymReal(s.t + R(o))

    __radd__ = __add__

    def __sub__(s, o):
        return SymReal(s.t - R(o))

    def __rsub__(s, o):
        return SymReal(R(o) - s.t)

    def __mul__(s, o):
        return SymReal(s.t * R(o))

    __rmul__ = __mul__

    def __truediv__(s, o):
        d = R(o)
        if not z3.is_rational_value(d):
            ctx().require(d != 0, "float division by zero")
        return SymReal(s.t / d)

    def __rtruediv__(s, o):
        ctx().require(s.t != 0, "float division by zero")
        return SymReal(R(o) / s.t)

    def __neg__(s):
        return SymReal(-s.t)

    def __pos__(s):
        return s

    def __abs__(s):
        return SymReal(z3.If(s.t >= 0, s.t, -s.t))

    def __pow__(s, o):
        if isinstance(o, int) and 0 <= o <= 4:
            r = SymReal(z3.RealVal(1))
            for _ in range(o):
                r = r * s
            return r
        raise Unsupported("SymReal ** %r" % (o,))

    def _floor(s):
        return z3.ToInt(s.t)

    def __floordiv__(s, o):
        d = R(o)
        if not (z3.is_rational_value(d) and d.numerator_as_long() > 0):
            raise Unsupported("real // non-positive-constant")
        return SymReal(z3.ToReal(z3.ToInt(s.t / d)))

    def __mod__(s, o):
        """Python/numpy float modulo for a positive constant modulus: result in [0, m)."""
        d = R(o)
        if not (z3.is_rational_value(d) and d.numerator_as_long() > 0):
            raise Unsupported("real % non-positive-constant")
        c = ctx()
        k = c.fresh_int("modq")
        r = s.t - z3.ToReal(k) * d
        sc = s.t / d - z3.ToReal(k)          # scaled form: unit coefficient on the integer quotient
        c.assume(z3.And(sc >= 0, sc < 1))
        c.note_mod(s.t, d, k)
        return SymReal(r)

    def _cmp(s, o, op):
        if isinstance(o, float) and o in (float("inf"), float("-inf")):
            # a real compared with an infinity: decided
            return bool(op(0.0, o))
        if hasattr(o, "item") and not is_sym(o):
            try:
                ov = o.item()
                if isinstance(ov, float) and ov in (float("inf"), float("-inf")):
                    return bool(op(0.0, ov))
            except Exception:
                pass
        return SymBool(op(s.t, R(o)))

    def __lt__(s, o):
        return s._cmp(o, lambda a, b: a < b)

    def __le__(s, o):
        return s._cmp(o, lambda a, b: a <= b)

    def __gt__(s, o):
        return s._cmp(o, lambda a, b: a > b)

    def __ge__(s, o):
        return s._cmp(o, lambda a, b: a >= b)

    def __eq__(s, o):
        if o is None:
            return False
        return s._cmp(o, lambda a, b: a == b)

    def __ne__(s, o):
        if o is None:
            return True
        return s._cmp(o, lambda a, b: a != b)

    __hash__ = None

    def __bool__(s):
        return ctx().branch(s.t != 0)

    def __float__(s):
        raise Unsupported("float(SymReal) would concretise")

    def __repr__(s):
        return "SymReal(%s)" % s.t


def _install_deferral():
    """Binary operators of the scalar proxies return NotImplemented for array / float-element operands so that
    python falls back to the reflected method of SArr / FElem."""
    names = ["__add__", "__radd__", "__sub__", "__rsub__", "__mul__", "__rmul__", "__truediv__", "__rtruediv__",
             "__floordiv__", "__rfloordiv__", "__mod__", "__rmod__", "__lt__", "__le__", "__gt__", "__ge__", "__eq__", "__ne__"]
    for cls in (SymInt, SymReal):
        for n in names:
            f = cls.__dict__.get(n)
            if f is None:
                continue

            def wrap(f):
                def g(self, o):
                    if type(o).__name__ in ("SArr", "FElem"):
                        return NotImplemented
                    return f(self, o)
                g.__name__ = f.__name__
                return g
            setattr(cls, n, wrap(f))


_install_deferral()


def sym_round_half_even(t):
    """numpy.round / python round on a real term -> Int term."""
    f = z3.ToInt(t)
    d = t - z3.ToReal(f)
    half = z3.Q(1, 2)
    return z3.If(d < half, f, z3.If(d > half, f + 1, z3.If(f % 2 == 0, f, f + 1)))


def sym_trunc(t):
    """C-style truncation toward zero (numpy astype(int) on floats)."""
    f = z3.ToInt(t)
    return z3.If(t >= 0, f, z3.If(z3.ToReal(f) == t, f, f + 1))


def sym_int(v):
    """Replacement for the builtin int() inside toasty modules under symbolic execution."""
    if isinstance(v, SymInt):
        return v
    if isinstance(v, SymReal):
        if getattr(v, "i", None) is not None:
            return v.i                       # np.floor / np.ceil of an integer
        return SymInt(sym_trunc(v.t))
    if isinstance(v, SymBool):
        return SymInt(I(v))
    return int(v)


def sym_max(*a, **kw):
    if len(a) == 1:
        a = tuple(a[0])
    if not any(is_sym(x) for x in a):
        return max(*a)
    r = a[0]
    for x in a[1:]:
        r = ite(x > r, x, r)      # python's max keeps the first maximal element; values equal anyway
    return r


def sym_min(*a, **kw):
    if len(a) == 1:
        a = tuple(a[0])
    if not any(is_sym(x) for x in a):
        return min(*a)
    r = a[0]
    for x in a[1:]:
        r = ite(x < r, x, r)
    return r


def ite(c, a, b):
    """Branch-free choice between two scalar proxies."""
    ct = B(c)
    if isinstance(a, (SymReal, float)) or isinstance(b, (SymReal, float)):
        return SymReal(z3.If(ct, R(a), R(b)))
    if isinstance(a, (SymBool, bool)) and isinstance(b, (SymBool, bool)):
        return SymBool(z3.If(ct, B(a), B(b)))
    return SymInt(z3.If(ct, I(a), I(b)))


# ------------------------------------------------------------------ context and explorer

class Ctx:
    def __init__(self, prefix, stats, timeout_ms=60000, seed=0):
        self.prefix = list(prefix)
        self.pos = 0
        self.pc = []
        self.side = []             # range side-conditions of fresh values (assumed)
        self.solver = z3.Solver()
        self.timeout_ms = timeout_ms
        self.seed = seed
        self.solver.set("timeout", timeout_ms)
        self.solver.set("random_seed", seed)
        self.decisions = []
        self.stats = stats
        self.foralls = []          # (ndim, fn(idx_terms) -> z3 bool) universally true facts
        self.index_terms = {}      # ndim -> list of index tuples to instantiate foralls at
        self.requirements = []     # (cond, message): things the real code needs not to crash
        self.mods = []
        self.model_hints = []      # soft preferences used only when asking for replayable models
        self.n_fresh = 0
        self.max_decisions = stats.get("max_decisions", 4000)
        self.tags = {}

    # fresh symbols
    def _name(self, base):
        self.n_fresh += 1
        return "%s!%d" % (base, self.n_fresh)

    def fresh_int(self, base="i", lo=None, hi=None):
        v = z3.Int(self._name(base))
        if lo is not None:
            self.assume(v >= lo)
        if hi is not None:
            self.assume(v <= hi)
        return v

    def fresh_real(self, base="r"):
        return z3.Real(self._name(base))

    def fresh_bool(self, base="b"):
        return z3.Bool(self._name(base))

    # path handling
    def _check(self, *extra):
        t0 = time.time()
        self.solver.push()
        for e in extra:
            self.solver.add(e)
        r = self.solver.check()
        m = self.solver.model() if r == z3.sat else None
        if r == z3.unknown and extra:
            # nonlinear queries are sensitive to heuristics: retry in fresh solvers with other seeds
            base = list(self.solver.assertions())
            for attempt in (1, 2, 3):
                s2 = z3.Solver()
                s2.set("timeout", self.timeout_ms)
                s2.set("random_seed", 7919 * attempt + self.seed)
                s2.set("smt.arith.random_initial_value", True)
                s2.add(*base)
                r2 = s2.check()
                self.stats["retries"] = self.stats.get("retries", 0) + 1
                if r2 != z3.unknown:
                    r = r2
                    m = s2.model() if r2 == z3.sat else None
                    break
        self.solver.pop()
        self.stats["queries"] = self.stats.get("queries", 0) + 1
        self.stats["solver_s"] = self.stats.get("solver_s", 0.0) + time.time() - t0
        return str(r), m

    def branch(self, cond):
        cond = z3.simplify(cond)
        if z3.is_true(cond):
            return True
        if z3.is_false(cond):
            return False
        if len(self.decisions) >= self.max_decisions:
            raise PathCap("decision cap %d" % self.max_decisions)
        if self.pos < len(self.prefix):
            take, pend = self.prefix[self.pos]
        else:
            inst = self.forall_instances()
            rt, _ = self._check(cond, *inst)
            rf, _ = self._check(z3.Not(cond), *inst)
            if rt == "unknown" or rf == "unknown":
                self.stats["unknown_branches"] = self.stats.get("unknown_branches", 0) + 1
            t = rt != "unsat"
            f = rf != "unsat"
            if not t and not f:
                raise PathAbort()
            take = t
            pend = t and f
        self.pos += 1
        self.decisions.append((take, pend))
        c = cond if take else z3.Not(cond)
        self.pc.append(c)
        self.solver.add(c)
        return take

    def assume(self, c):
        c = B(c) if not z3.is_expr(c) else c
        self.pc.append(c)
        self.solver.add(c)

    def add_side(self, c):
        self.side.append(c)
        self.solver.add(c)

    def require(self, cond, msg):
        """Something the real code needs in order not to raise; checked lazily by harnesses via check_requirements."""
        self.requirements.append((cond, msg))

    def note_mod(self, x, d, k):
        self.mods.append((x, d, k))

    def concretize_int(self, t):
        """A symbolic int is needed as a concrete Python int (e.g. range(), list index): fork over its values."""
        t = z3.simplify(t)
        if z3.is_int_value(t):
            return t.as_long()
        n = 0
        while True:
            r, m = self._check()
            if r != "sat":
                raise PathAbort()
            v = m.eval(t, model_completion=True).as_long()
            if self.branch(t == v):
                return v
            n += 1
            cap = self.stats.get("concretize_cap", 64)
            if n >= cap:
                # never success: the values beyond the cap are NOT covered (the obligation is reported inconclusive),
                # but the paths of the values taken so far are explored in full, so a violation on them is still found
                raise PathCap("concretisation of %s exceeds %d values" % (t, cap))

    # forall handling
    def add_forall(self, ndim, fn):
        self.foralls.append((ndim, fn))

    def register_index(self, idx):
        idx = tuple(I(i) for i in idx)
        self.index_terms.setdefault(len(idx), [])
        if not any(all(z3.eq(a, b) for a, b in zip(idx, j)) for j in self.index_terms[len(idx)]):
            self.index_terms[len(idx)].append(idx)

    def forall_instances(self):
        out = []
        cache = self.__dict__.setdefault("_inst_cache", {})
        for k, (ndim, fn) in enumerate(self.foralls):
            for idx in self.index_terms.get(ndim, []):
                key = (k, tuple(i.get_id() for i in idx))
                t = cache.get(key)
                if t is None:
                    t = fn(idx)
                    cache[key] = t
                out.append(t)
        return out

    # queries
    def prove(self, claim):
        """-> ('unsat', None) if claim holds on this path for all values, ('sat', model) candidate, ('unknown', None)."""
        return self._check(*(self.forall_instances() + [z3.Not(B(claim))]))

    def reachable(self, claim=True):
        return self._check(*(self.forall_instances() + [B(claim)]))


def explore(fn, stats=None, max_paths=20000, timeout_ms=60000, seed=0, deadline=None, root=None):
    """DFS over decision vectors. Yields (ctx, result_or_exception) per feasible path.
    root: a decision prefix [(take, False), ...]; only the subtree below it is explored (work partitioning)."""
    stats = stats if stats is not None else {}
    root = [(bool(t), False) for t, _p in (root or [])]
    prefix = list(root)
    n = 0
    while True:
        c = Ctx(prefix, stats, timeout_ms=timeout_ms, seed=seed)
        CUR[0] = c
        try:
            try:
                r = fn(c)
            except PathAbort:
                r = PathAbort
            except PathCap as e:
                r = e
        finally:
            CUR[0] = None
        n += 1
        stats["paths"] = stats.get("paths", 0) + 1
        if r is not PathAbort:
            yield c, r
        d = c.decisions
        k = len(d) - 1
        while k >= len(root) and not d[k][1]:
            k -= 1
        if k < len(root):
            return
        if n >= max_paths or (deadline is not None and time.time() > deadline):
            stats["path_cap_hit"] = True
            return
        prefix = list(d[:k]) + [(not d[k][0], False)]


def model_value(m, t):
    """Python value of a term under a model (model completion on)."""
    v = m.eval(t, model_completion=True)
    if z3.is_int_value(v):
        return v.as_long()
    if z3.is_rational_value(v):
        return Fraction(v.numerator_as_long(), v.denominator_as_long())
    if z3.is_true(v):
        return True
    if z3.is_false(v):
        return False
    if z3.is_algebraic_value(v):
        a = v.approx(20)
        return Fraction(a.numerator_as_long(), a.denominator_as_long())
    raise Unsupported("cannot concretise model value %s" % v)


# ------------------------------------------------------------------ havoc-style summary of independent loops

class SymRange:
    """Replacement for the builtin `range` inside a toasty module: a range with symbolic bounds yields ONE index —
    a caller-chosen witness (whose membership is recorded in `.membership` for the harness to prove) or an arbitrary
    in-range value named rng<k> — which summarises a loop whose iterations are independent. Concrete ranges run
    normally."""

    def __init__(self, witnesses=None, cycle=None):
        self.cycle = cycle                         # ordinal modulo `cycle` selects the witness (repeated loops)
        self.witnesses = dict(witnesses or {})     # ordinal -> SymInt
        self.used = []                             # (ordinal, lo, hi, index)
        self.membership = []                       # z3 Bools: witness k lies in its range

    def __call__(self, a, b=None, step=None):
        if b is None:
            a, b = 0, a
        if step is not None and step != 1:
            raise Unsupported("range with step")
        if not (is_sym(a) or is_sym(b)):
            return range(a, b)
        return _OneShot(self, a, b)


class _OneShot:
    def __init__(self, fac, a, b):
        self.fac, self.a, self.b = fac, a, b

    def __iter__(self):
        fac = self.fac
        k = len(fac.used)
        c = ctx()
        inr = None
        kk = k % fac.cycle if fac.cycle else k
        if kk in fac.witnesses:
            idx = fac.witnesses[kk]
            inr = z3.And(I(self.a) <= I(idx), I(idx) < I(self.b))
            fac.membership.append(inr)
            fac.used.append((k, self.a, self.b, idx))
            # the body is only entered for members: a separate claim shows the witness IS a member
            if not c.branch(inr):
                # the nested loops inside the skipped body are not reached: keep the ordinals aligned
                while fac.cycle and len(fac.used) % fac.cycle:
                    fac.used.append((len(fac.used), None, None, None))
                return
        else:
            idx = SymInt(z3.Int("rng%d" % k))
            fac.used.append((k, self.a, self.b, idx))
            # an ARBITRARY member of the range (the empty-range case is not explored: nothing would be iterated)
            if not c.branch(z3.And(I(self.a) <= I(idx), I(idx) < I(self.b))):
                raise PathAbort()
        yield idx


def loop_carried_names(func):
    """Syntactic check behind the one-iteration summary: local names that are read in a for-loop body before being
    (definitely) assigned in the same iteration although the body assigns them somewhere, i.e. names that could carry
    a value from the previous iteration. Returns {lineno: [names]} (empty = iterations are independent)."""
    import ast
    import inspect
    import textwrap
    tree = ast.parse(textwrap.dedent(inspect.getsource(func)))

    def names(node, kind):
        return [n.id for n in ast.walk(node) if isinstance(n, ast.Name) and isinstance(n.ctx, kind)]

    def scan(stmts, defined, assigned_in_loop, carried):
        for st in stmts:
            if isinstance(st, (ast.For, ast.AsyncFor)):
                for n in names(st.iter, ast.Load):
                    if n in assigned_in_loop and n not in defined:
                        carried.add(n)
                inner = set(defined) | set(names(st.target, ast.Store))
                scan(st.body, inner, assigned_in_loop, carried)
                scan(st.orelse, set(defined), assigned_in_loop, carried)
            elif isinstance(st, ast.While):
                for n in names(st.test, ast.Load):
                    if n in assigned_in_loop and n not in defined:
                        carried.add(n)
                scan(st.body, set(defined), assigned_in_loop, carried)
            elif isinstance(st, ast.If):
                for n in names(st.test, ast.Load):
                    if n in assigned_in_loop and n not in defined:
                        carried.add(n)
                d1, d2 = set(defined), set(defined)
                scan(st.body, d1, assigned_in_loop, carried)
                scan(st.orelse, d2, assigned_in_loop, carried)
                defined |= (d1 & d2)
            elif isinstance(st, (ast.With, ast.AsyncWith)):
                for it in st.items:
                    for n in names(it.context_expr, ast.Load):
                        if n in assigned_in_loop and n not in defined:
                            carried.add(n)
                    if it.optional_vars is not None:
                        defined |= set(names(it.optional_vars, ast.Store))
                scan(st.body, defined, assigned_in_loop, carried)
            elif isinstance(st, ast.Try):
                scan(st.body, set(defined), assigned_in_loop, carried)
                for h in st.handlers:
                    scan(h.body, set(defined), assigned_in_loop, carried)
                scan(st.orelse, set(defined), assigned_in_loop, carried)
                scan(st.finalbody, set(defined), assigned_in_loop, carried)
            else:
                if isinstance(st, ast.AugAssign) and isinstance(st.target, ast.Name):
                    if st.target.id not in defined:
                        carried.add(st.target.id)
                for n in names(st, ast.Load):
                    if n in assigned_in_loop and n not in defined:
                        carried.add(n)
                defined |= set(names(st, ast.Store))

    bad = {}
    for node in ast.walk(tree):
        if not isinstance(node, ast.For):
            continue
        assigned = set()
        for st in node.body:
            assigned |= set(names(st, ast.Store))
        carried = set()
        scan(node.body, set(names(node.target, ast.Store)), assigned, carried)
        if carried:
            bad[node.lineno] = sorted(carried)
    return bad
