"""Common run bookkeeping: obligations, violations vs known findings, evidence files, exit codes.

Exit codes: 0 = every obligation explored held (inconclusive ones are listed, never counted as held);
            1 = at least one *replayed* violation that known_findings.json does not list (open);
            2 = harness error (translator cannot parse, shim unsupported, counterexample not reproducible).
"""
import hashlib
import inspect
import json
import os
import sys
import time
import traceback

VERIF = os.environ.get("VERIF_ROOT") or os.path.dirname(os.path.dirname(os.path.abspath(__file__)))
REPO = "/repo"
KNOWN = os.path.join(VERIF, "known_findings.json")


class HarnessError(Exception):
    """The machinery itself cannot decide (exit 2)."""


def src_hash(obj):
    try:
        s = inspect.getsource(obj)
    except Exception:
        return "?"
    return hashlib.sha1(s.encode()).hexdigest()[:10]


def soft_attr(owner, name):
    """A private function of the code named in run.uses(): if a refactoring removed or renamed it, record that instead of
    failing the whole check on the attribute access (the obligations themselves decide whether behaviour changed)."""
    v = getattr(owner, name, None)
    return v if v is not None else "missing:%s.%s" % (getattr(owner, "__name__", owner), name)


def func_id(obj):
    mod = getattr(obj, "__module__", "?")
    qn = getattr(obj, "__qualname__", getattr(obj, "__name__", repr(obj)))
    return "%s:%s#%s" % (mod, qn, src_hash(obj))


def load_known():
    try:
        with open(KNOWN) as f:
            return json.load(f)
    except FileNotFoundError:
        return {"findings": []}


class Run:
    def __init__(self, pid, tier):
        self.pid = pid
        self.tier = tier
        self.seed = int(os.environ.get("VERIF_SEED", "0") or 0)
        self.t0 = time.time()
        self.obs = []
        self.violations = []          # (name, signature, replay_path, what, known?)
        self.inconclusive = []
        self.errors = []
        self.functions = []
        self.assumptions = []
        self.not_decided = []
        self.bounds = {}
        self.composition = []
        self.queries = 0
        self.solver_s = 0.0
        self.replays = 0              # counterexamples / twins / conformance runs executed on the real code
        self.known = load_known()
        self.known_hit = []
        self.extra = {}

    # ---- declarations
    def uses(self, *funcs):
        for f in funcs:
            fid = f if isinstance(f, str) else func_id(f)
            if fid not in self.functions:
                self.functions.append(fid)

    def assume(self, *texts):
        for t in texts:
            if t not in self.assumptions:
                self.assumptions.append(t)

    def outside(self, *texts):
        for t in texts:
            if t not in self.not_decided:
                self.not_decided.append(t)

    def bound(self, **kw):
        self.bounds.update(kw)

    # ---- results
    def ob(self, name, verdict, engine="", detail="", queries=0, solver_s=0.0, replays=0, **extra):
        """verdict in: unsat | confirmed | twin-sat | conform-ok | violated | inconclusive | known"""
        rec = dict(name=name, verdict=verdict, engine=engine, detail=str(detail)[:600],
                   queries=int(queries), solver_s=round(float(solver_s), 3))
        rec.update(extra)
        self.obs.append(rec)
        self.queries += int(queries)
        self.solver_s += float(solver_s)
        self.replays += int(replays)
        if verdict == "inconclusive":
            self.inconclusive.append(name)
            print("INCONCLUSIVE property=%s obligation=%s %s" % (self.pid, name, str(detail)[:300]))
        return rec

    def violation(self, name, signature, what, replay_text, engine="", queries=0, solver_s=0.0):
        """A counterexample that has ALREADY been reproduced against the real code.

        signature: stable string identifying the failing call site / input class; matched against
        known_findings.json (status 'open' only)."""
        path = os.path.join(VERIF, "replays", "%s-%s.py" % (self.pid, "".join(c if c.isalnum() else "_" for c in name)[:80]))
        os.makedirs(os.path.dirname(path), exist_ok=True)
        with open(path, "w") as f:
            f.write(replay_text)
        known = None
        for k in self.known.get("findings", []):
            if k.get("property") == self.pid and k.get("status") == "open" and k.get("signature") == signature:
                known = k
                break
        self.replays += 1
        if known is not None:
            self.known_hit.append(signature)
            print("KNOWN-FINDING: property=%s %s" % (self.pid, known.get("what", what)))
            self.ob(name, "known", engine, "known finding %s: %s" % (signature, what), queries, solver_s,
                    signature=signature, replay=path)
        else:
            self.violations.append((name, signature, path, what))
            print("VIOLATION property=%s replay=%s" % (self.pid, path))
            print("  obligation=%s signature=%s :: %s" % (name, signature, what))
            self.ob(name, "violated", engine, what, queries, solver_s, signature=signature, replay=path)

    def error(self, name, detail):
        self.errors.append((name, str(detail)))
        print("HARNESS-ERROR property=%s obligation=%s %s" % (self.pid, name, str(detail)[:2000]))
        self.ob(name, "inconclusive", "", "harness error: " + str(detail)[:300])

    # ---- finish
    def finish(self):
        wall = time.time() - self.t0
        held = [o for o in self.obs if o["verdict"] in ("unsat", "confirmed")]
        samples = [
            {k: o[k] for k in ("name", "verdict", "engine", "detail", "queries", "solver_s") if k in o}
            for o in self.obs
        ]
        cov = {
            "states": max(1, self.queries),
            "transitions": max(1, len(self.obs)),
            "traces_validated_against_impl": self.replays,
            "samples": samples[:400],
            "obligations": len(self.obs),
            "held": len(held),
            "inconclusive": self.inconclusive,
            "known_findings_hit": self.known_hit,
            "functions_encoded": self.functions,
            "bounds": self.bounds,
            "not_decided": self.not_decided,
            "composition": self.composition,
            "smt_queries_or_paths": self.queries,
            "solver_time_s": round(self.solver_s, 2),
            "explanation": "states = SMT queries / symbolic paths discharged; transitions = obligations; "
                           "traces_validated_against_impl = counterexamples, vacuity twins and conformance runs executed on the real code",
        }
        cov.update(self.extra)
        ev = {
            "property_id": self.pid,
            "tier": self.tier,
            "seed": self.seed,
            "level": "model_checking",
            "coverage": cov,
            "assumptions": self.assumptions,
            "wall_s": round(wall, 2),
            "violations": len(self.violations),
        }
        os.makedirs(os.path.join(VERIF, "evidence"), exist_ok=True)
        evname = self.pid + (".partial" if getattr(self, "only", None) else "") + ".json"
        with open(os.path.join(VERIF, "evidence", evname), "w") as f:
            json.dump(ev, f, indent=1, sort_keys=False, default=str)
            f.write("\n")
        print("SUMMARY property=%s tier=%s obligations=%d held=%d inconclusive=%d violations=%d known=%d queries=%d solver_s=%.1f wall_s=%.1f"
              % (self.pid, self.tier, len(self.obs), len(held), len(self.inconclusive), len(self.violations),
                 len(self.known_hit), self.queries, self.solver_s, wall))
        if self.violations:
            return 1
        if self.errors:
            return 2
        return 0


# ------------------------------------------------------------------ process-level parallelism for independent sub-checks

def _pjob(args):
    modname, fname, pid, tier, only, job = args
    import importlib
    import traceback as _tb
    mod = importlib.import_module(modname)
    sub = Run(pid, tier)
    sub.only = only
    try:
        getattr(mod, fname)(sub, *job)
    except HarnessError as e:
        sub.error(str(job), e)
    except Exception:
        sub.error(str(job), _tb.format_exc())
    return dict(obs=sub.obs, violations=sub.violations, inconclusive=sub.inconclusive, errors=sub.errors, queries=sub.queries,
                solver_s=sub.solver_s, replays=sub.replays, known_hit=sub.known_hit, extra=sub.extra)


def run_parallel(run, modname, fname, jobs, workers=16, timeout_s=3000):
    """Run `modname.fname(sub_run, *job)` for every job in its own process; merge the records into `run`."""
    import multiprocessing as mp
    if not jobs:
        return
    ctxm = mp.get_context("fork")
    pool = ctxm.Pool(min(workers, len(jobs)))
    try:
        asyncs = [(j, pool.apply_async(_pjob, ((modname, fname, run.pid, run.tier, getattr(run, "only", None), j),))) for j in jobs]
        t_end = time.time() + timeout_s
        for j, a in asyncs:
            try:
                res = a.get(timeout=max(1, t_end - time.time()))
            except mp.TimeoutError:
                run.ob("%s.budget" % (j,), "inconclusive", "", "sub-check exceeded its wall-clock budget (worker killed)")
                continue
            run.obs += res["obs"]
            run.violations += res["violations"]
            run.inconclusive += res["inconclusive"]
            run.errors += res["errors"]
            run.queries += res["queries"]
            run.solver_s += res["solver_s"]
            run.replays += res["replays"]
            run.known_hit += res["known_hit"]
            for k, v in res["extra"].items():
                if isinstance(v, dict):
                    run.extra.setdefault(k, {}).update(v)
                else:
                    run.extra[k] = v
    finally:
        pool.terminate()
        pool.join()
