"""An in-memory tile store standing in for the file system and the codecs, usable with symbolic (symnp) and real
(numpy) arrays alike.  What is saved is what is loaded (codec = identity on array, dtype and FITS header); the real
PyramidIO / Image.save / ImageLoader.load_path code runs unmodified on top of it.

Patched while installed:
  toasty.pyramid.os           -> makedirs no-op, unlink on the store (FileNotFoundError when absent)
  toasty.pyramid.glob         -> no files
  toasty.image.fits           -> open / writeto / Header on the store
  toasty.image.np             -> proxy of the world's numpy with load / save on the store
  toasty.image.open           -> handle on the store (PIL formats)
  ImageLoader.load_stream     -> Image from the stored array (PIL decode = identity)
  Image.aspil                 -> fake PIL image whose convert() drops/adds alpha and whose save() writes to the store
  astropy.wcs.WCS             -> header recorder (only while installed)
"""
import contextlib
import os as _os
import types

import numpy as _np

import astropy.wcs as _awcs
import toasty.image as ti
import toasty.pyramid as tp
from toasty.image import Image, ImageLoader


class Header(dict):
    def copy(self):
        return Header(self)


class FakeWCS:
    """Just enough of astropy.wcs.WCS for tile I/O: remembers the header it was built from."""

    def __init__(self, header=None, key=" ", **kw):
        self.header = Header(header or {})
        self.wcs = types.SimpleNamespace(alt=key)
        self.naxis = 2

    def to_header(self, *a, **k):
        h = Header()
        for k2, v in self.header.items():
            if k2 not in ("DATAMIN", "DATAMAX"):
                h[k2] = v
        return h


class _Hdu:
    def __init__(self, data, header):
        self.data = data
        self.header = header
        self.shape = data.shape
        self.dtype = data.dtype


class _Hdul(list):
    def __enter__(self):
        return self

    def __exit__(self, *a):
        return False


class _FakePil:
    def __init__(self, fs, arr, mode):
        self.fs, self.arr, self.mode = fs, arr, mode

    def convert(self, mode):
        if mode == self.mode:
            return self
        if self.mode == "RGBA" and mode == "RGB":
            return _FakePil(self.fs, self.arr[..., :3], "RGB")
        raise NotImplementedError("PIL convert %s -> %s is not modelled" % (self.mode, mode))

    def save(self, path, format=None):
        self.fs.store(path, "pil", self.fs.snapshot(self.arr), None, pil_format=format, pil_mode=self.mode)


class SymFS:
    def __init__(self):
        self.files = {}
        self.log = []
        self.locks = set()
        self.lock_log = []

    # ---- store primitives
    @staticmethod
    def snapshot(arr):
        if isinstance(arr, _np.ndarray):
            return _np.array(arr, copy=True)
        return arr.copy()

    def store(self, path, kind, arr, header, **extra):
        self.files[path] = dict(kind=kind, arr=arr, header=header, **extra)
        self.log.append(("save", path))

    def exists(self, path):
        return path in self.files

    def put_tile(self, path, arr, header=None, kind=None):
        """Harness-side: pre-populate a tile file."""
        if kind is None:
            kind = "fits" if path.endswith(".fits") else ("npy" if path.endswith(".npy") else "pil")
        self.files[path] = dict(kind=kind, arr=arr, header=Header(header or {}) if kind == "fits" else None)

    # ---- installation
    @contextlib.contextmanager
    def installed(self, w):
        fs = self

        class FakeOS:
            path = _os.path
            name = _os.name

            @staticmethod
            def makedirs(p, exist_ok=False):
                pass

            @staticmethod
            def unlink(p):
                fs.log.append(("unlink", p))
                if p not in fs.files:
                    raise FileNotFoundError(2, "No such file or directory", p)
                del fs.files[p]

        class FakeGlob:
            @staticmethod
            def iglob(p):
                return iter(())

        class FakeFits:
            Header = Header

            @staticmethod
            def open(path, *a, **k):
                fs.log.append(("load", path))
                if path not in fs.files:
                    raise FileNotFoundError(2, "No such file or directory", path)
                f = fs.files[path]
                return _Hdul([_Hdu(f["arr"], Header(f["header"] or {}))])

            @staticmethod
            def writeto(path, arr, header=None, overwrite=False):
                fs.store(path, "fits", fs.snapshot(arr), Header(header or {}))

        base_np = w.np

        class NpProxy(types.ModuleType):
            def __getattr__(self, name):
                return getattr(base_np, name)

        npx = NpProxy("np_proxy")

        def np_load(path, *a, **k):
            fs.log.append(("load", path))
            if path not in fs.files:
                raise FileNotFoundError(2, "No such file or directory", path)
            return fs.files[path]["arr"]

        def np_save(path, arr, *a, **k):
            fs.store(path, "npy", fs.snapshot(arr), None)

        npx.load = np_load
        npx.save = np_save

        class Handle:
            def __init__(self, path):
                self.path = path

            def __enter__(self):
                return self

            def __exit__(self, *a):
                return False

        def fake_open(path, mode="r"):
            fs.log.append(("load", path))
            if "r" in mode and path not in fs.files:
                raise FileNotFoundError(2, "No such file or directory", path)
            return Handle(path)

        def load_stream(self_loader, stream):
            f = fs.files[stream.path]
            return Image.from_array(f["arr"])

        def aspil(self_img):
            return _FakePil(fs, self_img.asarray(), self_img.mode.try_as_pil())

        import filelock as _fl

        class FakeLock:
            """Stand-in for filelock.SoftFileLock over the in-memory store (atomic create-exclusive / remove)."""

            def __init__(self, path, *a, **k):
                self.path = path

            lock_file = property(lambda self: self.path)
            is_locked = property(lambda self: self.path in fs.locks)

            def acquire(self, timeout=None, poll_interval=0.05, **k):
                if self.path in fs.locks:
                    raise RuntimeError("lock %s already held (single-threaded harness)" % self.path)
                fs.locks.add(self.path)
                fs.lock_log.append(("acquire", self.path))
                return self

            def release(self, force=False):
                fs.locks.discard(self.path)
                fs.lock_log.append(("release", self.path))

            def __enter__(self):
                return self.acquire()

            def __exit__(self, *a):
                self.release()
                return False

        saved_lock = _fl.SoftFileLock
        _fl.SoftFileLock = FakeLock
        saved = dict(tp_os=tp.os, tp_glob=tp.glob, ti_fits=ti.fits, ti_np=ti.np, ti_open=ti.__dict__.get("open"),
                     load_stream=ImageLoader.load_stream, aspil=Image.aspil, wcs=_awcs.WCS, ti_os=ti.os)
        tp.os = FakeOS
        tp.glob = FakeGlob
        ti.os = FakeOS
        ti.fits = FakeFits
        ti.np = npx
        ti.open = fake_open
        ImageLoader.load_stream = load_stream
        Image.aspil = aspil
        _awcs.WCS = FakeWCS
        try:
            yield self
        finally:
            tp.os = saved["tp_os"]
            tp.glob = saved["tp_glob"]
            ti.os = saved["ti_os"]
            ti.fits = saved["ti_fits"]
            ti.np = saved["ti_np"]
            if saved["ti_open"] is None:
                del ti.open
            else:
                ti.open = saved["ti_open"]
            ImageLoader.load_stream = saved["load_stream"]
            Image.aspil = saved["aspil"]
            _awcs.WCS = saved["wcs"]
            _fl.SoftFileLock = saved_lock
