"""E2 driver: run a scenario of REAL toasty code in a symbolic world (symx + symnp), prove claims per path, and replay
candidate counterexamples / vacuity twins in a real world (real numpy) built from the solver's model.

A Case provides
    run(w)            -> outs      world-generic: builds inputs through `w`, executes real toasty functions
    claims(w, outs)   -> None      symbolic world only: registers claims through w.claim_eq / w.claim
The same `run` is executed with RealWorld(model): inputs are concretised from the model, toasty runs on real numpy,
and each claim's probe extracts the concrete value that is compared with the spec term evaluated under the model.
"""
import contextlib
import json
import os
import time
import traceback
from fractions import Fraction

import numpy as _np
import z3

from . import symnp, symx
from .symnp import FElem, SArr
from .symx import SymBool, SymInt, SymReal, Unsupported



class _fresh_module_state:
    """Every world run starts from the import-time state of toasty's modules: module-level containers (caches a change
    may introduce) are snapshotted before a run and restored after it, so state kept BETWEEN calls inside one run is
    seen, but nothing leaks from the symbolic run into the real-numpy replay (or into the next path)."""

    def __enter__(self):
        import sys
        self.saved = []
        for name, mod in list(sys.modules.items()):
            if mod is None or not (name == "toasty" or name.startswith("toasty.")):
                continue
            for k, v in list(vars(mod).items()):
                if k.startswith("__"):
                    continue
                if isinstance(v, (dict, list, set)):
                    self.saved.append((v, type(v)(v)))
        return self

    def __exit__(self, *a):
        for obj, copy_ in self.saved:
            try:
                if isinstance(obj, list):
                    obj[:] = copy_
                else:
                    obj.clear()
                    obj.update(copy_)
            except Exception:
                pass
        return False


class Claim:
    def __init__(self, name, term, got=None, want=None, probe=None, sig=None, what=None, ref=None):
        self.ref = ref            # optional independent numpy reference: (key, idx) / callable on the real outs
        self.name = name
        self.term = term          # z3 Bool that must hold
        self.got = got            # symbolic element / scalar actually produced (for conformance)
        self.want = want          # symbolic element / scalar required by the spec
        self.probe = probe        # probe(real_outs, val) -> concrete value produced by the real code
        self.sig = sig
        self.what = what


# ------------------------------------------------------------------ worlds

class SymWorld:
    symbolic = True

    def __init__(self, c):
        self.c = c
        self.np = symnp.shim
        self.claims = []
        self.decls = []            # for concretisation: (kind, name, ...)
        self.hints = []            # preferences for small models
        self.notes = {}

    # inputs
    def int(self, name, lo=None, hi=None):
        v = z3.Int(name)
        if lo is not None:
            self.c.assume(v >= symx.I(lo))
        if hi is not None:
            self.c.assume(v <= symx.I(hi))
        return SymInt(v)

    def real(self, name, lo=None, hi=None):
        v = z3.Real(name)
        if lo is not None:
            self.c.assume(v >= symx.R(lo))
        if hi is not None:
            self.c.assume(v <= symx.R(hi))
        return SymReal(v)

    def bool(self, name):
        return SymBool(z3.Bool(name))

    def optional_real(self, name):
        """A float-or-None input: (present: bool decided by the explorer, value)."""
        if self.bool(name + "__present"):
            return self.real(name)
        return None

    def float_elem(self, name):
        return FElem(z3.Bool(name + "__nan"), z3.Real(name + "__val"))

    def array(self, name, shape, dtype, lo=None, hi=None, nonan=False):
        return SArr.fresh(name, tuple(shape), dtype, lo=lo, hi=hi, nonan=nonan)

    def choice(self, name, options):
        """Symbolic choice among python objects: forks."""
        k = self.int(name, 0, len(options) - 1)
        for i, o in enumerate(options[:-1]):
            if k == i:
                return o
        return options[-1]

    def assume(self, cond):
        self.c.assume(symx.B(cond))

    def prefer(self, cond):
        """Hint for counterexample models (small sizes)."""
        self.hints.append(symx.B(cond))

    def val(self, x):
        return x

    def pixel(self, *idx):
        """Declare an index tuple at which universally quantified facts (np.all, nanmin ...) are instantiated."""
        self.c.register_index(idx)

    @contextlib.contextmanager
    def patched(self, *mods, names=("np",), extra=None):
        """Point toasty modules at the symbolic numpy (and sym-aware builtins where the code needs them)."""
        saved = []
        repl = {"np": symnp.shim, "int": symx.sym_int, "max": symx.sym_max, "min": symx.sym_min}
        if extra:
            repl.update(extra)
        try:
            for m in mods:
                for n in names:
                    saved.append((m, n, m.__dict__.get(n, _MISSING)))
                    setattr(m, n, repl[n])
            yield
        finally:
            for m, n, old in reversed(saved):
                if old is _MISSING:
                    try:
                        delattr(m, n)
                    except AttributeError:
                        pass
                else:
                    setattr(m, n, old)

    # claims
    def claim_eq(self, name, got, want, probe=None, sig=None, what=None, ref=None):
        self.claims.append(Claim(name, _eq_term(got, want), got, want, probe, sig, what, ref))

    def claim(self, name, term, probe=None, sig=None, what=None):
        """Boolean claim; probe(real_outs, val) must return the concrete truth value."""
        self.claims.append(Claim(name, symx.B(term), symx.B(term), z3.BoolVal(True), probe, sig, what))


_MISSING = object()


def _eq_term(got, want):
    g, w = _elem(got), _elem(want)
    if isinstance(g, FElem) or isinstance(w, FElem):
        return symnp.elem_eq(symnp.lift(g, True), symnp.lift(w, True))
    if z3.is_bool(g) or z3.is_bool(w):
        return symx.B(g) == symx.B(w)
    if z3.is_real(g) or z3.is_real(w):
        return symx.R(g) == symx.R(w)
    return g == w


def _elem(v):
    if isinstance(v, FElem):
        return v
    if isinstance(v, (SymInt, SymReal, SymBool)):
        return v.t
    if isinstance(v, bool):
        return z3.BoolVal(v)
    if isinstance(v, int):
        return z3.IntVal(v)
    if isinstance(v, float):
        if v != v:
            return symnp.nan_elem()
        return symx.q(v)
    if v is None:
        raise TypeError("None in claim")
    return v


class RealWorld:
    symbolic = False

    def __init__(self, model):
        self.m = model
        self.np = _np
        self.claims = []
        self.notes = {}
        self.record = {}

    def _v(self, t):
        return symx.model_value(self.m, t)

    def int(self, name, lo=None, hi=None):
        v = int(self._v(z3.Int(name)))
        self.record[name] = v
        return v

    def real(self, name, lo=None, hi=None):
        v = float(self._v(z3.Real(name)))
        self.record[name] = v
        return v

    def bool(self, name):
        v = bool(self._v(z3.Bool(name)))
        self.record[name] = v
        return v

    def optional_real(self, name):
        if self.bool(name + "__present"):
            return self.real(name)
        return None

    def float_elem(self, name):
        v = float("nan") if self._v(z3.Bool(name + "__nan")) else float(self._v(z3.Real(name + "__val")))
        self.record[name] = v
        return v

    def choice(self, name, options):
        return options[self.int(name)]

    def array(self, name, shape, dtype, lo=None, hi=None, nonan=False):
        arr = self._array(name, shape, dtype, lo, hi, nonan)
        self.record[name] = arr
        return arr

    def _array(self, name, shape, dtype, lo=None, hi=None, nonan=False):
        shape = tuple(int(d) for d in shape)
        dtype = _np.dtype(dtype)
        n = len(shape)
        total = 1
        for d in shape:
            total *= d
        if total > 64 * 1024 * 1024:
            raise Unsupported("model needs an array of %d elements to replay" % total)
        ints = [z3.IntSort()] * n
        if dtype.kind == "f":
            vals = concretize_uf(self.m, z3.Function(name + "__val", *ints, z3.RealSort()), shape, float)
            arr = vals.astype(dtype)
            if not nonan:
                nans = concretize_uf(self.m, z3.Function(name + "__nan", *ints, z3.BoolSort()), shape, bool)
                arr[nans] = _np.nan
            return arr
        if dtype.kind == "b":
            return concretize_uf(self.m, z3.Function(name, *ints, z3.BoolSort()), shape, bool)
        info = _np.iinfo(dtype)
        l = info.min if lo is None else lo
        h = info.max if hi is None else hi
        vals = concretize_uf(self.m, z3.Function(name, *ints, z3.IntSort()), shape, object)
        vals = _np.array([min(max(int(v), l), h) for v in vals.reshape(-1)], dtype=dtype).reshape(shape) if total else _np.zeros(shape, dtype)
        return vals

    def assume(self, cond):
        pass

    def prefer(self, cond):
        pass

    def val(self, x):
        if isinstance(x, (SymInt, SymReal, SymBool)):
            v = self._v(x.t)
            return float(v) if isinstance(v, Fraction) else v
        if isinstance(x, FElem):
            if self._v(x.nan):
                return float("nan")
            return float(self._v(x.val))
        if z3.is_expr(x):
            v = self._v(x)
            return float(v) if isinstance(v, Fraction) else v
        return x

    def pixel(self, *idx):
        pass

    @contextlib.contextmanager
    def patched(self, *mods, names=("np",), extra=None):
        yield

    def claim_eq(self, *a, **k):
        pass

    def claim(self, *a, **k):
        pass


class FileWorld(RealWorld):
    """Replays recorded inputs (no solver needed)."""

    def __init__(self, scalars, arrays):
        self.np = _np
        self.claims = []
        self.notes = {}
        self.record = {}
        self.scalars = scalars
        self.arrays = arrays

    def int(self, name, lo=None, hi=None):
        return int(self.scalars[name])

    def real(self, name, lo=None, hi=None):
        return float(self.scalars[name])

    def bool(self, name):
        return bool(self.scalars[name])

    def float_elem(self, name):
        v = self.scalars[name]
        return float("nan") if v is None else float(v)

    def array(self, name, shape, dtype, lo=None, hi=None, nonan=False):
        return _np.array(self.arrays[name])

    def val(self, x):
        raise Unsupported("FileWorld has no model")


def do_probe(cl, routs, val, which="probe"):
    """Declarative probes: (key, idx) -> routs[key][idx]; (key, None) -> routs[key]; callables are applied."""
    p = getattr(cl, which)
    if callable(p):
        return p(routs, val)
    key, idx = p
    v = routs[key]
    if idx is None:
        return _plain(v)
    cidx = tuple(int(val(i)) for i in idx)
    return _plain(v[cidx])


def _plain(v):
    if isinstance(v, _np.ndarray) and v.ndim == 0:
        v = v[()]
    if isinstance(v, _np.floating):
        return v                      # keep the precision information for the comparison
    if isinstance(v, _np.generic):
        return v.item()
    return v


def _conv(v, kind):
    if kind is bool:
        return bool(z3.is_true(v))
    if z3.is_int_value(v):
        return v.as_long()
    if z3.is_rational_value(v):
        return float(Fraction(v.numerator_as_long(), v.denominator_as_long()))
    if z3.is_algebraic_value(v):
        a = v.approx(20)
        return float(Fraction(a.numerator_as_long(), a.denominator_as_long()))
    if z3.is_true(v):
        return True
    if z3.is_false(v):
        return False
    raise Unsupported("non-constant value in model: %s" % v)


def concretize_uf(m, f, shape, kind):
    """numpy array of an uninterpreted function's interpretation restricted to `shape`."""
    dt = bool if kind is bool else (float if kind is float else object)
    n = len(shape)
    fi = None
    for d in m.decls():
        if d.name() == f.name() and d.arity() == f.arity():
            fi = m.get_interp(d)
            break
    if fi is None:
        return _np.zeros(shape, dtype=dt)
    if n == 0:
        return _np.array(_conv(m.eval(f(), model_completion=True), kind), dtype=dt)
    if not isinstance(fi, z3.FuncInterp):
        # z3 may return a lambda / array-like interpretation: evaluate pointwise
        return _pointwise(m, f, shape, kind, dt)
    try:
        ev = fi.else_value()
    except z3.Z3Exception:
        ev = None
    if ev is None:
        default = False if kind is bool else 0
    else:
        try:
            default = _conv(ev, kind)
        except Unsupported:
            return _pointwise(m, f, shape, kind, dt)
    arr = _np.empty(shape, dtype=dt)
    arr[...] = default
    for k in range(fi.num_entries()):
        e = fi.entry(k)
        idx = tuple(e.arg_value(i).as_long() for i in range(n))
        if all(0 <= i < d for i, d in zip(idx, shape)):
            arr[idx] = _conv(e.value(), kind)
    return arr


def _pointwise(m, f, shape, kind, dt):
    total = 1
    for d in shape:
        total *= d
    if total > 300000:
        raise Unsupported("pointwise concretisation of %d elements" % total)
    arr = _np.empty(shape, dtype=dt)
    for idx in _np.ndindex(*shape):
        arr[idx] = _conv(m.eval(f(*[z3.IntVal(i) for i in idx]), model_completion=True), kind)
    return arr


# ------------------------------------------------------------------ value comparison

def close(a, b, rtol=2e-5, atol=1e-9):
    """Concrete comparison real-code value vs spec value (floats are reals in the spec: allow float32 rounding)."""
    if isinstance(a, (tuple, list)) or isinstance(b, (tuple, list)):
        return len(a) == len(b) and all(close(x, y, rtol, atol) for x, y in zip(a, b))
    if a is None or b is None:
        return a is None and b is None
    if isinstance(a, (bool, _np.bool_)) or isinstance(b, (bool, _np.bool_)):
        return bool(a) == bool(b)
    for x in (a, b):
        if isinstance(x, _np.float16):
            rtol, atol = max(rtol, 4e-3), max(atol, 1e-3)
    a = float(a)
    b = float(b)
    if a != a or b != b:
        return a != a and b != b
    return abs(a - b) <= atol + rtol * max(abs(a), abs(b))


def _concrete(w, v):
    x = w.val(v) if not isinstance(v, (tuple, list)) else [w.val(y) for y in v]
    return x


# ------------------------------------------------------------------ the driver

class Case:
    name = "case"
    engine = "E2:symx+symnp"
    max_paths = 400
    conform_paths = 2
    timeout_ms = 20000
    budget_s = 240          # wall-clock budget per case; exceeding it is reported as inconclusive, never as success

    def run(self, w):
        raise NotImplementedError

    def claims(self, w, outs):
        raise NotImplementedError

    # classification of exceptions raised by the real code during run(); default: any exception is a candidate violation
    def expected_exception(self, exc):
        return False

    def same_path(self, sym_outs, real_outs):
        """Did the real run take the path the model was built for?  (A model of finitely many instances of a
        universally quantified path fact need not extend to all pixels of the concretised arrays.)"""
        return True


def _replay_script(pid, case_name, values, root):
    return (
        "# replay of a solver counterexample for %s / %s on the real code (real numpy)\n"
        "import sys, json\nsys.path.insert(0, %r)\n"
        "from vlib import e2\n"
        "import props.%s as P\n"
        "sys.exit(e2.replay_from_file(P, %r, %r))\n"
    ) % (pid, case_name, root, pid, case_name, values)


def model_to_smt2(model_assertions):
    s = z3.Solver()
    for a in model_assertions:
        s.add(a)
    return s.to_smt2()


def run_case(run, case, deadline=None):
    """Explore all paths of one case; record one obligation per claim name (aggregated over paths)."""
    stats = {"concretize_cap": getattr(case, "concretize_cap", 64)}
    agg = {}          # claim name -> dict(verdict, paths, detail)
    order = []
    t0 = time.time()
    n_conf = 0
    n_paths = 0
    cap_hit = False
    errors = []

    def note(name, verdict, detail=""):
        note.agg = agg
        if name not in agg:
            agg[name] = dict(unsat=0, sat=0, unknown=0, detail="")
            order.append(name)
        agg[name][verdict] += 1
        if detail and (not agg[name]["detail"] or (verdict == "unknown" and not agg[name].get("unk_detail"))):
            agg[name]["detail"] = detail
            if verdict == "unknown":
                agg[name]["unk_detail"] = True

    def body(c):
        w = SymWorld(c)
        try:
            with _fresh_module_state():
                outs = case.run(w)
        except (symx.PathAbort, symx.PathCap, Unsupported):
            raise
        except Exception as e:           # the real code raised on this symbolic path: a candidate violation
            return w, _Raised(e, traceback.format_exc())
        case.claims(w, outs)
        return w, outs

    if deadline is None:
        deadline = time.time() + case.budget_s * (4 if run.tier == "thorough" else 1)
    for c, res in symx.explore(body, stats=stats, max_paths=case.max_paths, timeout_ms=case.timeout_ms,
                               seed=run.seed, deadline=deadline):
        n_paths += 1
        if isinstance(res, symx.PathCap):
            cap_hit = True
            note("%s.unwinding" % case.name, "unknown", "cap: %s" % res)
            continue
        w, outs = res
        symx.CUR[0] = c
        if isinstance(outs, _Raised):
            if not agg.get("%s.no-exception" % case.name, {}).get("sat"):
                _handle_raised(run, case, c, w, outs, note)
            symx.CUR[0] = None
            continue
        try:
            r0, _m0 = c.reachable(True)
            if r0 == "unsat":
                # infeasible once the universally quantified facts are instantiated at the registered indices
                stats["infeasible_paths"] = stats.get("infeasible_paths", 0) + 1
                continue
            # derived lemmas about float modulo: proved first (cheap, linear), then available to the main queries
            _mod_lemmas(c, stats)
            # requirements of the real code (no crash inside numpy semantics)
            for cond, msg in c.requirements:
                nm = "%s.no-crash" % case.name
                if agg.get(nm, {}).get("sat"):
                    break
                r, m = c.prove(cond)
                if r == "unsat":
                    note(nm, "unsat")
                elif r == "sat":
                    _handle_sat(run, case, c, w, m, Claim(nm, cond, what="real code would raise: " + msg), note, crash=True)
                else:
                    note(nm, "unknown", "solver unknown on requirement: " + msg)
            for cl in w.claims:
                nm = "%s.%s" % (case.name, cl.name)
                if agg.get(nm, {}).get("sat"):
                    continue          # already reported once with a replayed counterexample
                r, m = c.prove(cl.term)
                if r == "unsat":
                    note(nm, "unsat")
                elif r == "sat":
                    m = _small_model(c, w, cl, m)
                    _handle_sat(run, case, c, w, m, cl, note)
                else:
                    note(nm, "unknown", "solver unknown")
            # vacuity twin + shim conformance on the first few paths
            if n_conf < case.conform_paths and w.claims:
                n_conf += 1
                _twin_and_conformance(run, case, c, w, note, outs)
        except Unsupported as e:
            errors.append("unsupported: %s" % e)
        finally:
            symx.CUR[0] = None
    if stats.get("path_cap_hit"):
        cap_hit = True
        note("%s.unwinding" % case.name, "unknown", "path cap %d hit" % case.max_paths)
    wall = time.time() - t0
    nq = stats.get("queries", 0)
    first = True
    for nm in order:
        a = agg[nm]
        if a.get("violated") or a.get("known"):
            continue
        if a["sat"]:
            continue    # already reported through run.violation / run.error
        if a["unknown"]:
            run.ob(nm, "inconclusive", case.engine, "%d paths unsat, %d unknown: %s" % (a["unsat"], a["unknown"], a["detail"]),
                   queries=nq if first else 0, solver_s=stats.get("solver_s", 0) if first else 0)
        else:
            v = "twin-sat" if nm.endswith(".twin") or nm.endswith(".conformance") else "unsat"
            run.ob(nm, v, case.engine, "%d/%d paths %s" % (a["unsat"], n_paths, a["detail"]),
                   queries=nq if first else 0, solver_s=stats.get("solver_s", 0) if first else 0)
        first = False
    for e in errors:
        run.error(case.name, e)
    if n_paths == 0:
        run.error(case.name, "no feasible path")
    return stats


class _Raised:
    def __init__(self, exc, tb):
        self.exc, self.tb = exc, tb


def _handle_raised(run, case, c, w, raised, note):
    """The real code raised under symbolic execution. Reproduce on real numpy with a model of the path."""
    nm = "%s.no-exception" % case.name
    if case.expected_exception(raised.exc):
        note(nm, "unsat", "(expected exception path)")
        return
    r, m = c.reachable(True)
    if r == "unsat":
        return
    hints = list(w.hints) + list(c.model_hints)
    if r == "sat" and hints:
        r2, m2 = c._check(*(c.forall_instances() + hints))
        if r2 == "sat":
            m = m2
    if r != "sat":
        note(nm, "unknown", "real code raised %s under symbolic execution; path model is %s" % (type(raised.exc).__name__, r))
        return
    try:
        rw, routs, exc = _real_run(case, m)
    except Unsupported as e:
        note(nm, "unknown", "exception path not replayable: %s" % e)
        return
    if exc is not None and type(exc).__name__ == type(raised.exc).__name__:
        what = "real code raises %s: %s" % (type(exc).__name__, exc)
        _report(run, case, c, m, nm, "%s:raises-%s" % (case.name, type(exc).__name__), what, note, rw=rw)
    else:
        note(nm, "unknown", "exception under symbolic execution did not reproduce on real numpy: %s" % raised.tb[-600:])
        run.errors.append((nm, "symbolic-only exception: %s" % raised.tb[-1500:]))


def _mod_lemmas(c, stats):
    """For r_i = x_i - k_i*d in [0, d) (fresh-quotient encoding of x % d):  (x2 - x1)/d integral  =>  r1 == r2."""
    mods = c.mods[:8]
    done = c.__dict__.setdefault("_mod_lemmas_done", set())
    for a in range(len(mods)):
        for b in range(a + 1, len(mods)):
            x1, d1, k1 = mods[a]
            x2, d2, k2 = mods[b]
            if not z3.eq(d1, d2) or (a, b) in done:
                continue
            done.add((a, b))
            r1 = x1 - z3.ToReal(k1) * d1
            r2 = x2 - z3.ToReal(k2) * d1
            quot = z3.simplify((x2 - x1) / d1, som=True)
            zt = None
            if z3.is_app(quot) and quot.decl().kind() == z3.Z3_OP_TO_REAL:
                zt = quot.arg(0)
            elif z3.is_rational_value(quot) and quot.denominator_as_long() == 1:
                zt = z3.IntVal(quot.numerator_as_long())
            if zt is None:
                continue
            # x2 - x1 is syntactically an integer multiple zt of d: then the two remainders coincide.
            # proved in a fresh solver from the two range facts alone (linear mixed integer/real)
            s2 = z3.Solver()
            s2.set("timeout", 10000)
            y1 = z3.Real("lemma_y")       # stands for x1 / d (scaled form: unit coefficients on the integers)
            q1 = y1 - z3.ToReal(k1)
            q2 = y1 + z3.ToReal(zt) - z3.ToReal(k2)
            s2.add(q1 >= 0, q1 < 1, q2 >= 0, q2 < 1, k2 != k1 + zt)
            stats["queries"] = stats.get("queries", 0) + 1
            if s2.check() == z3.unsat:
                c.add_side(k2 == k1 + zt)
                stats["mod_lemmas"] = stats.get("mod_lemmas", 0) + 1


def _small_model(c, w, cl, m):
    """Prefer a counterexample satisfying the size hints (replayable)."""
    hints = list(w.hints) + list(c.model_hints)
    if not hints:
        return m
    r, m2 = c._check(*(c.forall_instances() + [z3.Not(cl.term)] + hints))
    if r == "sat":
        return m2
    if w.hints:
        r, m2 = c._check(*(c.forall_instances() + [z3.Not(cl.term)] + list(w.hints)))
        if r == "sat":
            return m2
    return m


def _real_run(case, m):
    rw = RealWorld(m)
    try:
        with _fresh_module_state():
            outs = case.run(rw)
        return rw, outs, None
    except Unsupported:
        raise
    except Exception as e:
        return rw, None, e


def _values_for_replay(c, w, m):
    """Everything RealWorld needs, as an SMT-LIB model dump is not portable: keep the z3 model's sexpr."""
    return m.sexpr()


def _handle_sat(run, case, c, w, m, cl, note, crash=False):
    nm = cl.name if crash else "%s.%s" % (case.name, cl.name)
    try:
        rw, routs, exc = _real_run(case, m)
    except Unsupported as e:
        note(nm, "unknown", "candidate counterexample cannot be replayed: %s" % e)
        return
    sig = cl.sig or ("%s:%s" % (case.name, cl.name if not crash else "crash"))
    if crash:
        if exc is not None and not case.expected_exception(exc):
            what = "%s :: real code raised %s: %s" % (cl.what, type(exc).__name__, exc)
            _report(run, case, c, m, nm, sig, what, note, rw=rw)
        else:
            note(nm, "unknown", "requirement candidate did not reproduce on real numpy (shim stricter than numpy): %s" % cl.what)
        return
    if exc is not None:
        if case.expected_exception(exc):
            note(nm, "unknown", "real run raised expected %s" % type(exc).__name__)
            return
        what = "%s :: real code raised %s: %s" % (cl.what or cl.name, type(exc).__name__, exc)
        _report(run, case, c, m, nm, sig, what, note, rw=rw)
        return
    try:
        got_c = do_probe(cl, routs, rw.val) if cl.probe else None
    except Exception as e:
        got_c = ("probe-raised", repr(e))
    want_c = _concrete(rw, cl.want) if cl.want is not None else True
    if cl.probe is None:
        note(nm, "unknown", "claim has no probe; candidate model not replayable")
        return
    if cl.ref is not None:
        try:
            ref_c = do_probe(cl, routs, rw.val, "ref")
        except Exception as e:
            ref_c = ("ref-raised", repr(e))
        if not close(ref_c, want_c):
            note(nm, "unknown", "z3 spec and numpy reference disagree on the candidate (spec=%r reference=%r): harness error" % (want_c, ref_c))
            run.errors.append((nm, "spec/reference disagreement"))
            return
    if close(got_c, want_c):
        # the real code agrees with the spec on this input: the symbolic side (shim / instantiation) was imprecise
        got_s = _concrete(rw, cl.got) if cl.got is not None else None
        note(nm, "unknown", "candidate did not reproduce on the real code (real=%r spec=%r shim=%r)" % (got_c, want_c, got_s))
        run.errors.append((nm, "candidate counterexample did not reproduce"))
        return
    what = "%s :: real code gives %r, property requires %r" % (cl.what or cl.name, got_c, want_c)
    _report(run, case, c, m, nm, sig, what, note, rw=rw, cl=cl, want_c=want_c)


def _report(run, case, c, m, nm, sig, what, note, rw=None, cl=None, want_c=None):
    note(nm, "sat")
    base = os.path.join(run_root(), "replays", "%s-%s" % (run.pid, "".join(ch if ch.isalnum() else "_" for ch in nm)[:80]))
    os.makedirs(os.path.dirname(base), exist_ok=True)
    scalars, arrays = {}, {}
    if rw is not None:
        for k, v in rw.record.items():
            if isinstance(v, _np.ndarray):
                arrays[k] = v
            else:
                scalars[k] = None if (isinstance(v, float) and v != v) else v
    probe = None
    if cl is not None and cl.probe is not None and not callable(cl.probe):
        key, idx = cl.probe
        probe = [key, None if idx is None else [int(rw.val(i)) for i in idx]]
    _np.savez_compressed(base + ".inputs.npz", **arrays)
    with open(base + ".inputs.json", "w") as f:
        json.dump({"scalars": scalars, "probe": probe, "want": _jsonable(_pyfloat(want_c)), "what": what, "case": case.name,
                   "model": m.sexpr()[:20000]}, f, indent=1, default=str)
    script = (
        "# replay of a solver counterexample for %s / %s against the real code (real numpy, no solver)\n"
        "import sys\nsys.path.insert(0, %r)\n"
        "from vlib import e2\nimport props.%s as P\n"
        "sys.exit(e2.replay_from_file(P, %r, %r))\n"
    ) % (run.pid, case.name, run_root(), run.pid, case.name, base)
    run.violation(nm, sig, what, script, engine=case.engine)


def _pyfloat(v):
    if isinstance(v, _np.floating):
        return float(v)
    return v


def _jsonable(v):
    if isinstance(v, (tuple, list)):
        return [_jsonable(x) for x in v]
    if isinstance(v, float) and v != v:
        return "nan"
    if isinstance(v, Fraction):
        return float(v)
    return v


def run_root():
    return os.environ.get("VERIF_ROOT") or os.path.dirname(os.path.dirname(os.path.abspath(__file__)))


def _twin_and_conformance(run, case, c, w, note, sym_outs=None):
    """Reachability twin: the path and every claim are jointly satisfiable (no vacuity); then run the real code on the
    model's inputs and compare every claim's produced value with the shim's value under the same model."""
    nm = "%s.twin" % case.name
    r, m = c.reachable(z3.And(*[cl.term for cl in w.claims]) if w.claims else True)
    if (w.hints or c.model_hints) and r == "sat":
        r2, m2 = c._check(*(c.forall_instances() + [cl.term for cl in w.claims] + list(w.hints) + list(c.model_hints)))
        if r2 == "sat":
            m = m2
    if r != "sat":
        note(nm, "unknown", "vacuity twin is %s" % r)
        return
    note(nm, "unsat", "(path and claims jointly satisfiable)")
    run.replays += 1
    try:
        rw, routs, exc = _real_run(case, m)
    except Unsupported as e:
        note("%s.conformance" % case.name, "unknown", "twin model not replayable: %s" % e)
        return
    cn = "%s.conformance" % case.name
    if exc is not None:
        if case.expected_exception(exc):
            note(cn, "unknown", "real run raised expected %s" % type(exc).__name__)
            return
        # the REAL code crashes on a valid scenario that the symbolic run went through: a replayed failure
        nm2 = "%s.real-run" % case.name
        if not run_has_sat(note, nm2):
            _report(run, case, c, m, nm2, "%s:real-run-raises-%s" % (case.name, type(exc).__name__),
                    "the real code raises %s: %s on a valid scenario (inputs chosen by the solver for the vacuity twin)" % (type(exc).__name__, str(exc)[:300]), note, rw=rw)
        return
    if sym_outs is not None and not case.same_path(sym_outs, routs):
        note(cn, "unsat", "(skipped on one path: the model of the instantiated path facts does not extend to whole arrays)")
        return
    bad = []
    nchk = 0
    for cl in w.claims:
        if cl.probe is None or cl.got is None:
            continue
        nchk += 1
        try:
            got_c = do_probe(cl, routs, rw.val)
        except Exception as e:
            got_c = ("probe-raised", repr(e))
        got_s = _concrete(rw, cl.got)
        if not close(got_c, got_s):
            bad.append((cl.name, got_c, got_s))
        if cl.ref is not None and cl.want is not None:
            try:
                ref_c = do_probe(cl, routs, rw.val, "ref")
            except Exception as e:
                ref_c = ("ref-raised", repr(e))
            if not close(ref_c, _concrete(rw, cl.want)):
                bad.append((cl.name + ":spec-vs-reference", ref_c, _concrete(rw, cl.want)))
    if bad:
        note(cn, "unknown", "shim disagrees with real numpy: %r" % (bad[:3],))
        run.errors.append((cn, "shim-conformance failure %r" % (bad[:3],)))
    else:
        note(cn, "unsat", "(%d probes: real numpy == shim under the twin model)" % nchk)


def run_has_sat(note, nm):
    agg = getattr(note, "agg", None)
    return bool(agg and agg.get(nm, {}).get("sat"))


def replay_from_file(P, case_name, base):
    """Entry point of replay scripts: re-run the real code on the recorded inputs; exit 1 if the violation shows."""
    case = None
    for cs in P.cases("thorough") + P.cases("quick"):
        if cs.name == case_name:
            case = cs
            break
    if case is None:
        print("case not found", case_name)
        return 2
    meta = json.load(open(base + ".inputs.json"))
    arrays = dict(_np.load(base + ".inputs.npz"))
    fw = FileWorld(meta["scalars"], arrays)
    print("property violation recorded as:", meta["what"])
    try:
        with _fresh_module_state():
            outs = case.run(fw)
    except Exception as e:
        print("REPRODUCED: real code raised %s: %s" % (type(e).__name__, e))
        return 1
    if meta["probe"] is None:
        print("no declarative probe recorded; inputs are in", base + ".inputs.*")
        return 1
    key, idx = meta["probe"]
    v = outs[key]
    got = _plain(v if idx is None else v[tuple(idx)])
    want = meta["want"]
    if want == "nan":
        want = float("nan")
    print("real code gives", got, "at", key, idx, "; property requires", want)
    if close(got, want):
        print("NOT REPRODUCED")
        return 0
    print("REPRODUCED")
    return 1


# ------------------------------------------------------------------ process-level parallelism over cases

def _worker(args):
    modname, tier, only, idx, seed = args
    import importlib
    from .core import Run
    mod = importlib.import_module(modname)
    sub = Run(mod.__name__.split(".")[-1], tier)
    sub.only = only
    cs = mod.cases(tier)[idx]
    try:
        run_case(sub, cs)
    except Exception:
        sub.error(cs.name, traceback.format_exc())
    return dict(obs=sub.obs, violations=sub.violations, inconclusive=sub.inconclusive, errors=sub.errors,
                queries=sub.queries, solver_s=sub.solver_s, replays=sub.replays, known_hit=sub.known_hit)


def run_cases_parallel(run, modname, workers=16):
    """Run every case of props.<modname>.cases(tier) in its own process and merge the records into `run`."""
    import importlib
    import multiprocessing as mp
    mod = importlib.import_module(modname)
    cases = mod.cases(run.tier)
    only = getattr(run, "only", None)
    jobs = [(modname, run.tier, only, i, run.seed) for i, cs in enumerate(cases)
            if not only or any(o in cs.name for o in only)]
    if not jobs:
        return
    ctxm = mp.get_context("fork")
    mult = 4 if run.tier == "thorough" else 1
    pool = ctxm.Pool(min(workers, len(jobs)))
    try:
        asyncs = [(j, pool.apply_async(_worker, (j,))) for j in jobs]
        t_end = time.time() + max(getattr(cs, "budget_s", 240) for cs in cases) * mult * 1.5 + 120
        for j, a in asyncs:
            try:
                res = a.get(timeout=max(1, t_end - time.time()))
            except mp.TimeoutError:
                run.ob("%s.budget" % cases[j[3]].name, "inconclusive", "E2", "case exceeded its wall-clock budget (worker killed)")
                continue
            run.obs += res["obs"]
            run.violations += res["violations"]
            run.inconclusive += res["inconclusive"]
            run.errors += res["errors"]
            run.queries += res["queries"]
            run.solver_s += res["solver_s"]
            run.replays += res["replays"]
            run.known_hit += res["known_hit"]
    finally:
        pool.terminate()
        pool.join()
